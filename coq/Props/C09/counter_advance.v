From Coq Require Import ZArith NArith List Bool Lia.
Require Import Value Bytes BytesProofs GenMisc MiscModel GenCrypto Sha2 Aes Sm4 Modes Hmac Hkdf Cmac KeyWrap Crc
               CryptoProofs SymWrapModel SymWrapProofs.
Import ListNotations.
Local Open Scope N_scope.

(* C09 property theorem -- statement only; the proof is one lemma application. *)
Theorem counter_advance :
  forall nonce cv big incs k,
  length nonce = 16%nat -> (k <= length incs)%nat ->
  let c0 := (dec32 big (skipn 12 nonce) + match cv with Some v => v | None => 0 end)%Z in
  let c := (c0 + zsum (firstn k incs))%Z in
  counter_init nonce cv big = Ok c0 /\
  exists v, nth k (counter_trace nonce big c0 incs) (Err 0) = Ok v /\
            v = firstn 12 nonce ++ enc32 big (c mod 4294967296) /\
            length v = 16%nat /\ firstn 12 v = firstn 12 nonce /\ dec32 big (skipn 12 v) = (c mod 4294967296)%Z.
Proof. intros nonce cv big incs k Ln Hk. exact (counter_advance_l nonce cv big incs k Ln Hk). Qed.
Print Assumptions counter_advance.
