From Coq Require Import ZArith NArith List Bool Lia.
Require Import Value Bytes BytesProofs GenMisc MiscModel GenCrypto Sha2 Aes Sm4 Modes Hmac Hkdf Cmac KeyWrap Crc
               CryptoProofs SymWrapModel SymWrapProofs.
Import ListNotations.
Local Open Scope N_scope.

(* C09 property theorem -- statement only; the proof is one lemma application. *)
Theorem sb31_kdf_spec :
  forall key const rights mode key_length,
  ((0 <= rights <= 3)%Z -> (key_length = 128 \/ key_length = 256)%Z -> (0 <= const < 2 ^ 96)%Z -> aes_key_ok key = true ->
   kdf_derive key const rights mode key_length =
   Ok (aes_cmac key (kdf_layout const rights mode key_length 1) ++
       (if (key_length =? 256)%Z then aes_cmac key (kdf_layout const rights mode key_length 2) else [])) /\
   length (kdf_layout const rights mode key_length 1) = 32%nat) /\
  ((~ (0 <= rights <= 3) \/ (key_length <> 128 /\ key_length <> 256))%Z ->
   kdf_derive key const rights mode key_length = Err 1).
Proof. intros key c r m kl. split; [intros Hr Hk Hc Ha; split; [exact (sb31_kdf_spec_l key c r m kl Hr Hk Hc Ha) | apply kdf_layout_length] | exact (sb31_kdf_rejects_l key c r m kl)]. Qed.
Print Assumptions sb31_kdf_spec.
