From Coq Require Import ZArith NArith List Bool Lia.
Require Import Value Bytes BytesProofs GenMisc MiscModel GenCrypto Sha2 Aes Sm4 Modes Hmac Hkdf Cmac KeyWrap Crc
               CryptoProofs SymWrapModel SymWrapProofs.
Import ListNotations.
Local Open Scope N_scope.

(* C09 property theorem -- statement only; the proof is one lemma application. *)
Theorem counter_wraps_at_2_32 :
  counter_run (repeat 0 12 ++ repeat 255 4) None false [1%Z] = Ok [Ok (repeat 0 12 ++ repeat 255 4); Ok (repeat 0 16)].
Proof. exact counter_wrap_witness. Qed.
Print Assumptions counter_wraps_at_2_32.
