From Coq Require Import ZArith NArith List Bool Lia.
Require Import Value Bytes BytesProofs GenMisc MiscModel GenCrypto Sha2 Aes Sm4 Modes Hmac Hkdf Cmac KeyWrap Crc
               CryptoProofs SymWrapModel SymWrapProofs.
Import ListNotations.
Local Open Scope N_scope.

(* C09 property theorem -- statement only; the proof is one lemma application. *)
Theorem crc_split :
  forall p reg a b,
  crc_update p reg (a ++ b) = crc_update p (crc_update p reg a) b /\
  crc p (a ++ b) = crc_finish p (crc_update p (crc_update p (crc_init p) a) b).
Proof. intros p reg a b. split; [exact (crc_update_app p reg a b) | exact (crc_app p a b)]. Qed.
Print Assumptions crc_split.
