From Coq Require Import ZArith NArith List Bool Lia.
Require Import Value Bytes BytesProofs GenMisc MiscModel GenCrypto Sha2 Aes Sm4 Modes Hmac Hkdf Cmac KeyWrap Crc
               CryptoProofs SymWrapModel SymWrapProofs.
Import ListNotations.
Local Open Scope N_scope.

(* C09 property theorem -- statement only; the proof is one lemma application. *)
Theorem xts_dec_enc :
  forall (E D : list N -> list N),
  (forall b, okb b -> D (E b) = b) -> (forall b, okb b -> okb (E b)) ->
  forall (E2 : list N -> list N) tweak m, okb (E2 tweak) -> wf_bytes m -> (16 <= length m)%nat ->
  xts_crypt D E2 true tweak (xts_crypt E E2 false tweak m) = m.
Proof. intros E D DE EO E2 tw m Ht W L. exact (xts_dec_enc_l E D DE EO E2 tw m Ht W L). Qed.
Print Assumptions xts_dec_enc.
