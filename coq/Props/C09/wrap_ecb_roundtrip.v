From Coq Require Import ZArith NArith List Bool Lia.
Require Import Value Bytes BytesProofs GenMisc MiscModel GenCrypto Sha2 Aes Sm4 Modes Hmac Hkdf Cmac KeyWrap Crc
               CryptoProofs SymWrapModel SymWrapProofs.
Import ListNotations.
Local Open Scope N_scope.

(* C09 property theorem -- statement only; the proof is one lemma application. *)
Theorem wrap_ecb_roundtrip :
  forall key m, aes_key_ok key = true -> wf_bytes key -> wf_bytes m -> Nat.modulo (length m) 16 = 0%nat ->
  exists c, aes_ecb_encrypt key m = Ok c /\ aes_ecb_decrypt key c = Ok m.
Proof. intros key m Hk Wk Wm M. exact (wrap_ecb_roundtrip_l key m Hk Wk Wm M). Qed.
Print Assumptions wrap_ecb_roundtrip.
