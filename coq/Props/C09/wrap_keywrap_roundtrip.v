From Coq Require Import ZArith NArith List Bool Lia.
Require Import Value Bytes BytesProofs GenMisc MiscModel GenCrypto Sha2 Aes Sm4 Modes Hmac Hkdf Cmac KeyWrap Crc
               CryptoProofs SymWrapModel SymWrapProofs.
Import ListNotations.
Local Open Scope N_scope.

(* C09 property theorem -- statement only; the proof is one lemma application. *)
Theorem wrap_keywrap_roundtrip :
  forall kek key_data, aes_key_ok kek = true -> wf_bytes kek -> wf_bytes key_data ->
  (16 <= length key_data)%nat -> Nat.modulo (length key_data) 8 = 0%nat ->
  exists c, aes_key_wrap kek key_data = Ok c /\ aes_key_unwrap kek c = Ok key_data.
Proof. intros kek d Hk Wk Wd Ld Md. exact (wrap_keywrap_roundtrip_l kek d Hk Wk Wd Ld Md). Qed.
Print Assumptions wrap_keywrap_roundtrip.
