From Coq Require Import ZArith NArith List Bool Lia.
Require Import Value Bytes BytesProofs GenMisc MiscModel GenCrypto Sha2 Aes Sm4 Modes Hmac Hkdf Cmac KeyWrap Crc
               CryptoProofs SymWrapModel SymWrapProofs.
Import ListNotations.
Local Open Scope N_scope.

(* C09 property theorem -- statement only; the proof is one lemma application. *)
Theorem wrap_ccm_roundtrip :
  forall key m nonce aad taglen,
  aes_key_ok key = true -> wf_bytes key -> ccm_nonce_ok nonce = true ->
  ccm_tag_ok (match taglen with Some t => t | None => 16%Z end) = true ->
  ccm_len_ok nonce (length m + Z.to_nat (match taglen with Some t => t | None => 16%Z end)) = true ->
  exists c, aes_ccm_encrypt key m nonce aad taglen = Ok c /\
            aes_ccm_decrypt key c nonce (match aad with Some a => a | None => [] end) taglen = Ok m.
Proof. intros key m nonce aad tl Hk Wk Hn Ht Hl. exact (wrap_ccm_roundtrip_l key m nonce aad tl Hk Wk Hn Ht Hl). Qed.
Print Assumptions wrap_ccm_roundtrip.
