From Coq Require Import ZArith NArith List Bool Lia.
Require Import Value Bytes BytesProofs GenMisc MiscModel GenCrypto Sha2 Aes Sm4 Modes Hmac Hkdf Cmac KeyWrap Crc
               CryptoProofs SymWrapModel SymWrapProofs.
Import ListNotations.
Local Open Scope N_scope.

(* C09 property theorem -- statement only; the proof is one lemma application. *)
Theorem wrap_ctr_roundtrip :
  forall key m nonce, aes_key_ok key = true -> wf_bytes key -> length nonce = 16%nat ->
  exists c, aes_ctr_crypt key m nonce = Ok c /\ aes_ctr_crypt key c nonce = Ok m /\ length c = length m.
Proof. intros key m nonce Hk Wk Ln. exact (wrap_ctr_roundtrip_l key m nonce Hk Wk Ln). Qed.
Print Assumptions wrap_ctr_roundtrip.
