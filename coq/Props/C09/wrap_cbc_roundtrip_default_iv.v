From Coq Require Import ZArith NArith List Bool Lia.
Require Import Value Bytes BytesProofs GenMisc MiscModel GenCrypto Sha2 Aes Sm4 Modes Hmac Hkdf Cmac KeyWrap Crc
               CryptoProofs SymWrapModel SymWrapProofs.
Import ListNotations.
Local Open Scope N_scope.

(* C09 property theorem -- statement only; the proof is one lemma application. *)
Theorem wrap_cbc_roundtrip_default_iv :
  forall key m, aes_key_ok key = true -> wf_bytes key -> wf_bytes m ->
  exists c, aes_cbc_encrypt key m None = Ok c /\ aes_cbc_decrypt key c None = Ok (zero_pad16 m).
Proof. intros key m Hk Wk Wm. exact (wrap_cbc_roundtrip_l key m None Hk Wk Wm I). Qed.
Print Assumptions wrap_cbc_roundtrip_default_iv.
