From Coq Require Import ZArith NArith List Bool Lia.
Require Import Value Bytes BytesProofs GenMisc MiscModel GenCrypto Sha2 Aes Sm4 Modes Hmac Hkdf Cmac KeyWrap Crc
               CryptoProofs SymWrapModel SymWrapProofs.
Import ListNotations.
Local Open Scope N_scope.

(* C09 property theorem -- statement only; the proof is one lemma application. *)
Theorem ecb_dec_enc :
  forall (E D : list N -> list N),
  (forall b, okb b -> D (E b) = b) -> (forall b, okb b -> okb (E b)) ->
  forall m, wf_bytes m -> Nat.modulo (length m) 16 = 0%nat -> ecb D (ecb E m) = m.
Proof. intros E D DE EO m W M. exact (ecb_dec_enc_l E D DE EO m W M). Qed.
Print Assumptions ecb_dec_enc.
