From Coq Require Import ZArith NArith List Bool Lia.
Require Import Value Bytes BytesProofs GenMisc MiscModel GenCrypto Sha2 Aes Sm4 Modes Hmac Hkdf Cmac KeyWrap Crc
               CryptoProofs SymWrapModel SymWrapProofs.
Import ListNotations.
Local Open Scope N_scope.

(* C09 property theorem -- statement only; the proof is one lemma application. *)
Theorem ctr_involutive :
  forall (E : list N -> list N), (forall b, length b = 16%nat -> length (E b) = 16%nat) ->
  forall nonce m, length nonce = 16%nat ->
  ctr_xcrypt E nonce (ctr_xcrypt E nonce m) = m /\ length (ctr_xcrypt E nonce m) = length m.
Proof. intros E EL nonce m Ln. split; [exact (ctr_involutive_l E EL nonce m Ln) | exact (ctr_length E EL nonce m Ln)]. Qed.
Print Assumptions ctr_involutive.
