From Coq Require Import ZArith NArith List Bool Lia.
Require Import Value Bytes BytesProofs GenMisc MiscModel GenCrypto Sha2 Aes Sm4 Modes Hmac Hkdf Cmac KeyWrap Crc
               CryptoProofs SymWrapModel SymWrapProofs.
Import ListNotations.
Local Open Scope N_scope.

(* C09 property theorem -- statement only; the proof is one lemma application. *)
Theorem keystore_derivations :
  forall k,
  (nlen k = 32 ->
   derive_hmac_key k = Ok (aesE k (zeros 16)) /\
   derive_enc_image_key k = Ok (aesE k (ks_block 1) ++ aesE k (ks_block 2)) /\
   derive_sb_kek_key k = Ok (aesE k (ks_block 3) ++ aesE k (ks_block 4)) /\
   (forall i, nlen i = 16 -> derive_otfad_kek_key k i = Ok (aesE k i))) /\
  (nlen k <> 32 -> forall i,
   derive_hmac_key k = Err 1 /\ derive_enc_image_key k = Err 1 /\ derive_sb_kek_key k = Err 1 /\
   derive_otfad_kek_key k i = Err 1).
Proof. intros k. split; [exact (keystore_derivations_l k) | intros H i; exact (keystore_rejects_l k i H)]. Qed.
Print Assumptions keystore_derivations.
