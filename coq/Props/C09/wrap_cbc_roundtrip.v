From Coq Require Import ZArith NArith List Bool Lia.
Require Import Value Bytes BytesProofs GenMisc MiscModel GenCrypto Sha2 Aes Sm4 Modes Hmac Hkdf Cmac KeyWrap Crc
               CryptoProofs SymWrapModel SymWrapProofs.
Import ListNotations.
Local Open Scope N_scope.

(* C09 property theorem -- statement only; the proof is one lemma application. *)
Theorem wrap_cbc_roundtrip :
  forall key m iv, aes_key_ok key = true -> wf_bytes key -> wf_bytes m -> iv_arg_ok iv ->
  exists c, aes_cbc_encrypt key m iv = Ok c /\ aes_cbc_decrypt key c iv = Ok (zero_pad16 m).
Proof. intros key m iv Hk Wk Wm Hiv. exact (wrap_cbc_roundtrip_l key m iv Hk Wk Wm Hiv). Qed.
Print Assumptions wrap_cbc_roundtrip.
