From Coq Require Import ZArith NArith List Bool Lia.
Require Import Value Bytes BytesProofs GenMisc MiscModel GenCrypto Sha2 Aes Sm4 Modes Hmac Hkdf Cmac KeyWrap Crc
               CryptoProofs SymWrapModel SymWrapProofs.
Import ListNotations.
Local Open Scope N_scope.

(* C09 property theorem -- statement only; the proof is one lemma application. *)
Theorem crc_table_standard :
  (map fst crc_table = [str_crc32; str_crc32_mpeg; str_crc16_xmodem] /\
   map (fun e => crcmod_params (snd e)) crc_table = [Some CRC32; Some CRC32_MPEG2; Some CRC16_XMODEM]) /\
  forall data, spsdk_crc str_crc32 data = Ok (crc CRC32 data) /\
               spsdk_crc str_crc32_mpeg data = Ok (crc CRC32_MPEG2 data) /\
               spsdk_crc str_crc16_xmodem data = Ok (crc CRC16_XMODEM data).
Proof. split; [exact crc_table_standard_l | exact spsdk_crc_standard_l]. Qed.
Print Assumptions crc_table_standard.
