From Coq Require Import ZArith NArith List Bool Lia.
Require Import Value Bytes BytesProofs GenMisc MiscModel GenCrypto Sha2 Aes Sm4 Modes Hmac Hkdf Cmac KeyWrap Crc
               CryptoProofs SymWrapModel SymWrapProofs.
Import ListNotations.
Local Open Scope N_scope.

(* C09 property theorem -- statement only; the proof is one lemma application. *)
Theorem wrap_sm4_cbc_roundtrip :
  forall key m iv, sm4_key_ok key = true -> wf_bytes m -> iv_arg_ok iv ->
  exists c, sm4_cbc_encrypt key m iv = Ok c /\ sm4_cbc_decrypt key c iv = Ok (zero_pad16 m).
Proof. intros key m iv Hk Wm Hiv. exact (wrap_sm4_cbc_roundtrip_l key m iv Hk Wm Hiv). Qed.
Print Assumptions wrap_sm4_cbc_roundtrip.
