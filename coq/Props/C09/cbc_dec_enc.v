From Coq Require Import ZArith NArith List Bool Lia.
Require Import Value Bytes BytesProofs GenMisc MiscModel GenCrypto Sha2 Aes Sm4 Modes Hmac Hkdf Cmac KeyWrap Crc
               CryptoProofs SymWrapModel SymWrapProofs.
Import ListNotations.
Local Open Scope N_scope.

(* C09 property theorem -- statement only; the proof is one lemma application. *)
Theorem cbc_dec_enc :
  forall (E D : list N -> list N),
  (forall b, okb b -> D (E b) = b) -> (forall b, okb b -> okb (E b)) ->
  forall iv m, okb iv -> wf_bytes m -> Nat.modulo (length m) 16 = 0%nat -> cbc_dec D iv (cbc_enc E iv m) = m.
Proof. intros E D DE EO iv m Hiv W M. exact (cbc_dec_enc_l E D DE EO iv m Hiv W M). Qed.
Print Assumptions cbc_dec_enc.
