From Coq Require Import ZArith NArith List Bool Lia.
Require Import Value Bytes BytesProofs GenMisc MiscModel GenCrypto Sha2 Aes Sm4 Modes Hmac Hkdf Cmac KeyWrap Crc
               CryptoProofs SymWrapModel SymWrapProofs.
Import ListNotations.
Local Open Scope N_scope.

(* C09 property theorem -- statement only; the proof is one lemma application. *)
Theorem wrap_xts_roundtrip :
  forall key m tweak, xts_key_ok key = true -> wf_bytes key ->
  eqb_list (xts_k1 key) (xts_k2 key) = false -> okb tweak -> wf_bytes m -> (16 <= length m)%nat ->
  exists c, aes_xts_encrypt key m tweak = Ok c /\ aes_xts_decrypt key c tweak = Ok m.
Proof. intros key m tw Hk Wk Hne Ht Wm Lm. exact (wrap_xts_roundtrip_l key m tw Hk Wk Hne Ht Wm Lm). Qed.
Print Assumptions wrap_xts_roundtrip.
