From Coq Require Import ZArith NArith List Bool Lia.
Require Import Value Bytes BytesProofs GenMisc MiscModel GenCrypto Sha2 Aes Sm4 Modes Hmac Hkdf Cmac KeyWrap Crc
               CryptoProofs SymWrapModel SymWrapProofs.
Import ListNotations.
Local Open Scope N_scope.

(* C09 property theorem -- statement only; the proof is one lemma application. *)
Theorem ccm_dec_enc :
  forall (E : list N -> list N), (forall b, length b = 16%nat -> length (E b) = 16%nat) ->
  forall nonce aad taglen p, (length nonce <= 14)%nat -> (taglen <= 16)%nat ->
  ccm_decrypt E nonce aad taglen (ccm_encrypt E nonce aad taglen p) = Some p.
Proof. intros E EL nonce aad t p Hn Ht. exact (ccm_dec_enc_l E EL nonce aad t p Hn Ht). Qed.
Print Assumptions ccm_dec_enc.
