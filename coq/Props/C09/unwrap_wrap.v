From Coq Require Import ZArith NArith List Bool Lia.
Require Import Value Bytes BytesProofs GenMisc MiscModel GenCrypto Sha2 Aes Sm4 Modes Hmac Hkdf Cmac KeyWrap Crc
               CryptoProofs SymWrapModel SymWrapProofs.
Import ListNotations.
Local Open Scope N_scope.

(* C09 property theorem -- statement only; the proof is one lemma application. *)
Theorem unwrap_wrap :
  forall (E D : list N -> list N),
  (forall b, okb b -> D (E b) = b) -> (forall b, okb b -> okb (E b)) ->
  forall key_data, wf_bytes key_data -> Nat.modulo (length key_data) 8 = 0%nat ->
  kw_unwrap D (kw_wrap E key_data) = Some key_data.
Proof. intros E D DE EO d W M. exact (unwrap_wrap_l E D DE EO d W M). Qed.
Print Assumptions unwrap_wrap.
