From Coq Require Import ZArith NArith List Bool Lia.
Require Import Value Bytes BytesProofs GenMisc MiscModel GenCrypto Sha2 Aes Sm4 Modes Hmac Hkdf Cmac KeyWrap Crc
               CryptoProofs SymWrapModel SymWrapProofs.
Import ListNotations.
Local Open Scope N_scope.

(* C09 property theorem -- statement only; the proof is one lemma application. *)
Theorem mac_hash_wrappers_reference :
  forall k d s i inf len,
  get_hash d 1 = Ok (sha256 d) /\ get_hash d 2 = Ok (sha384 d) /\ get_hash d 3 = Ok (sha512 d) /\ get_hash d 254 = Err 1 /\
  spsdk_hmac k d 1 = Ok (hmac_sha256 k d) /\ spsdk_hmac k d 2 = Ok (hmac_sha384 k d) /\ spsdk_hmac k d 3 = Ok (hmac_sha512 k d) /\
  (aes_key_ok k = true -> spsdk_cmac k d = Ok (aes_cmac k d)) /\
  ((0 <= len <= 8160)%Z -> spsdk_hkdf s i inf len = Ok (hkdf_sha256 s i inf (Z.to_nat len))).
Proof. intros k d s i inf len. exact (mac_hash_wrappers_reference_l k d s i inf len). Qed.
Print Assumptions mac_hash_wrappers_reference.
