From Coq Require Import ZArith NArith List Bool Lia.
Require Import Value Bytes BytesProofs GenMisc MiscModel GenCrypto Sha2 Aes Sm4 Modes Hmac Hkdf Cmac KeyWrap Crc
               CryptoProofs SymWrapModel SymWrapProofs.
Import ListNotations.
Local Open Scope N_scope.

(* C09 property theorem -- statement only; the proof is one lemma application. *)
Theorem aes_inv_cipher :
  forall key b, aes_key_ok key = true -> wf_bytes key -> okb b ->
  aes_dec key (aes_enc key b) = b /\ okb (aes_enc key b).
Proof. intros key b Hk W Hb. exact (aes_dec_enc key b Hk W Hb). Qed.
Print Assumptions aes_inv_cipher.
