From Coq Require Import ZArith NArith List Bool Lia.
Require Import Value Bytes BytesProofs GenMisc MiscModel GenCrypto Sha2 Aes Sm4 Modes Hmac Hkdf Cmac KeyWrap Crc
               CryptoProofs SymWrapModel SymWrapProofs.
Import ListNotations.
Local Open Scope N_scope.

(* C09 property theorem -- statement only; the proof is one lemma application. *)
Theorem sm4_dec_enc :
  forall key b, okb b -> sm4_dec key (sm4_enc key b) = b /\ okb (sm4_enc key b).
Proof. intros key b Hb. exact (sm4_dec_enc_l key b Hb). Qed.
Print Assumptions sm4_dec_enc.
