From Coq Require Import ZArith NArith List Bool Lia.
Require Import Value Bytes Sha2 GenRot RotModel RotProofs.
Import ListNotations.
Local Open Scope N_scope.

(* C03 (T1, database): every family of the cert-block database has a known rot_type, the Rot class selected for it is the
   one of that type (none only for cert_block_x), its ISK user-data alignment is a non-zero multiple of 4; every PFR
   family with a ROTKH register uses RKHTv1 with 256 bits or RKHTv21 with 384 bits. *)
Theorem db_rot_types_known :
  Forall (fun r => fam_ok r = true) g_families /\ Forall (fun r => pfr_ok r = true) g_pfr.
Proof. exact db_rot_types_known_lemma. Qed.
Print Assumptions db_rot_types_known.
