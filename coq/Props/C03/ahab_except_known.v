From Coq Require Import ZArith NArith List Bool Lia.
Require Import Value Bytes Sha2 GenRot RotModel RotProofs.
Import ListNotations.
Local Open Scope N_scope.

(* C03: outside the known class (no CA certificate among the inputs) the AHAB SRK hash and table depend on the ordered
   key list only. *)
Theorem ahab_except_known :
  forall c inp inp', Forall no_ca inp -> Forall no_ca inp' -> map fst inp = map fst inp' ->
  rot_ahab c inp = rot_ahab c inp' /\ rot_ahab_export c inp = rot_ahab_export c inp'.
Proof. exact ahab_except_known_lemma. Qed.
Print Assumptions ahab_except_known.
