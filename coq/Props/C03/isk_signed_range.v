From Coq Require Import ZArith NArith List Bool Lia.
Require Import Value Bytes Sha2 GenRot RotModel RotProofs.
Import ListNotations.
Local Open Scope N_scope.

(* C03: the message handed to the signer is exactly root-key record || signature offset, constraints, flags || ISK public
   key || user data, the record ends with the raw public key of the selected root, and the exported block is
   header || that message || the signature. *)
Theorem isk_signed_range :
  forall sign b ex msgs, cb21_export sign b = Ok (ex, msgs) ->
  match (if b_ca b then None else b_isk b) with
  | None => msgs = []
  | Some i =>
      exists f hs rp k pub hdr,
        rkr_calc (b_ca b) (b_used b) (b_keys b) = Ok (f, hs, rp) /\
        nth_error (b_keys b) (N.to_nat (b_used b)) = Some k /\ raw_key k = Ok rp /\
        raw_key (i_key i) = Ok pub /\
        let msg := (le32 f ++ export_v21 hs ++ rp)
                   ++ (le32 (isk_sig_offset i) ++ le32 (i_constraints i) ++ le32 (isk_flags i)) ++ pub ++ i_user_data i in
        msgs = [msg] /\ length hdr = 12%nat /\ ex = hdr ++ msg ++ sign msg
  end.
Proof. exact isk_signed_range_lemma. Qed.
Print Assumptions isk_signed_range.
