From Coq Require Import ZArith NArith List Bool Lia.
Require Import Value Bytes Sha2 GenRot RotModel RotProofs.
Import ListNotations.
Local Open Scope N_scope.

(* C03: for the cert-block RoT types the result depends on the ordered key list only, not on how each key was supplied
   (PEM/DER key or certificate, private key, object = SPlain; CA certificate bytes = SCaBytes; NXP raw bytes = SRaw). *)
Theorem independent_of_supply :
  forall inp inp', Forall supply_ok inp -> Forall supply_ok inp' -> map fst inp = map fst inp' ->
  rot_v1 inp = rot_v1 inp' /\ rot_v1_export inp = rot_v1_export inp' /\ rot_v21 inp = rot_v21 inp' /\ rot_v21_export inp = rot_v21_export inp'.
Proof. exact independent_of_supply_lemma. Qed.
Print Assumptions independent_of_supply.
