From Coq Require Import ZArith NArith List Bool Lia.
Require Import Value Bytes Sha2 GenRot RotModel RotProofs.
Import ListNotations.
Local Open Scope N_scope.

(* C03: the RoT value does not depend on which root key signs: any two used-root indices (and ISK / CA settings) give the
   same CertBlockV21.rkth for ANY key list, and CertBlockV1's rkth / fuse words depend on the RKH table only. *)
Theorem independent_of_signer :
  (forall b b', b_keys b = b_keys b' -> (N.to_nat (b_used b) < length (b_keys b))%nat ->
                (N.to_nat (b_used b') < length (b_keys b))%nat -> cb21_rkth b = cb21_rkth b')
  /\ (forall b b', c1_rkh b = c1_rkh b' -> cb1_rkth b = cb1_rkth b' /\ cb1_fuses b = cb1_fuses b').
Proof. exact independent_of_signer_lemma. Qed.
Print Assumptions independent_of_signer.
