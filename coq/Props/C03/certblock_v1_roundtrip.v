From Coq Require Import ZArith NArith List Bool Lia.
Require Import Value Bytes Sha2 GenRot RotModel RotProofs RotBlockProofs.
Import ListNotations.
Local Open Scope N_scope.

(* C03: a certificate block v1 survives export/parse for ALL headers (incl. image_length), certificate lists (opaque blobs
   shorter than 2^32) and RKH tables of up to four 32-byte entries, for every alignment: parse accepts the exported bytes
   and returns the same certificates, flags, build number, version, image length, RKH table (zero-filled to four slots),
   RKTH and fuse words, and re-export reproduces the bytes. *)
Theorem certblock_v1_roundtrip :
  forall al b, 0 < al -> wf_cb1 b ->
  exists p,
    cb1_parse (cb1_export al b) = Ok p /\
    c1_certs p = c1_certs b /\ c1_flags p = c1_flags b /\ c1_build p = c1_build b /\
    c1_major p = c1_major b /\ c1_minor p = c1_minor b /\ c1_image_length p = c1_image_length b /\
    c1_rkh p = slots_v1 (c1_rkh b) /\ cb1_rkth p = cb1_rkth b /\ cb1_fuses p = cb1_fuses b /\
    cb1_export al p = cb1_export al b.
Proof. exact cb1_roundtrip_lemma. Qed.
Print Assumptions certblock_v1_roundtrip.
