From Coq Require Import ZArith NArith List Bool Lia.
Require Import Value Bytes Sha2 GenRot RotModel RotProofs.
Import ListNotations.
Local Open Scope N_scope.

(* C03: the flags word of the root key record decodes to its inputs: CA bit, used root index, key count, curve nibble. *)
Theorem flags_describe :
  forall c ca used ks,
  ecc_set c ks -> Forall key_ok ks -> (length ks <= 4)%nat -> (N.to_nat used < length ks)%nat ->
  exists f hs pub k,
    rkr_calc ca used ks = Ok (f, hs, pub) /\ nth_error ks (N.to_nat used) = Some k /\ raw_key k = Ok pub /\
    N.testbit f 31 = ca /\ N.shiftr (N.land f 3840) 8 = used /\ N.shiftr (N.land f 240) 4 = nlen ks /\
    N.land f 15 = (if c =? 256 then 1 else 2).
Proof. exact flags_describe_lemma. Qed.
Print Assumptions flags_describe.
