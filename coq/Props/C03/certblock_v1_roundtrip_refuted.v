From Coq Require Import ZArith NArith List Bool Lia.
Require Import Value Bytes Sha2 GenRot RotModel RotProofs RotBlockProofs.
Import ListNotations.
Local Open Scope N_scope.

(* C03 (known finding C03-F3): the full round trip is false: CertBlockV1.parse drops header.image_length, so for a
   well-formed block with image_length = 12608 export (parse (export x)) differs from export x. *)
Theorem certblock_v1_roundtrip_refuted :
  wf_cb1 il_block /\
  match cb1_parse (cb1_export 16 il_block) with
  | Ok p => negb (eqb_list (cb1_export 16 p) (cb1_export 16 il_block))
  | Err _ => false
  end = true.
Proof. exact cb1_roundtrip_refuted_lemma. Qed.
Print Assumptions certblock_v1_roundtrip_refuted.
