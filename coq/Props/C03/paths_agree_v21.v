From Coq Require Import ZArith NArith List Bool Lia.
Require Import Value Bytes Sha2 GenRot RotModel RotProofs.
Import ListNotations.
Local Open Scope N_scope.

(* C03: cert-block-v2.1 RoT (RoTKTH) -- Rot class / nxpcrypto rot, CertBlockV21.rkth for every used-root index, debug
   credential RoT meta and PFR ROTKH (zero padded to the 384-bit register) return the documented value: the hash
   of X||Y for one key, the hash of the table of such hashes for several, for ALL lists of 1..4 P-256 or P-384 keys
   whose coordinates fit the curve width. *)
Theorem paths_agree_v21 :
  forall (c : N) (ks : list key),
  (c = 256 \/ c = 384) -> Forall (is_ecc c) ks -> Forall key_ok ks -> ks <> [] -> (length ks <= 4)%nat ->
  rot_v21 (map (fun k => (k, SPlain)) ks) = Ok (rot_spec_v21 ks)
  /\ (forall ca used isk fam, (N.to_nat used < length ks)%nat ->
        cb21_rkth {| b_ca := ca; b_used := used; b_keys := ks; b_isk := isk; b_family := fam |} = Ok (rot_spec_v21 ks))
  /\ (forall rot_id, (N.to_nat rot_id < length ks)%nat -> dc_ecc_hash ks rot_id = Ok (rot_spec_v21 ks))
  /\ pfr_rotkh 21 384 ks = Ok (rot_spec_v21 ks ++ zeros (48 - length (rot_spec_v21 ks))).
Proof. exact paths_agree_v21_lemma. Qed.
Print Assumptions paths_agree_v21.
