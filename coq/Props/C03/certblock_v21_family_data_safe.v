From Coq Require Import ZArith NArith List Bool Lia.
Require Import Value Bytes Sha2 GenRot RotModel RotProofs.
Import ListNotations.
Local Open Scope N_scope.

(* C03: for every family of the database, ISK user data accepted by the family check (limit, alignment) can never trigger
   the offset-less heuristic of IskCertificate.parse. *)
Theorem certblock_v21_family_data_safe :
  forall row i, In row g_families ->
  isk_check (Some (fst (snd (snd (snd row))), snd (snd (snd (snd row))))) i = Ok tt ->
  (key_bits (i_key i) = 256 \/ key_bits (i_key i) = 384) ->
  N.land (isk_sig_offset i) g_isk_heur_mask <> g_isk_heur_magic.
Proof. exact family_data_safe_lemma. Qed.
Print Assumptions certblock_v21_family_data_safe.
