From Coq Require Import ZArith NArith List Bool Lia.
Require Import Value Bytes Sha2 GenRot RotModel RotProofs.
Import ListNotations.
Local Open Scope N_scope.

(* C03: the hypothesis of paths_agree_v1 on the debug-credential path is necessary: RotMetaRSA writes the exponent in
   three bytes, so for e = 3 its hash differs from the Rot class. *)
Theorem dc_rsa_needs_three_byte_exponent :
  exists k, is_rsa k /\ ~ rsa_e3 k /\ dc_rsa_hash [k] <> rot_v1 [(k, SPlain)].
Proof. exact dc_rsa_e3_refuted. Qed.
Print Assumptions dc_rsa_needs_three_byte_exponent.
