From Coq Require Import ZArith NArith List Bool Lia.
Require Import Value Bytes Sha2 GenRot RotModel RotProofs.
Import ListNotations.
Local Open Scope N_scope.

(* C03: a key given as NXP raw bytes is recovered exactly (P-256/384/521 points on their curve; RSA-2048/3072/4096
   moduli with a 3- or 4-byte exponent). *)
Theorem raw_key_roundtrip : forall k, raw_ok k -> bind (raw_key k) raw_decode = Ok k.
Proof. exact raw_key_roundtrip_lemma. Qed.
Print Assumptions raw_key_roundtrip.
