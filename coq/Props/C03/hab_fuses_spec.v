From Coq Require Import ZArith NArith List Bool Lia.
Require Import Value Bytes Sha2 GenRot RotModel RotProofs.
Import ListNotations.
Local Open Scope N_scope.

(* C03: HAB SRK fuses = SHA-256 over the SHA-256 digests of the SRK entries; an RSA entry is tag 0xE1, length, 0x21,
   flags (0x80 = CA), modulus/exponent lengths, minimal modulus, minimal exponent; the value depends on the (key, CA flag)
   list only. *)
Theorem hab_fuses_spec :
  (forall n e ca, hab_item (KRsa n e, ca) =
     Ok ([225] ++ be16 (12 + nlen (be_min n) + nlen (be_min e)) ++ [33] ++ [0; 0; 0; if ca then 128 else 0]
         ++ be16 (nlen (be_min n)) ++ be16 (nlen (be_min e)) ++ be_min n ++ be_min e))
  /\ (forall ks items, map_res hab_item ks = Ok items -> hab_fuses ks = Ok (sha256 (concat (map sha256 items))))
  /\ (forall ks ks', map fst ks = map fst ks' -> map snd ks = map snd ks' -> hab_fuses ks = hab_fuses ks').
Proof. exact hab_fuses_spec_lemma. Qed.
Print Assumptions hab_fuses_spec.
