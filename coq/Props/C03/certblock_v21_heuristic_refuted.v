From Coq Require Import ZArith NArith List Bool Lia.
Require Import Value Bytes Sha2 GenRot RotModel RotProofs.
Import ListNotations.
Local Open Scope N_scope.

(* C03 (known finding C03-F4): without a family limit the heuristic fires: a valid block (P-256 roots, P-256 ISK, 19703
   bytes of user data) is exported but rejected by parse. *)
Theorem certblock_v21_heuristic_refuted :
  N.land (12 + 19703 + 64) g_isk_heur_mask = g_isk_heur_magic /\
  match cb21_export (fun _ => repeat 1 64%nat) heur_block with
  | Ok (ex, _) => match cb21_parse ex with Ok _ => false | Err _ => true end
  | Err _ => false
  end = true.
Proof. exact heuristic_refuted_lemma. Qed.
Print Assumptions certblock_v21_heuristic_refuted.
