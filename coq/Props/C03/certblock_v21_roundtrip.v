From Coq Require Import ZArith NArith List Bool Lia.
Require Import Value Bytes Sha2 GenRot RotModel RotProofs RotBlockProofs.
Import ListNotations.
Local Open Scope N_scope.

(* C03: a certificate block v2.1 survives export/parse: for ALL blocks of 1..4 P-256/P-384 root keys (coordinates in range),
   any used index, CA flag or an ISK certificate (P-256/P-384 key on its curve, 32-bit constraints, user data of any
   length whose signature offset fits 32 bits), any signer returning r||s of the root curve's width -- PROVIDED the
   offset-less heuristic of IskCertificate.parse does not fire (isk_ok: sig_offset & 0xFFFF <> 0x4D43) -- parse accepts
   the exported bytes, re-export reproduces them, the parsed RoT hash is the documented one and flags, root key, ISK
   fields and signature are the inputs. *)
Theorem certblock_v21_roundtrip :
  forall c sign b ex msgs,
  block_ok sign c b -> cb21_export sign b = Ok (ex, msgs) ->
  exists p,
    cb21_parse ex = Ok p /\ cb21_reexport p = Ok ex /\ cb21_out_rkth p = Ok (rot_spec_v21 (b_keys b)) /\
    N.testbit (p_flags p) 31 = b_ca b /\ N.shiftr (N.land (p_flags p) 3840) 8 = b_used b /\
    N.shiftr (N.land (p_flags p) 240) 4 = nlen (b_keys b) /\
    (exists k, nth_error (b_keys b) (N.to_nat (b_used b)) = Some k /\ raw_key k = Ok (p_root_pub p)) /\
    match p_isk p, (if b_ca b then None else b_isk b) with
    | None, None => True
    | Some o, Some i => o_constraints o = i_constraints i /\ o_user_data o = i_user_data i /\ raw_key (i_key i) = Ok (o_pub o)
                        /\ o_flags o = isk_flags i /\ exists m, msgs = [m] /\ o_sig o = sign m
    | _, _ => False
    end.
Proof. exact cb21_roundtrip_lemma. Qed.
Print Assumptions certblock_v21_roundtrip.
