From Coq Require Import ZArith NArith List Bool Lia.
Require Import Value Bytes Sha2 GenRot RotModel RotProofs.
Import ListNotations.
Local Open Scope N_scope.

(* C03: ECC coordinates are written in full curve width whatever their leading bytes (and decode back), RSA modulus and
   exponent are written minimally (no shorter big-endian string decodes to the same number). *)
Theorem leading_zero_safe :
  (forall c x y, x < 2 ^ (8 * N.of_nat (coord_size c)) -> y < 2 ^ (8 * N.of_nat (coord_size c)) ->
     exists r, raw_key (KEcc c x y) = Ok r /\ length r = (2 * coord_size c)%nat /\
               be_dec (firstn (coord_size c) r) = x /\ be_dec (skipn (coord_size c) r) = y)
  /\ (forall n e, exists r, raw_key (KRsa n e) = Ok r /\ r = be_min n ++ be_min e /\
        be_dec (be_min n) = n /\ be_dec (be_min e) = e /\
        (forall w, (w < byte_len n)%nat -> be_dec (be_encf w n) <> n) /\ (forall w, (w < byte_len e)%nat -> be_dec (be_encf w e) <> e)).
Proof. exact leading_zero_safe_lemma. Qed.
Print Assumptions leading_zero_safe.
