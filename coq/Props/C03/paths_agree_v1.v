From Coq Require Import ZArith NArith List Bool Lia.
Require Import Value Bytes Sha2 GenRot RotModel RotProofs.
Import ListNotations.
Local Open Scope N_scope.

(* C03: cert-block-v1 RoT (RKTH) -- every tool path (Rot class / nxpcrypto rot, CertBlockV1.rkth, PFR ROTKH, debug
   credential RoT meta) returns the documented SHA-256 over four zero-padded SHA-256(modulus || exponent) slots,
   for ALL lists of at most four RSA keys of any size (the debug-credential path needs a three-byte exponent). *)
Theorem paths_agree_v1 :
  forall ks : list key, Forall is_rsa ks -> (length ks <= 4)%nat ->
  rot_v1 (map (fun k => (k, SPlain)) ks) = Ok (rot_spec_v1 ks)
  /\ (exists hs, cb1_rkh_of_keys (map Some ks) = Ok hs /\
        forall mj mn fl bn il certs, cb1_rkth {| c1_major := mj; c1_minor := mn; c1_flags := fl; c1_build := bn;
                                               c1_image_length := il; c1_certs := certs; c1_rkh := hs |} = rot_spec_v1 ks)
  /\ (ks <> [] -> pfr_rotkh 1 256 ks = Ok (rot_spec_v1 ks))
  /\ (Forall rsa_e3 ks -> dc_rsa_hash ks = Ok (rot_spec_v1 ks)).
Proof. exact paths_agree_v1_lemma. Qed.
Print Assumptions paths_agree_v1.
