From Coq Require Import ZArith NArith List Bool Lia.
Require Import Value Bytes Sha2 GenRot RotModel RotProofs RotBlockProofs.
Import ListNotations.
Local Open Scope N_scope.

(* C03: the AHAB v2 SRK table accepts RSA keys (repaired C03-F5): four RSA-2048 keys give a 64-byte SHA-512 value over a
   table of four 76-byte records. *)
Theorem ahab_v2_rsa_accepted :
  exists h t, rot_ahab ahab2 (map (fun k => (k, SPlain)) (repeat (KRsa (2 ^ 2047 + 1) 65537) 4)) = Ok h /\
              rot_ahab_export ahab2 (map (fun k => (k, SPlain)) (repeat (KRsa (2 ^ 2047 + 1) 65537) 4)) = Ok t /\
              length h = 64%nat /\ length t = (4 + 4 * (12 + 64))%nat.
Proof. exact ahab2_rsa_accepted_lemma. Qed.
Print Assumptions ahab_v2_rsa_accepted.
