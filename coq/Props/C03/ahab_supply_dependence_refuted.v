From Coq Require Import ZArith NArith List Bool Lia.
Require Import Value Bytes Sha2 GenRot RotModel RotProofs.
Import ListNotations.
Local Open Scope N_scope.

(* C03 (known finding C03-F1): for the AHAB SRK table the hash is NOT a function of the keys alone: the same four keys
   give different hashes when they arrive as CA certificates (v1 and v2 tables). *)
Theorem ahab_supply_dependence_refuted :
  (exists ks h1 h2, length ks = 4%nat /\
     rot_ahab ahab1 (map (fun k => (k, SPlain)) ks) = Ok h1 /\ rot_ahab ahab1 (map (fun k => (k, SCaBytes)) ks) = Ok h2 /\ h1 <> h2)
  /\ (exists ks h1 h2,
     rot_ahab ahab2 (map (fun k => (k, SPlain)) ks) = Ok h1 /\ rot_ahab ahab2 (map (fun k => (k, SCaBytes)) ks) = Ok h2 /\ h1 <> h2).
Proof. exact (conj ahab_supply_dependence_lemma ahab2_supply_dependence_lemma). Qed.
Print Assumptions ahab_supply_dependence_refuted.
