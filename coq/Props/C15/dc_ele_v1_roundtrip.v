From Coq Require Import ZArith NArith List Bool Lia.
Require Import Value Bytes Sha2 GenRot RotModel GenDat DatModel DatProofs DatEleProofs.
Import ListNotations.
Local Open Scope N_scope.

(* C15: every well-formed EdgeLock container-version-1 credential (RoT meta = flags word + AHAB SRK table of four records of
   one type that passes the table verification, RoT key = the record at the used index, DCK blob of the RoT key blobs length,
   signature of the RoT keys signature size) exports, and the exported bytes -- also with bytes behind them -- parse back to
   exactly the same field values, SRK table and records included.  wf_dc_ele_nontrivial (Proofs/DatEleProofs.v) shows the
   credential create_from_yaml_config builds for four P-256 keys is such a credential. *)
Theorem dc_ele_v1_roundtrip :
  forall d, wf_dc_ele d ->
  exists b t, dc_tbs CEle d = Ok t /\ dc_export CEle d = Ok b /\ b = t ++ d_sig d /\ forall extra, ele_parse (b ++ extra) = Ok d.
Proof. exact dc_ele_v1_roundtrip_lemma. Qed.
Print Assumptions dc_ele_v1_roundtrip.
