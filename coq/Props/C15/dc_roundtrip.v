From Coq Require Import ZArith NArith List Bool Lia.
Require Import Value Bytes Sha2 GenRot RotModel GenDat DatModel DatProofs.
Import ListNotations.
Local Open Scope N_scope.

(* C15: every well-formed RSA (1.0/1.1) or ECC (2.0/2.1/2.2) credential exports, and the exported bytes -- also with
   arbitrary bytes behind them, as inside a response -- parse back to exactly the same field values.
   (EdgeLock-enclave credentials: by correspondence only; see level_note.) *)
Theorem dc_roundtrip :
  forall c d, wf_dc c d ->
  exists b, dc_export c d = Ok b /\ forall extra, dc_parse_class c (b ++ extra) = Ok d.
Proof. exact dc_roundtrip_lemma. Qed.
Print Assumptions dc_roundtrip.
