From Coq Require Import ZArith NArith List Bool Lia.
Require Import Value Bytes Sha2 GenRot RotModel GenDat DatModel GenDatV2 DatV2Model DatProofs DatV2Proofs.
Import ListNotations.
Local Open Scope N_scope.

(* C15: EdgeLock container-version-2 credentials (AHAB certificate: header, signature offset, permissions, permission data =
   SoC class | SoC usage | beacon, fuse version, uuid, SRK record v2 + SRK data of the DCK, signature container).  For every
   well-formed certificate: the export is the signed message followed by the signature container and nothing else, the
   signed message ends exactly at the signature offset the certificate declares (so every field and the DCK lie inside the
   signed range), and the exported bytes -- also with bytes behind them -- parse back to the same certificate. *)
Theorem dcv2_roundtrip :
  forall c, wf_cert c ->
  exists b t s, cert_tbs c = Ok t /\ sigc_export (c_siglen c) (c_sig c) = Ok s /\ cert_export c = Ok b /\ b = t ++ s
                /\ nlen t = c_sigoff c /\ firstn (length t) b = t /\ forall extra, cert_parse (b ++ extra) = Ok c.
Proof. exact cert_roundtrip_lemma. Qed.
Print Assumptions dcv2_roundtrip.
