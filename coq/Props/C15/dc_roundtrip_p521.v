From Coq Require Import ZArith NArith List Bool Lia.
Require Import Value Bytes Sha2 GenRot RotModel GenDat DatModel DatProofs DatCreateProofs.
Import ListNotations.
Local Open Scope N_scope.

(* C15 (formerly refuted, C15-F1): protocol 2.2 credentials created for 2..4 P-521 RoT keys export and parse back. *)
Theorem dc_roundtrip_p521 :
  forall cnt socc ks rot_id dck uuid socu vu beacon fca sig,
  (2 <= length ks <= 4)%nat -> (N.to_nat rot_id < length ks)%nat -> Forall (ecc_key_wf 521) ks -> ecc_key_wf 521 dck ->
  length uuid = 16%nat -> u32_ok socc -> u32_ok socu -> u32_ok vu -> u32_ok beacon -> length sig = 132%nat ->
  exists d b, dc_create 0 cnt socc ks rot_id dck uuid socu vu beacon fca = Ok (CEcc, d)
              /\ dc_export CEcc (dc_with_sig d sig) = Ok b /\ forall extra, dc_parse_class CEcc (b ++ extra) = Ok (dc_with_sig d sig).
Proof. exact dc_roundtrip_p521_lemma. Qed.
Print Assumptions dc_roundtrip_p521.
