From Coq Require Import ZArith NArith List Bool Lia.
Require Import Value Bytes Sha2 GenRot RotModel GenDat DatModel DatProofs.
Import ListNotations.
Local Open Scope N_scope.

(* C15: the message a response signature covers determines credential bytes, beacon, (ECC protocols) uuid and challenge:
   two (credential, beacon, uuid, challenge) tuples with the same signed message are equal. *)
Theorem dar_binds :
  forall u dcb beacon uuid ch dcb2 beacon2 uuid2 ch2 m,
  length uuid = 16%nat -> length uuid2 = 16%nat -> length ch = 32%nat -> length ch2 = 32%nat ->
  dar_tbs u dcb beacon uuid ch = Ok m -> dar_tbs u dcb2 beacon2 uuid2 ch2 = Ok m ->
  dcb = dcb2 /\ beacon = beacon2 /\ (u = true -> uuid = uuid2) /\ ch = ch2.
Proof. exact dar_binds_lemma. Qed.
Print Assumptions dar_binds.
