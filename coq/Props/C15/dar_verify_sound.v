From Coq Require Import ZArith NArith List Bool Lia.
Require Import Value Bytes Sha2 GenRot RotModel GenDat DatModel DatProofs.
Import ListNotations.
Local Open Scope N_scope.

(* C15: a response built for (credential d, beacon, uuid, challenge ch) and signature sig2, checked by a device that issued
   challenge ch2 and has uuid u2: either the device rejects it (ECC protocols, foreign uuid) or it asks for the credential
   signature and for the DCK signature over a message that equals the signed one iff ch2 = ch (and u2 = uuid). *)
Theorem dar_verify_sound :
  forall c d u beacon uuid ch sig2,
  wf_dc c d -> length uuid = 16%nat -> length ch = 32%nat -> u32_ok beacon -> sig2 <> [] ->
  exists b t r m,
    dc_export c d = Ok b /\ dc_tbs c d = Ok t /\ dar_export u b beacon uuid sig2 = Ok r /\ dar_tbs u b beacon uuid ch = Ok m
    /\ forall u2 ch2, length u2 = 16%nat -> length ch2 = 32%nat ->
       (u = true /\ u2 <> uuid /\ dar_verify c u r u2 ch2 = Err 1)
       \/ exists m2, dar_tbs u b beacon u2 ch2 = Ok m2
                     /\ dar_verify c u r u2 ch2 = Ok (d, beacon, [SigVerify (d_rot d) t (d_sig d); SigVerify (d_dck d) m2 sig2])
                     /\ (m2 = m <-> ch2 = ch /\ (u = true -> u2 = uuid)).
Proof. exact dar_verify_sound_lemma. Qed.
Print Assumptions dar_verify_sound.
