From Coq Require Import ZArith NArith List Bool Lia.
Require Import Value Bytes Sha2 GenRot RotModel GenDat DatModel DatProofs.
Import ListNotations.
Local Open Scope N_scope.

(* C15 finding C15-F1: a protocol-2.2 credential created for two P-521 RoT keys is exported but does not parse back. *)
Theorem dc_roundtrip_p521_refuted :
  exists ks dck sig d b,
    dc_create 0 1 4 ks 0 dck (zeros 16) 1 2 3 false = Ok (CEcc, d)
    /\ dc_export CEcc (dc_with_sig d sig) = Ok b /\ dc_parse_class CEcc b = Err 2.
Proof. exact dc_roundtrip_p521_refuted_lemma. Qed.
Print Assumptions dc_roundtrip_p521_refuted.
