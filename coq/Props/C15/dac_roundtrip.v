From Coq Require Import ZArith NArith List Bool Lia.
Require Import Value Bytes Sha2 GenRot RotModel GenDat DatModel DatProofs DatCreateProofs.
Import ListNotations.
Local Open Scope N_scope.

(* C15: a well-formed challenge (valid version, known SOCC whose family does not swap the version words, RoT hash of the
   width the family/version prescribes, 32-byte challenge vector) serialises and parses back to the same fields, also with
   trailing bytes. *)
Theorem dac_roundtrip :
  forall a, wf_dac a -> exists b, dac_export a = Ok b /\ forall extra, dac_parse (b ++ extra) = Ok a.
Proof. exact dac_roundtrip_lemma. Qed.
Print Assumptions dac_roundtrip.
