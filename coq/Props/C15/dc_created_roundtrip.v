From Coq Require Import ZArith NArith List Bool Lia.
Require Import Value Bytes Sha2 GenRot RotModel GenDat DatModel DatProofs DatCreateProofs.
Import ListNotations.
Local Open Scope N_scope.

(* C15: every credential create_from_yaml_config makes for a non-EdgeLock family from
   - RSA-2048/4096 RoT keys (1..4, exponents of at most 3 bytes, any used index) and a DCK of the same size, or
   - P-256 / P-384 / P-521 RoT keys (1..4 points of one curve, any used index) and a DCK of that curve,
   with a 16-byte uuid and 32-bit socc/cc_socu/cc_vu/beacon, signed with a signature of the keys size, exports and parses
   back to the same field values.  No class is excluded.  The RSA branch keeps one premise that is genuinely needed: no
   key record hashes to the all-zero SHA-256 digest (RotMetaRSA.parse treats an all-zero slot as "no key" and drops it). *)
Theorem dc_created_roundtrip :
  forall cnt socc ks rot_id dck uuid socu vu beacon fca sig,
  length uuid = 16%nat -> u32_ok socc -> u32_ok socu -> u32_ok vu -> u32_ok beacon -> (length ks <= 4)%nat ->
  ( (exists kb mi, (kb = 256%nat /\ mi = 0 \/ kb = 512%nat /\ mi = 1)
        /\ (exists rot, nth_error ks (N.to_nat rot_id) = Some rot /\ rsa_rot_wf kb rot) /\ Forall rsa_e3 ks
        /\ (forall items, map_res dc_rsa_item ks = Ok items -> Forall (fun it => all_zero it = false) items)
        /\ rsa_rot_wf kb dck /\ length sig = kb)
    \/ (exists c mi, (c = 256 /\ mi = 0 \/ c = 384 /\ mi = 1 \/ c = 521 /\ mi = 2) /\ ks <> []
        /\ (N.to_nat rot_id < length ks)%nat /\ Forall (ecc_key_wf c) ks /\ ecc_key_wf c dck
        /\ length sig = (2 * coord_size c)%nat) ) ->
  exists c d b, dc_create 0 cnt socc ks rot_id dck uuid socu vu beacon fca = Ok (c, d)
                /\ dc_export c (dc_with_sig d sig) = Ok b /\ forall extra, dc_parse_class c (b ++ extra) = Ok (dc_with_sig d sig).
Proof. exact dc_created_roundtrip_lemma. Qed.
Print Assumptions dc_created_roundtrip.
