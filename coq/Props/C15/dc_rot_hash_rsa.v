From Coq Require Import ZArith NArith List Bool Lia.
Require Import Value Bytes Sha2 GenRot RotModel GenDat DatModel DatProofs.
Import ListNotations.
Local Open Scope N_scope.

(* C15: the RoT hash a created RSA credential reports is C03s debug-credential construction over the same key list
   (RotModel.dc_rsa_hash, proved equal to the image-tool value rot_spec_v1 in C03), and it is the SHA-256 of the 128-byte
   RoT meta field carried inside the credential. *)
Theorem dc_rot_hash_rsa :
  forall ele cnt socc ks rot_id dck uuid socu vu beacon fca d sig,
  dc_create ele cnt socc ks rot_id dck uuid socu vu beacon fca = Ok (CRsa, d) ->
  dc_calc_hash CRsa (dc_with_sig d sig) = dc_rsa_hash ks
  /\ exists items, d_meta d = RMRsa items /\ map_res dc_rsa_item ks = Ok items
                   /\ dc_calc_hash CRsa (dc_with_sig d sig) = Ok (sha256 (concat items ++ zeros (128 - length (concat items)))).
Proof. exact dc_rot_hash_rsa_lemma. Qed.
Print Assumptions dc_rot_hash_rsa.
