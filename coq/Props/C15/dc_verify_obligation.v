From Coq Require Import ZArith NArith List Bool Lia.
Require Import Value Bytes Sha2 GenRot RotModel GenDat DatModel DatProofs.
Import ListNotations.
Local Open Scope N_scope.

(* C15: the verifier model accepts what export produces and emits exactly one signature obligation: the RoT public key
   carried by the credential, over all bytes in front of the signature (= the signed message), with the stored signature. *)
Theorem dc_verify_obligation :
  forall c d, wf_dc c d ->
  exists b t, dc_export c d = Ok b /\ dc_tbs c d = Ok t /\ b = t ++ d_sig d
              /\ forall extra, dc_verify c (b ++ extra) = Ok (d, SigVerify (d_rot d) t (d_sig d)).
Proof. exact dc_verify_lemma. Qed.
Print Assumptions dc_verify_obligation.
