From Coq Require Import ZArith NArith List Bool Lia.
Require Import Value Bytes Sha2 GenRot RotModel GenDat DatModel DatProofs.
Import ListNotations.
Local Open Scope N_scope.

(* C15 finding C15-F2: there is a family/revision and protocol version for which parse selects a different class. *)
Theorem parse_dispatch_refuted :
  exists fam v, In fam g_family_table /\ In v g_versions /\ dispatch_agrees fam v = false.
Proof. exact parse_dispatch_refuted_lemma. Qed.
Print Assumptions parse_dispatch_refuted.
