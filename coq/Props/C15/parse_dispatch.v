From Coq Require Import ZArith NArith List Bool Lia.
Require Import Value Bytes Sha2 GenRot RotModel GenDat DatModel DatProofs DatCreateProofs.
Import ListNotations.
Local Open Scope N_scope.

(* C15 (formerly refuted, C15-F2): for every family/revision of the database and every protocol version,
   DebugCredentialCertificate.parse (which sees only the SOCC) selects the class the credential was created with; no class
   is excluded.  (A container-v2 credential is taken by the first step of parse; parse_dispatch_fallback_used in
   Proofs/DatProofs.v shows the container-v1 fallback is exercised by the database.) *)
Theorem parse_dispatch :
  forall fam v, In fam g_family_table -> In v g_versions -> dispatch_agrees fam v = true.
Proof. exact parse_dispatch_lemma. Qed.
Print Assumptions parse_dispatch.
