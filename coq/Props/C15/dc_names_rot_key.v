From Coq Require Import ZArith NArith List Bool Lia.
Require Import Value Bytes Sha2 GenRot RotModel GenDat DatModel DatProofs DatCreateProofs.
Import ListNotations.
Local Open Scope N_scope.

(* C15: a created credential has a 16-byte uuid and a DCK of the RoT key's type and size; the RoT key of a created credential is the configured key at the used index, and the RoT meta names it: RSA -- the
   keys SHA-256 record is the entry at that index; ECC / EdgeLock -- the flags word carries the used index and the key count. *)
Theorem dc_names_rot_key :
  forall ele cnt socc ks rot_id dck uuid socu vu beacon fca c d,
  dc_create ele cnt socc ks rot_id dck uuid socu vu beacon fca = Ok (c, d) ->
  nth_error ks (N.to_nat rot_id) = Some (d_rot d) /\ d_dck d = dck /\ d_uuid d = uuid /\ d_socc d = socc /\
  length uuid = 16%nat /\ is_ecc_key dck = is_ecc_key (d_rot d) /\ key_bits dck = key_bits (d_rot d) /\
  match c with
  | CRsa => exists items it, d_meta d = RMRsa items /\ map_res dc_rsa_item ks = Ok items
                             /\ nth_error items (N.to_nat rot_id) = Some it /\ dc_rsa_item (d_rot d) = Ok it
  | CEcc => exists hs items, d_meta d = RMEcc hs rot_id (nlen ks) items /\ dc_ecc_items ks = Ok items
                             /\ flags_validate rot_id (nlen ks) = true
  | CEle => exists t, d_meta d = RMEle rot_id (nlen ks) t /\ flags_validate rot_id (nlen ks) = true /\ nlen ks = 4
  end.
Proof. exact dc_names_rot_key_lemma. Qed.
Print Assumptions dc_names_rot_key.
