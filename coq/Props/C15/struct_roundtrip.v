From Coq Require Import ZArith NArith List Bool Lia.
Require Import Value Bytes Sha2 GenRot RotModel GenDat DatModel DatProofs.
Import ListNotations.
Local Open Scope N_scope.

(* C15: the struct codec every credential/challenge/response layout is built from: unpack_from(fmt, pre ++ pack(fmt, vs) ++ rest, |pre|) = vs
   for all formats and all well-typed values (u16/u32 in range, byte fields of the declared width). *)
Theorem struct_roundtrip :
  forall f vs, Forall2 fval_ok f vs ->
  exists b, pack f vs = Ok b /\ length b = calcsize f /\
            forall pre rest, unpack_from f (pre ++ b ++ rest) (length pre) = Ok vs.
Proof. exact struct_roundtrip_full. Qed.
Print Assumptions struct_roundtrip.
