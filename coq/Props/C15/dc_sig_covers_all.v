From Coq Require Import ZArith NArith List Bool Lia.
Require Import Value Bytes Sha2 GenRot RotModel GenDat DatModel DatProofs.
Import ListNotations.
Local Open Scope N_scope.

(* C15: for every credential of every class that exports: the exported bytes are the signed message followed by the
   signature field and nothing else; the signed message is the concatenation of the packed fields in class order, and
   version, SoC class, uuid, RoT meta, DCK, both constraints and the beacon are all among them (plus the RoT key itself
   in the RSA and ECC classes). *)
Theorem dc_sig_covers_all :
  forall c d b, dc_export c d = Ok b ->
  (exists t w f vs pieces,
    dc_tbs c d = Ok t /\ dc_sig_width c d = Ok w /\ b = t ++ pack_s w (d_sig d) /\ firstn (length t) b = t
    /\ dc_format c d = Ok f /\ map_res (field_val c d) (dc_order c) = Ok vs
    /\ t = concat pieces /\ Forall2 (fun p iv => pack1 (fst iv) (snd iv) = Ok p) pieces (combine f vs))
  /\ (forall fid, In fid [1; 2; 3; 4; 5; 6; 7; 8; 9] -> In fid (dc_order c))
  /\ (c <> CEle -> In 10 (dc_order c)).
Proof. intros c d b H. split; [exact (dc_sig_covers_all_lemma c d b H)|split; [exact (dc_order_complete c)|exact (dc_order_rot_pub c)]]. Qed.
Print Assumptions dc_sig_covers_all.
