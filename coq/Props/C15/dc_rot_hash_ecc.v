From Coq Require Import ZArith NArith List Bool Lia.
Require Import Value Bytes Sha2 GenRot RotModel GenDat DatModel DatProofs DatCreateProofs DatHashProofs.
Import ListNotations.
Local Open Scope N_scope.

(* C15: the RoT hash calculate_hash reports for a created ECC credential is C03s debug-credential construction over the same
   key list (RotModel.dc_ecc_hash) for EVERY key list, and for P-256 / P-384 key sets (1..4 points of the curve) it is the
   documented RoT hash of the image tools (rot_spec_v21: the keys own hash for one key, the hash of the table of key hashes
   for several). *)
Theorem dc_rot_hash_ecc :
  forall ele cnt socc ks rot_id dck uuid socu vu beacon fca d sig c,
  dc_create ele cnt socc ks rot_id dck uuid socu vu beacon fca = Ok (CEcc, d) ->
  dc_calc_hash CEcc (dc_with_sig d sig) = dc_ecc_hash ks rot_id
  /\ ((c = 256 \/ c = 384) -> Forall (ecc_key_wf c) ks -> dc_calc_hash CEcc (dc_with_sig d sig) = Ok (rot_spec_v21 ks)).
Proof. exact dc_rot_hash_ecc_lemma. Qed.
Print Assumptions dc_rot_hash_ecc.
