From Coq Require Import ZArith NArith List Bool Lia.
Require Import Value Bytes Sha2 GenRot RotModel GenDat DatModel DatProofs.
Import ListNotations.
Local Open Scope N_scope.

(* C15: for every family/revision of the database and every protocol version, DebugCredentialCertificate.parse (which
   looks at the SOCC only) selects the class the credential was created with -- except in the recorded class C15-F2. *)
Theorem parse_dispatch_except_known :
  forall fam v, In fam g_family_table -> In v g_versions -> dispatch_known fam v = false -> dispatch_agrees fam v = true.
Proof. exact parse_dispatch_except_known_lemma. Qed.
Print Assumptions parse_dispatch_except_known.
