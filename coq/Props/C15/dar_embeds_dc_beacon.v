From Coq Require Import ZArith NArith List Bool Lia.
Require Import Value Bytes Sha2 GenRot RotModel GenDat DatModel DatProofs.
Import ListNotations.
Local Open Scope N_scope.

(* C15: an exported response is credential | beacon (u32 LE) | [uuid, ECC protocols] | signature: the credential is its
   prefix, the beacon and uuid sit at fixed offsets behind it, the rest is the signature. *)
Theorem dar_embeds_dc_beacon :
  forall u dcb beacon uuid sig r, length uuid = 16%nat -> dar_export u dcb beacon uuid sig = Ok r ->
  exists bb, u32 beacon = Ok bb /\ r = dcb ++ bb ++ (if u then uuid else []) ++ sig
             /\ firstn (length dcb) r = dcb /\ le_dec (firstn 4 (skipn (length dcb) r)) = beacon
             /\ (u = true -> firstn 16 (skipn (length dcb + 4) r) = uuid)
             /\ skipn (length dcb + 4 + (if u then 16 else 0)) r = sig.
Proof. exact dar_embeds_lemma. Qed.
Print Assumptions dar_embeds_dc_beacon.
