(* C05, recorded finding C05-F1: without the "whole 32-bit words" condition of wf_cmd the round trip is false for programFuses. *)
From Coq Require Import ZArith NArith List Bool.
Require Import Value Bytes Sha2 Aes Modes Cmac CryptoProofs Sb31Model Sb31Proofs.
Import ListNotations.
Local Open Scope N_scope.

Theorem cmd_roundtrip_fuses_refuted :
  exists c, cmd_in_range c = true /\ wf_bytes (cmd_data c) /\ parse_command (export_cmd c) <> Ok c.
Proof. exact cmd_roundtrip_fuses_refuted_lemma. Qed.
Print Assumptions cmd_roundtrip_fuses_refuted.
