(* C05: export() of a well-formed container, from any reachable object state, produces file_of x sig, and the loader accepts it
   and decodes exactly the supplied header fields and commands; the message to verify is header || H(block 1) || cert block. *)
From Coq Require Import ZArith NArith List Bool.
Require Import Value Bytes Sha2 Aes Modes Cmac CryptoProofs Sb31Model Sb31Proofs.
Import ListNotations.
Local Open Scope N_scope.

Theorem rom31_build_first : forall (b384 : bool) (x : sb_input) (sig : list N) (s : sb_state),
  wf_input_c b384 x -> 60 <= s_total_len s -> length sig = (2 * hl_of b384)%nat ->
  build31_c b384 s x sig = Ok (state_of_c b384 x, file_of_c b384 x sig) /\
  rom31 (i_encrypted x) (i_pck x) (i_rights x) (file_of_c b384 x sig) = Some (decoded_c b384 x sig).
Proof. exact rom31_build_first_lemma. Qed.
Print Assumptions rom31_build_first.
