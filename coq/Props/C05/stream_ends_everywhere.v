(* C05: whatever the length of the command stream, the 256-byte chunks are the stream followed by fewer than 256 zero bytes;
   the stream is 16-byte aligned and every multiple of 16 (hence every such residue modulo 256) occurs. *)
From Coq Require Import ZArith NArith List Bool.
Require Import Value Bytes Sha2 Aes Modes Cmac CryptoProofs Sb31Model Sb31Proofs.
Import ListNotations.
Local Open Scope N_scope.

Theorem stream_ends_everywhere :
  (forall cs, let s := sb_stream cs in
     concat (data_chunks s) = s ++ zeros (padlen 256 (length s)) /\ (padlen 256 (length s) < 256)%nat /\
     Forall (fun c => length c = 256%nat) (data_chunks s) /\ Nat.modulo (length s) 16 = 0%nat) /\
  (forall m : nat, exists cs, Forall wf_cmd cs /\ length (sb_stream cs) = (16 * (m + 1))%nat).
Proof. exact stream_ends_everywhere_lemma. Qed.
Print Assumptions stream_ends_everywhere.
