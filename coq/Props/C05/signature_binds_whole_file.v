(* C05: one signature authenticates the whole file.  Two files accepted by the loader whose signed parts (header || H(block1) ||
   certificate block) coincide are equal everywhere outside the signature field -- or two different blocks with the same hash
   are exhibited (reduction to a collision; no injectivity assumption on the hash). *)
From Coq Require Import ZArith NArith List Bool.
Require Import Value Bytes Sha2 Aes Modes Cmac CryptoProofs Sb31Model Sb31Proofs.
Import ListNotations.
Local Open Scope N_scope.

Theorem signature_binds_whole_file : forall (b384 enc : bool) (pck : list N) (rights : N) (f1 f2 : list N) (o1 o2 : rom_out),
  rom31_c b384 enc pck rights f1 = Some o1 -> rom31_c b384 enc pck rights f2 = Some o2 -> o_signed o1 = o_signed o2 ->
  f2 = o_signed o1 ++ o_sig o2 ++ skipn (N.to_nat (o_total_len o1)) f1 \/ collision_c b384.
Proof. exact signature_binds_whole_file_lemma. Qed.
Print Assumptions signature_binds_whole_file.
