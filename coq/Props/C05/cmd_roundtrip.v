(* C05: every in-range command of the 14 SB3.1 types reads back as supplied: through SPSDK's parse_command and through the
   loader's decoder (which also returns the rest of the stream untouched). *)
From Coq Require Import ZArith NArith List Bool.
Require Import Value Bytes Sha2 Aes Modes Cmac CryptoProofs Sb31Model Sb31Proofs.
Import ListNotations.
Local Open Scope N_scope.

Theorem cmd_roundtrip : forall c : cmd, wf_cmd c ->
  parse_command (export_cmd c) = Ok c /\ (forall rest, rom_cmd (export_cmd c ++ rest) = Some (c, rest)).
Proof. intros c W. split; [exact (cmd_roundtrip_lemma c W) | intros rest; exact (rom_cmd_export c rest W)]. Qed.
Print Assumptions cmd_roundtrip.
