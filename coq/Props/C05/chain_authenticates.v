(* C05: layout of every built file and its hash chain: the header is followed by H(block 1); every data block embeds the hash
   of the next one, the last one zeros; all blocks have the block size announced in the header. *)
From Coq Require Import ZArith NArith List Bool.
Require Import Value Bytes Sha2 Aes Modes Cmac CryptoProofs Sb31Model Sb31Proofs.
Import ListNotations.
Local Open Scope N_scope.

Theorem chain_authenticates : forall (b384 : bool) (x : sb_input) (sig : list N), wf_input_c b384 x ->
  file_of_c b384 x sig =
    sb_header (hl_of b384) x (nlen (the_chunks x)) (total_len (hl_of b384) x) ++ fst (the_chain_c b384 x) ++ i_cert x ++ sig
    ++ concat (snd (the_chain_c b384 x)) /\
  chained_c b384 (fst (the_chain_c b384 x)) (snd (the_chain_c b384 x)) /\
  length (snd (the_chain_c b384 x)) = length (the_chunks x) /\
  Forall (fun b => length b = (260 + hl_of b384)%nat) (snd (the_chain_c b384 x)).
Proof. exact chain_authenticates_lemma. Qed.
Print Assumptions chain_authenticates.
