(* C05: the key derivation of functions.py is the documented CMAC counter-mode KDF (fixed input = label || context || [L] || [i],
   context = 8 zero bytes, rights<<6, mode, 0, key option) and yields a well-formed key of the requested length. *)
From Coq Require Import ZArith NArith List Bool.
Require Import Value Bytes Sha2 Aes Modes Cmac CryptoProofs Sb31Model Sb31Proofs.
Import ListNotations.
Local Open Scope N_scope.

Theorem kdf_spec : forall (k256 : bool) (key : list N) (const rights : N) (mode_kdk : bool), rights < 4 ->
  sb_derive k256 aes_cmac key const rights mode_kdk =
    kdf_counter_mode aes_cmac key (le_enc 12 const) (kdf_context k256 rights mode_kdk) (key_bits k256) /\
  (key_ok key -> N.of_nat (8 * length (sb_derive k256 aes_cmac key const rights mode_kdk)) = key_bits k256 /\
                 wf_bytes (sb_derive k256 aes_cmac key const rights mode_kdk)).
Proof. exact kdf_spec_concrete. Qed.
Print Assumptions kdf_spec.
