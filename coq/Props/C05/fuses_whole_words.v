(* C05 (finding C05-F1 repaired in /repo): the only constructor precondition among the 14 commands is that programFuses data
   is a whole number of 32-bit words; every command that can be constructed and exported reads back as supplied, and
   parse_command never returns a command that could not have been constructed. *)
From Coq Require Import ZArith NArith List Bool.
Require Import Value Bytes Sha2 Aes Modes Cmac CryptoProofs Sb31Model Sb31Proofs.
Import ListNotations.
Local Open Scope N_scope.

Theorem fuses_whole_words :
  (forall a d, cmd_constructible (CProgFuses a d) = true <-> nlen d mod 4 = 0) /\
  (forall c, (forall a d, c <> CProgFuses a d) -> cmd_constructible c = true) /\
  (forall c, cmd_constructible c = true -> cmd_in_range c = true -> wf_bytes (cmd_data c) ->
             parse_command (export_cmd c) = Ok c) /\
  (forall d c, parse_command d = Ok c -> cmd_constructible c = true).
Proof. exact fuses_whole_words_lemma. Qed.
Print Assumptions fuses_whole_words.
