(* C05: any number of export() calls on one object (one signature drawn per call): the k-th file is file_of x sig_k -- the
   first file with only the signature field replaced -- and every one of them is accepted and decodes to the input. *)
From Coq Require Import ZArith NArith List Bool.
Require Import Value Bytes Sha2 Aes Modes Cmac CryptoProofs Sb31Model Sb31Proofs.
Import ListNotations.
Local Open Scope N_scope.

Theorem rom31_build_history : forall (b384 : bool) (x : sb_input) (sigs : list (list N)) (s : sb_state),
  wf_input_c b384 x -> 60 <= s_total_len s -> Forall (fun sg => length sg = (2 * hl_of b384)%nat) sigs ->
  exists s', exports_c b384 s x sigs = Ok (s', map (file_of_c b384 x) sigs) /\
             Forall (fun sg => rom31 (i_encrypted x) (i_pck x) (i_rights x) (file_of_c b384 x sg)
                               = Some (decoded_c b384 x sg)) sigs.
Proof. exact rom31_build_history_lemma. Qed.
Print Assumptions rom31_build_history.
