(* C05: no byte of an accepted file lies outside signed part + signature + chained blocks: the file is exactly their
   concatenation, block 0 has the length written in the header and the rest is block_count blocks. *)
From Coq Require Import ZArith NArith List Bool.
Require Import Value Bytes Sha2 Aes Modes Cmac CryptoProofs Sb31Model Sb31Proofs.
Import ListNotations.
Local Open Scope N_scope.

Theorem coverage31 : forall (b384 enc : bool) (pck : list N) (rights : N) (f : list N) (o : rom_out),
  rom31_c b384 enc pck rights f = Some o ->
  exists blocks, f = o_signed o ++ o_sig o ++ blocks /\
                 length (o_sig o) = (2 * hl_of b384)%nat /\
                 N.of_nat (length (o_signed o ++ o_sig o)) = o_total_len o /\
                 nlen blocks = o_block_count o * block_size (hl_of b384).
Proof. exact coverage31_lemma. Qed.
Print Assumptions coverage31.
