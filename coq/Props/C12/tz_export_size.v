From Coq Require Import ZArith NArith List Bool Lia.
Require Import Value Bytes GenMisc MiscModel GenRegs RegsModel RegsProofs GenAreaFns GenAreas AreaModel AreaProofs.
Import ListNotations.
Local Open Scope Z_scope.

(* C12: the TrustZone preset data has four bytes per preset of the database table, for every customisation. *)
Theorem tz_export_size :
  forall P cu b, tz_export P cu = Ok b -> zlen b = 4 * zlen P.
Proof. exact tz_export_size_lemma. Qed.
Print Assumptions tz_export_size.
