From Coq Require Import ZArith NArith List Bool Lia.
Require Import Value Bytes GenMisc MiscModel GenRegs RegsModel RegsProofs GenAreaFns GenAreas AreaModel AreaProofs.
Import ListNotations.
Local Open Scope Z_scope.

(* C12: the computed-field methods as they are in spsdk/pfr/pfr.py today (translated on every run): on every 32-bit value
   they return a 32-bit value that satisfies the documented relation. *)
Theorem computed_methods_meet_relation :
  forall m v, in_range 32 v -> (m = 0 \/ m = 1) ->
  exists v', py_compute m v = Ok v' /\ in_range 32 v' /\ computed_rel m v'.
Proof. exact py_compute_spec. Qed.
Print Assumptions computed_methods_meet_relation.
