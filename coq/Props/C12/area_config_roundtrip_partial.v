From Coq Require Import ZArith NArith List Bool Lia.
Require Import Value Bytes GenMisc MiscModel GenRegs RegsModel RegsProofs GenAreaFns GenAreas AreaModel AreaProofs.
Import ListNotations.
Local Open Scope Z_scope.

(* C12 (partial: the numeric content of the configuration; the textual layer -- enum names, hex strings, the python
   dictionary with its duplicate keys, YAML -- is modelled, executed against the implementation and checked by oracles,
   not proved): for every well-formed area whose bit-fields tile their registers and every state g of it, loading
     { register without bit-fields: its value;  register with bit-fields: every bit-field -> bitfield.get_value() }
   (values_of g / numeric_config) into a fresh object of the area succeeds and gives every top-level register, hence every
   bit-field, the value it has in g.  wf_area and tiled_regs_b are decided for the database by the sweep (71 of 85 layouts
   today; the check reports the measured number). *)
Theorem area_config_roundtrip_partial :
  forall A g, wf_area A -> tiled_regs_b (a_regs A) = true -> state_of A g ->
  exists g', load_cfg (a_regs A) (numeric_config (a_regs A) (values_of g)) = (g', Ok tt) /\ state_of A g' /\
    forall i, (i < length (g_regs g))%nat -> t_get g' (Top i) false = t_get g (Top i) false.
Proof. exact area_config_roundtrip_lemma. Qed.
Print Assumptions area_config_roundtrip_partial.
