From Coq Require Import ZArith NArith List Bool Lia.
Require Import Value Bytes GenMisc MiscModel GenRegs RegsModel RegsProofs GenAreaFns GenAreas AreaModel AreaProofs.
Import ListNotations.
Local Open Scope Z_scope.

(* C12: Registers.parse o Registers.export on a register file exported in its automatic size (what SegmentBase.export,
   MemoryConfig.export and the XMCD header / block do), for any well-formed register file g and any receiving object g0 of
   the same layout that agrees on the hidden registers: the parser reads the export and re-exports the same bytes.
   (The tag and length checks of BCA / FCB / FCF.parse and the self-describing XMCD header are exercised by the
   correspondence run, not stated here.) *)
Theorem registers_parse_export_id :
  forall g g0, wf_regs g -> wf_regs g0 -> same_layout g g0 -> hidden_agree g g0 ->
  Forall (fun r => 0 <= s_offset (r_base r)) (g_regs g) ->
  exists bin g', export_with g 0 0%N = Ok bin /\ parse g0 bin = Ok g' /\ export_with g' 0 0%N = Ok bin.
Proof. exact registers_parse_export_lemma. Qed.
Print Assumptions registers_parse_export_id.
