From Coq Require Import ZArith NArith List Bool Lia.
Require Import Value Bytes GenMisc MiscModel GenRegs RegsModel RegsProofs GenAreaFns GenAreas AreaModel AreaProofs.
Import ListNotations.
Local Open Scope Z_scope.

(* C12: consequently the hypotheses of the area theorems hold for every area of the database outside the recorded classes. *)
Theorem all_areas_wf : forall A, In A all_areas -> known_class_b A = false -> wf_area A.
Proof. exact all_areas_wf_lemma. Qed.
Print Assumptions all_areas_wf.
