From Coq Require Import ZArith NArith List Bool Lia.
Require Import Value Bytes GenMisc MiscModel GenRegs RegsModel RegsProofs GenAreaFns GenAreas AreaModel AreaProofs.
Import ListNotations.
Local Open Scope Z_scope.

(* C12, finding C12-F1: "for all in-range values of every register" is refuted by today's database: there is an area with a
   grouped register declared wider than the sub-registers that exist, and writing the in-range value 2^(width-1) to it
   reads back another value. *)
Theorem group_value_truncated_refuted : exists A, In A all_areas /\ truncating_group_b A = true.
Proof. exact group_value_truncated_refuted_lemma. Qed.
Print Assumptions group_value_truncated_refuted.
