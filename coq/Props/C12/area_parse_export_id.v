From Coq Require Import ZArith NArith List Bool Lia.
Require Import Value Bytes GenMisc MiscModel GenRegs RegsModel RegsProofs GenAreaFns GenAreas AreaModel AreaProofs.
Import ListNotations.
Local Open Scope Z_scope.

(* C12: for a PFR / IFR area the exported binary has the documented size, the area's own parser (a fresh object of the same
   family / revision) accepts it, and exporting the parsed object gives the same binary again -- for every state g of the
   area whose hidden (reserved) registers hold what a fresh object holds (they are exported but never parsed).
   Registers may overlap (CMAC table, kw47 ROMCFG): the statement is about the bytes. *)
Theorem area_parse_export_id :
  forall A g, wf_area A -> a_sized A = true -> state_of A g -> hidden_agree g (a_regs A) ->
  exists bin g', area_export A g false = Ok bin /\ zlen bin = a_size A /\
                 area_parse A (a_regs A) bin = Ok g' /\ state_of A g' /\ area_export A g' false = Ok bin.
Proof. exact area_parse_export_lemma. Qed.
Print Assumptions area_parse_export_id.
