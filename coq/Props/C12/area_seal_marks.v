From Coq Require Import ZArith NArith List Bool Lia.
Require Import Value Bytes GenMisc MiscModel GenRegs RegsModel RegsProofs GenAreaFns GenAreas AreaModel AreaProofs.
Import ListNotations.
Local Open Scope Z_scope.

(* C12: export(add_seal=True) is export() with the seal words of the database (seal_start, seal_count) replaced by
   the marker b"SEAL": the marker is there, every other byte is unchanged, the size is unchanged. *)
Theorem area_seal_marks :
  forall A g start count, wf_area A -> a_sized A = true -> state_of A g -> a_seal A = Some (start, count) ->
  exists plain sealed, area_export A g false = Ok plain /\ area_export A g true = Ok sealed /\
    sealed = splice plain (Z.to_nat start) (seal_bytes count) /\
    slice sealed (Z.to_nat start) (Z.to_nat start + length (seal_bytes count)) = seal_bytes count /\
    firstn (Z.to_nat start) sealed = firstn (Z.to_nat start) plain /\
    skipn (Z.to_nat start + length (seal_bytes count)) sealed = skipn (Z.to_nat start + length (seal_bytes count)) plain.
Proof. exact area_seal_lemma. Qed.
Print Assumptions area_seal_marks.
