From Coq Require Import ZArith NArith List Bool Lia.
Require Import Value Bytes GenMisc MiscModel GenRegs RegsModel RegsProofs GenAreaFns GenAreas AreaModel AreaProofs.
Import ListNotations.
Local Open Scope Z_scope.

(* C12: the exported binary holds, at the register's offset and in the byte order of the register file, the raw value of
   every register that shares no byte with another register -- whatever the other registers hold. *)
Theorem area_value_in_binary :
  forall A g i r bin, wf_area A -> a_sized A = true -> state_of A g ->
  nth_error (g_regs g) i = Some r -> isolated (a_regs A) i -> area_export A g false = Ok bin ->
  slice bin (Z.to_nat (s_offset (r_base r))) (Z.to_nat (reg_end r)) =
  enc (g_big g) (Z.to_nat (s_width (r_base r) / 8)) (reg_stored r true).
Proof. exact area_value_in_binary_lemma. Qed.
Print Assumptions area_value_in_binary.
