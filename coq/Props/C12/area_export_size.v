From Coq Require Import ZArith NArith List Bool Lia.
Require Import Value Bytes GenMisc MiscModel GenRegs RegsModel RegsProofs GenAreaFns GenAreas AreaModel AreaProofs.
Import ListNotations.
Local Open Scope Z_scope.

(* C12: every export of a PFR / IFR area (CMPA, CFPA, ROMCFG, CMACTABLE), sealed or not, from any state of the area
   (any well-formed register file with the layout of the freshly built one, i.e. any in-range values of all registers,
   sub-registers and bit-fields) succeeds and has exactly the documented BINARY_SIZE.
   wf_area A is decided by wf_area_b and established for the database by all_areas_swept / all_areas_wf. *)
Theorem area_export_size :
  forall A g add_seal, wf_area A -> a_sized A = true -> state_of A g ->
  exists bin, area_export A g add_seal = Ok bin /\ zlen bin = a_size A.
Proof. exact area_export_size_lemma. Qed.
Print Assumptions area_export_size.
