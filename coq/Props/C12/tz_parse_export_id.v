From Coq Require Import ZArith NArith List Bool Lia.
Require Import Value Bytes GenMisc MiscModel GenRegs RegsModel RegsProofs GenAreaFns GenAreas AreaModel AreaProofs.
Import ListNotations.
Local Open Scope Z_scope.

(* C12: TrustZone.from_binary accepts the exported data, and the customisations it reads back export the same data. *)
Theorem tz_parse_export_id :
  forall P cu b, tz_export P cu = Ok b ->
  exists ws, tz_parse P b = Ok ws /\ tz_export P (tz_customs_of ws) = Ok b.
Proof. exact tz_parse_export_lemma. Qed.
Print Assumptions tz_parse_export_id.
