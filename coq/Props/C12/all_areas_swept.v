From Coq Require Import ZArith NArith List Bool Lia.
Require Import Value Bytes GenMisc MiscModel GenRegs RegsModel RegsProofs GenAreaFns GenAreas AreaModel AreaProofs.
Import ListNotations.
Local Open Scope Z_scope.

(* C12: the database sweep (regenerated on every run, finite and exhaustive) over every register-backed configuration area
   of every family, revision and sub-feature / memory type.
   (1) wf_area_x_b: EVERY area satisfies every clause of well-formedness -- register widths multiples of 8, values and reset
       values in range, bit-fields inside their register and pairwise disjoint, sub-registers of one width, every register
       inside the documented binary, seal words inside the binary, computed fields on isolated 32-bit registers with the
       hidden bit-field named by the database exactly the bits the method fills -- where only three clauses are relaxed, each
       only for the register / area that exhibits the recorded defect itself: a top-level register that has alternative
       widths (C11-F1/F4, C12-F3; the widths must still be valid), a grouped register that is wider than its sub-registers
       (C12-F1; never narrower), a segment register file longer than the documented SIZE (C12-F8; never shorter).
       A new defect of any other kind in such an area still fails the sweep.
   (2) an area that exhibits none of the three defects is well formed without any relaxation (wf_area_b). *)
Theorem all_areas_swept : forallb (fun A => wf_area_x_b A && (wf_area_b A || known_class_b A)) all_areas = true.
Proof. exact all_areas_swept_lemma. Qed.
Print Assumptions all_areas_swept.
