From Coq Require Import ZArith NArith List Bool Lia.
Require Import Value Bytes GenMisc MiscModel GenRegs RegsModel RegsProofs GenAreaFns GenAreas AreaModel AreaProofs.
Import ListNotations.
Local Open Scope Z_scope.

(* C12: the database sweep (regenerated on every run, finite and exhaustive): every register-backed configuration area of
   every family, revision and sub-feature / memory type is well formed -- register widths multiples of 8, values and
   reset values in range, bit-fields inside their register, grouped registers exactly as wide as their sub-registers, every
   register inside the documented binary, seal words inside the binary, computed fields on isolated 32-bit registers and
   the hidden bit-field named by the database exactly the bits the method fills, segment classes exporting exactly their
   documented SIZE -- or belongs to one of the recorded classes (alternative widths: C11-F1/F4, C12-F3; a group wider than
   its sub-registers: C12-F1; a register file longer than the documented size: C12-F8). *)
Theorem all_areas_swept : forallb (fun A => wf_area_b A || known_class_b A) all_areas = true.
Proof. exact all_areas_swept_lemma. Qed.
Print Assumptions all_areas_swept.
