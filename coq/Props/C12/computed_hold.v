From Coq Require Import ZArith NArith List Bool Lia.
Require Import Value Bytes GenMisc MiscModel GenRegs RegsModel RegsProofs GenAreaFns GenAreas AreaModel AreaProofs.
Import ListNotations.
Local Open Scope Z_scope.

(* C12: computed fields hold in every exported binary.  After load_from_config(cfg) on a fresh area object, for every
   computed field (register i, bit-field k, method m) of the database whose register the configuration gives as a mapping
   that does not name the computed bit-field (needs_compute: what BaseConfigArea.set_config tests), the register value v
   satisfies the documented relation (method 0: bits 16..31 = inverse of bits 0..15; method 1: bits 8..15 = inverse of
   bits 0..7), and the four bytes of the exported binary at the register's offset are exactly v.
   The methods are translated from spsdk/pfr/pfr.py on every run (Gen/GenAreaFns.v). *)
Theorem computed_hold :
  forall A cfg g, wf_area A -> a_sized A = true -> area_load A (a_regs A) cfg = Ok g ->
  state_of A g /\
  forall i k m e, In (i, k, m) (a_computed A) -> cfg_lookup cfg (Top i) None = Some e -> needs_compute e k = true ->
    exists v r, t_get g (Top i) true = Ok v /\ computed_rel m v /\ nth_error (g_regs g) i = Some r /\ s_width (r_base r) = 32 /\
      forall bin, area_export A g false = Ok bin ->
        slice bin (Z.to_nat (s_offset (r_base r))) (Z.to_nat (s_offset (r_base r)) + 4) = enc (g_big g) 4 v.
Proof. exact computed_hold_lemma. Qed.
Print Assumptions computed_hold.
