From Coq Require Import ZArith NArith List Bool Lia.
Require Import Value Bytes Sha2 Aes Modes CryptoProofs GenMisc GenAhab AhabModel AhabProofs.
Import ListNotations.
Local Open Scope Z_scope.

(* C06: the SRK hash SPSDK reports (for the fuses) is SHA-256 of the SRK table bytes as they stand in the exported container. *)
Theorem srk_hash_of_exported_table :
  forall v2 c rs s bl,
  rs <> [] -> blob_ok bl -> c_sb c = sigblock_update rs (Some s) bl ->
  srk_hash v2 (c_sb c)
  = sha256 (zslice (container_bytes v2 c) (sbo c + sb_srk_off (c_sb c)) (sbo c + sb_srk_off (c_sb c) + srk_table_len rs)).
Proof. exact srk_hash_of_exported_table_l. Qed.
Print Assumptions srk_hash_of_exported_table.
