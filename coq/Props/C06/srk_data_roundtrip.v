From Coq Require Import ZArith NArith List Bool Lia.
Require Import Value Bytes Sha2 Aes Modes CryptoProofs GenMisc GenAhab AhabModel AhabProofs Ahab2Model Ahab2Proofs.
Import ListNotations.
Local Open Scope Z_scope.

(* C06, version 2: an SRK data container parses back to (record number, key data), whatever follows it. *)
Theorem srk_data_roundtrip :
  forall id d rest, fits 2 id = true -> fits 2 (8 + zlen' d) = true ->
  srk_data_parse (srk_data_bytes id d ++ rest) = Ok (id, d).
Proof. exact srk_data_roundtrip_l. Qed.
Print Assumptions srk_data_roundtrip.
