From Coq Require Import ZArith NArith List Bool Lia.
Require Import Value Bytes Sha2 Aes Modes CryptoProofs GenMisc GenAhab AhabModel AhabProofs Ahab2Model Ahab2Proofs.
Import ListNotations.
Local Open Scope Z_scope.

(* C06, version 2: in the exported file every image array entry points at the bytes of its image (zero-extended to the entry
   size) when the layout check of export passes. *)
Theorem entry_points_at_image_v2 :
  forall p ks,
  layout_ok p (map k_c ks) = true -> zlen' (containers_block2 p ks) = start_real p (map k_c ks) ->
  (forall c e, In c (map k_c ks) -> In e (c_images c) -> zlen' (i_image e) <= i_size e) ->
  forall c e, In c (map k_c ks) -> In e (c_images c) ->
  zslice (ahab2_bytes p ks) (img_abs c e) (img_abs c e + i_size e) = fit_image (i_size e) (i_image e).
Proof. exact entry_points_at_image_v2_l. Qed.
Print Assumptions entry_points_at_image_v2.
