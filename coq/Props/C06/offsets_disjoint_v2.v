From Coq Require Import ZArith NArith List Bool Lia.
Require Import Value Bytes Sha2 Aes Modes CryptoProofs GenMisc GenAhab AhabModel AhabProofs Ahab2Model Ahab2Proofs.
Import ListNotations.
Local Open Scope Z_scope.

(* C06, version 2 families of the database (regenerated on this run) and every target memory: automatically assigned image
   offsets are chained, pairwise disjoint, 1 KiB aligned from the first one on, none before 0xC000 (0xBC00 for NAND); two 16 KiB
   container slots always end before the image area, all of them (at most 3) for the non-NAND memories. *)
Theorem offsets_disjoint_v2 :
  forall fam tm cs,
  In fam gen_families -> fam_allows_v2 fam = true -> In tm [0; 2; 3; 4] ->
  let p := params_of fam tm true in
  (forall c e, In c cs -> In e (c_images c) -> i_raw_off e + c_coff c <= 0 /\ 0 <= i_size e /\ 0 <= i_gap e) ->
  let sp := spans (assign_offsets p (p_start p) cs) in
  gchain (p_start p) sp /\ pairwise_disjoint sp /\ all_after (if is_nand tm then 48128 else 49152) sp /\
  achain_all p 1024 (assign_offsets p (p_start p) cs) /\
  2 * 16384 <= p_start p /\ (is_nand tm = false -> p_max_cnt p * 16384 <= p_start p).
Proof. exact offsets_disjoint_v2_l. Qed.
Print Assumptions offsets_disjoint_v2.
