From Coq Require Import ZArith NArith List Bool Lia.
Require Import Value Bytes Sha2 Aes Modes CryptoProofs GenMisc GenAhab AhabModel AhabProofs.
Import ListNotations.
Local Open Scope Z_scope.

(* C06: with explicit (preset) offsets the same holds under the stated side condition presets_ok_all: no preset image starts
   before the running offset. (The side condition is necessary: AhabProofs.preset_overlap_witness.) *)
Theorem preset_offsets_disjoint :
  forall p cs,
  (forall c e, In c cs -> In e (c_images c) -> 0 <= i_size e /\ 0 <= i_gap e) ->
  presets_ok_all p (p_start p) cs ->
  let sp := spans (assign_offsets p (p_start p) cs) in
  gchain (p_start p) sp /\ pairwise_disjoint sp /\ all_after (p_start p) sp.
Proof. exact preset_offsets_disjoint_l. Qed.
Print Assumptions preset_offsets_disjoint.
