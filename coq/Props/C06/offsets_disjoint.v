From Coq Require Import ZArith NArith List Bool Lia.
Require Import Value Bytes Sha2 Aes Modes CryptoProofs GenMisc GenAhab AhabModel AhabProofs.
Import ListNotations.
Local Open Scope Z_scope.

(* C06: images whose offsets AHABImage.update_fields assigns (no preset, container not locked) are placed in configuration
   order, each at or after the end (+gap) of the previous one, hence pairwise disjoint, and none before the start address of
   the image area (beyond the container area); sizes and gaps are untouched. Any number of containers and images. *)
Theorem offsets_disjoint :
  forall p cs,
  (forall c e, In c cs -> In e (c_images c) -> i_raw_off e + c_coff c <= 0 /\ 0 <= i_size e /\ 0 <= i_gap e) ->
  let sp := spans (assign_offsets p (p_start p) cs) in
  gchain (p_start p) sp /\ pairwise_disjoint sp /\ all_after (p_start p) sp /\
  size_gap (assign_offsets p (p_start p) cs) = size_gap cs.
Proof. exact offsets_disjoint_l. Qed.
Print Assumptions offsets_disjoint.
