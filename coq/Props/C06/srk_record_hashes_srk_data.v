From Coq Require Import ZArith NArith List Bool Lia.
Require Import Value Bytes Sha2 Aes Modes CryptoProofs GenMisc GenAhab AhabModel AhabProofs Ahab2Model Ahab2Proofs.
Import ListNotations.
Local Open Scope Z_scope.

(* C06, version 2: record number j of the table built from the configured keys carries, left aligned in its 64-byte field, the
   hash (under the record's own algorithm) of the exported SRK data container number j of key j, and the requested flags. *)
Theorem srk_record_hashes_srk_data :
  forall flags ks ix rds, srk2_of_keys flags ix ks = Ok rds ->
  forall j r d, nth_error rds j = Some (r, d) ->
  exists h, hash_of (sr_hash r) (srk_data_bytes (ix + Z.of_nat j) d) = Ok h /\ sr_params r = h ++ repeat 0%N (64 - length h) /\
            sr_flags r = flags /\ exists key, nth_error ks j = Some key /\ key_data key = Ok d.
Proof. exact srk2_of_keys_nth. Qed.
Print Assumptions srk_record_hashes_srk_data.
