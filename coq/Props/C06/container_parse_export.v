From Coq Require Import ZArith NArith List Bool Lia.
Require Import Value Bytes Sha2 Aes Modes CryptoProofs GenMisc GenAhab AhabModel AhabProofs Ahab2Model Ahab2Proofs
               AhabParseModel AhabParseProofs.
Import ListNotations.
Local Open Scope Z_scope.

(* C06, container version 1: AHABContainer.parse of an exported container returns the container (everything that travels in the
   binary: header fields, every image array entry, the signature block with its offsets, the four SRK records, the signature
   and the blob), whatever bytes follow -- for any number of images, any record/signature/blob contents that satisfy
   container_wf (field widths, four SRK records of one length, the IV of a plain entry is zero). *)
Theorem container_parse_export :
  forall c rs s bl rest,
  container_wf c rs s bl ->
  container_parse (c_coff c) (container_bytes false c ++ rest) = Ok (container_wire c).
Proof. exact container_parse_export_l. Qed.
Print Assumptions container_parse_export.
