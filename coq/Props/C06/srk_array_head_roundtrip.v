From Coq Require Import ZArith NArith List Bool Lia.
Require Import Value Bytes Sha2 Aes Modes CryptoProofs GenMisc GenAhab AhabModel AhabProofs Ahab2Model Ahab2Proofs.
Import ListNotations.
Local Open Scope Z_scope.

(* C06, version 2: the SRK table array header parses back to (length, number of tables = 1). *)
Theorem srk_array_head_roundtrip :
  forall a rest, fits 2 (srk_array_len a) = true ->
  srk_array_head_parse (srk_array_bytes a ++ rest) = Ok (srk_array_len a, 1).
Proof. exact srk_array_head_roundtrip_l. Qed.
Print Assumptions srk_array_head_roundtrip.
