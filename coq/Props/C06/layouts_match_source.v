From Coq Require Import ZArith NArith List Bool Lia.
Require Import Value Bytes Sha2 Aes Modes CryptoProofs GenMisc GenAhab AhabModel AhabProofs.
Import ListNotations.
Local Open Scope Z_scope.

(* C06: the byte layouts used by the model are the struct formats extracted from spsdk/image/ahab/*.py on this run. *)
Theorem layouts_match_source :
  gen_fmt_container = [1; 2; 1; 4; 2; 1; 1; 2; 2] /\ gen_fmt_iae = [4; 4; 8; 8; 4; 4; 64; 32] /\
  gen_fmt_sigblock = [1; 2; 1; 2; 2; 2; 2; 4] /\ gen_fmt_srk_record = [1; 2; 1; 1; 1; 1; 1; 4] /\
  gen_fmt_srk_table = [1; 2; 1] /\ gen_fmt_signature = [1; 2; 1; 4] /\ gen_fmt_blob = [1; 2; 1; 1; 1; 1; 1] /\
  (forall v l f s u n o, length (header_bytes_raw v l f s u n o) = Z.to_nat (fold_right Z.add 0%Z gen_fmt_container)) /\
  (forall e, length (iae_bytes e) = Z.to_nat (fold_right Z.add 0%Z gen_fmt_iae)) /\
  (forall v sb, length (sigblock_header v sb) = Z.to_nat (fold_right Z.add 0%Z gen_fmt_sigblock)) /\
  (forall r, length (srk_rec_bytes r) = (Z.to_nat (fold_right Z.add 0%Z gen_fmt_srk_record) + length (sr_params r))%nat) /\
  (forall n s, length (signature_bytes n s) = (Z.to_nat (fold_right Z.add 0%Z gen_fmt_signature) + length s)%nat) /\
  (forall b, length (blob_bytes b) = (Z.to_nat (fold_right Z.add 0%Z gen_fmt_blob) + length (b_keyblob b))%nat).
Proof. exact layouts_match_source_l. Qed.
Print Assumptions layouts_match_source.
