From Coq Require Import ZArith NArith List Bool Lia.
Require Import Value Bytes Sha2 Aes Modes CryptoProofs GenMisc GenAhab AhabModel AhabProofs Ahab2Model Ahab2Proofs
               AhabParseModel AhabParseProofs.
Import ListNotations.
Local Open Scope Z_scope.

(* C06: ContainerSignature.parse and AhabBlob.parse return what was exported. *)
Theorem signature_blob_roundtrip :
  (forall s rest, fits 2 (8 + zlen' s) = true -> signature_parse (signature_bytes (8 + zlen' s) s ++ rest) = Ok (8 + zlen' s, s)) /\
  (forall b rest, blob_wf b -> blob_parse (blob_bytes b ++ rest) (b_keyid b) = Ok (blob_wire b)).
Proof. split; [exact signature_roundtrip_l | exact blob_roundtrip_l]. Qed.
Print Assumptions signature_blob_roundtrip.
