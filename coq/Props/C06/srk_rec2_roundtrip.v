From Coq Require Import ZArith NArith List Bool Lia.
Require Import Value Bytes Sha2 Aes Modes CryptoProofs GenMisc GenAhab AhabModel AhabProofs Ahab2Model Ahab2Proofs.
Import ListNotations.
Local Open Scope Z_scope.

(* C06, version 2: an SRK record (signing algorithm, hash algorithm, key size code, flags, 512-bit SRK data hash) parses back to
   itself with SRKRecordV2.parse, whatever the parameter-length words hold and whatever follows. *)
Theorem srk_rec2_roundtrip :
  forall r rest, srk_rec2_wf r -> srk_rec2_parse (srk_rec_bytes r ++ rest) = Ok r.
Proof. exact srk_rec2_roundtrip_l. Qed.
Print Assumptions srk_rec2_roundtrip.
