From Coq Require Import ZArith NArith List Bool Lia.
Require Import Value Bytes Sha2 Aes Modes CryptoProofs GenMisc GenAhab AhabModel AhabProofs.
Import ListNotations.
Local Open Scope Z_scope.

(* C06: in the exported file every image array entry points at the bytes of its image: when the layout check of export
   (BinaryImage.validate) passes, the bytes at [container offset + entry offset, + entry size) are the image, zero-extended to
   the entry size -- for every container and entry, whatever else was placed. *)
Theorem entry_points_at_image :
  forall p cs,
  layout_ok p cs = true -> zlen' (containers_block p cs) = start_real p cs ->
  (forall c e, In c cs -> In e (c_images c) -> zlen' (i_image e) <= i_size e) ->
  forall c e, In c cs -> In e (c_images c) ->
  zslice (ahab_bytes p cs) (img_abs c e) (img_abs c e + i_size e) = fit_image (i_size e) (i_image e).
Proof. exact entry_points_at_image_l. Qed.
Print Assumptions entry_points_at_image.
