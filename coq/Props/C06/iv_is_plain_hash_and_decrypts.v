From Coq Require Import ZArith NArith List Bool Lia.
Require Import Value Bytes Sha2 Aes Modes CryptoProofs GenMisc GenAhab AhabModel AhabProofs.
Import ListNotations.
Local Open Scope Z_scope.

(* C06: an encrypted entry stores IV = SHA-256(plain image) and its bytes decrypt, with the DEK under AES-CBC with the second
   half of the IV field, to the plain image (padded to the cipher block); the plain image is the configured data padded to the
   family's image size alignment. AES and CBC are the CryptoRef definitions; no hypothesis on the cipher is left open. *)
Theorem iv_is_plain_hash_and_decrypts :
  forall p ix cc c e bits dek kid,
  container_build p ix cc = Ok c -> In e (c_images c) -> flags_enc (p_v2 p) (i_flags e) = true ->
  cc_blob cc = Some (bits, dek, kid) -> aes_key_ok dek = true -> wf_bytes dek ->
  (forall ic, In ic (cc_images cc) -> wf_bytes (ic_data ic)) ->
  i_iv e = sha256 (i_plain e) /\
  blob_decrypt dek (skipn 16 (i_iv e)) (i_image e) = pad_to 16 (i_plain e) /\
  exists ic, In ic (cc_images cc) /\ i_plain e = pad_to (p_size_align p) (ic_data ic).
Proof. exact iv_is_plain_hash_and_decrypts_l. Qed.
Print Assumptions iv_is_plain_hash_and_decrypts.
