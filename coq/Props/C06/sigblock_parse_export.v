From Coq Require Import ZArith NArith List Bool Lia.
Require Import Value Bytes Sha2 Aes Modes CryptoProofs GenMisc GenAhab AhabModel AhabProofs Ahab2Model Ahab2Proofs
               AhabParseModel AhabParseProofs.
Import ListNotations.
Local Open Scope Z_scope.

(* C06, version 1: SignatureBlock.parse (export sb) = sb for the block SignatureBlock.update_fields lays out. *)
Theorem sigblock_parse_export :
  forall rs s bl rest,
  sigblock_wf rs s bl ->
  sigblock_parse (sigblock_bytes false (sigblock_update rs (Some s) bl) ++ rest) = Ok (sigblock_wire (sigblock_update rs (Some s) bl)).
Proof. exact sigblock_roundtrip_l. Qed.
Print Assumptions sigblock_parse_export.
