From Coq Require Import ZArith NArith List Bool Lia.
Require Import Value Bytes Sha2 Aes Modes CryptoProofs GenMisc GenAhab AhabModel AhabProofs.
Import ListNotations.
Local Open Scope Z_scope.

(* C06: an image array entry parses back to itself (the fields that travel in the 128-byte record), whatever follows it. *)
Theorem iae_roundtrip :
  forall e rest, iae_fmt_ok e = true -> length (i_hash e) = 64%nat -> length (i_iv e) = 32%nat ->
  iae_parse (iae_bytes e ++ rest) = iae_wire e.
Proof. exact iae_roundtrip_l. Qed.
Print Assumptions iae_roundtrip.
