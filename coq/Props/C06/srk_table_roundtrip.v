From Coq Require Import ZArith NArith List Bool Lia.
Require Import Value Bytes Sha2 Aes Modes CryptoProofs GenMisc GenAhab AhabModel AhabProofs Ahab2Model Ahab2Proofs
               AhabParseModel AhabParseProofs.
Import ListNotations.
Local Open Scope Z_scope.

(* C06, version 1: SRKTable.parse (export table) = table for four well-formed records of one length (SRKRecord.parse of each). *)
Theorem srk_table_roundtrip :
  forall rs rest,
  length rs = 4%nat -> (exists L, Forall (fun r => srk_rec_wf r /\ sr_length r = L) rs) -> fits 2 (srk_table_len rs) = true ->
  srk_table_parse (srk_table_bytes false (srk_table_len rs) rs ++ rest) = Ok (srk_table_len rs, rs).
Proof. exact srk_table_roundtrip_l. Qed.
Print Assumptions srk_table_roundtrip.
