From Coq Require Import ZArith NArith List Bool Lia.
Require Import Value Bytes Sha2 Aes Modes CryptoProofs GenMisc GenAhab AhabModel AhabProofs.
Import ListNotations.
Local Open Scope Z_scope.

(* C06: what a parsed container header re-exports (and therefore what verify() authenticates): bytes 0..11 as read, the
   signature block offset recomputed from the number of images, the reserved half word zero. *)
Theorem reexport_normalises_header :
  forall v2 l h, wf_bytes l -> header_parse v2 l = Ok h ->
  header_reexport v2 h = firstn 12 l ++ le 2 (zalign (16 + rd l 11 1 * 128) gen_container_alignment) ++ [0%N; 0%N].
Proof. exact reexport_normalises_header_l. Qed.
Print Assumptions reexport_normalises_header.
