From Coq Require Import ZArith NArith List Bool Lia.
Require Import Value Bytes Sha2 Aes Modes CryptoProofs GenMisc GenAhab AhabModel AhabProofs Ahab2Model Ahab2Proofs.
Import ListNotations.
Local Open Scope Z_scope.

(* C06, version 2: SignatureBlockV2.export (slice assignments into a zero buffer at the offsets of update_fields) is exactly
   header ++ SRK table array ++ signature container ++ blob: no gap, no overlap, nothing left of the zero buffer. *)
Theorem sigblock_v2_is_concatenation :
  forall ar s bl, blob_ok bl ->
  let sb := sigblock2_update (Some ar) (Some s) bl in
  sigblock2_bytes sb (Some ar)
  = sigblock_header true sb ++ srk_array_bytes ar ++ signature_bytes (8 + zlen' s) s
    ++ match bl with Some b => blob_bytes b | None => [] end.
Proof. exact sigblock2_bytes_concat. Qed.
Print Assumptions sigblock_v2_is_concatenation.
