From Coq Require Import ZArith NArith List Bool Lia.
Require Import Value Bytes Sha2 Aes Modes CryptoProofs GenMisc GenAhab AhabModel AhabProofs.
Import ListNotations.
Local Open Scope Z_scope.

(* C06: the data a container signs is exactly header ++ image array ++ signature block up to the signature offset; it does not
   depend on the signature bytes (so signing does not change what was signed), and the SRK table lies inside it. *)
Theorem signed_range :
  forall v2 c rs s s' bl,
  rs <> [] -> blob_ok bl -> c_sb c = sigblock_update rs (Some s) bl -> length s' = length s ->
  signed_data v2 c = container_head c ++ firstn (Z.to_nat (sb_sig_off (c_sb c))) (sigblock_bytes v2 (c_sb c)) /\
  signed_data v2 (set_sb c (sigblock_update rs (Some s') bl)) = signed_data v2 c /\
  sb_srk_off (c_sb c) = 16 /\ 16 + srk_table_len rs <= sb_sig_off (c_sb c).
Proof. exact signed_range_l. Qed.
Print Assumptions signed_range.
