From Coq Require Import ZArith NArith List Bool Lia.
Require Import Value Bytes Sha2 Aes Modes CryptoProofs GenMisc GenAhab AhabModel AhabProofs Ahab2Model Ahab2Proofs.
Import ListNotations.
Local Open Scope Z_scope.

(* C06, version 2: the SRK hash SPSDK reports for the fuses is SHA-512 of the SRK table bytes as they stand in the exported
   container (8 bytes after the start of the SRK table array). *)
Theorem srk_hash_of_exported_table_v2 :
  forall k ar s bl,
  k_arr k = Some ar -> c_sb (k_c k) = sigblock2_update (Some ar) (Some s) bl -> blob_ok bl ->
  srk_hash2 ar
  = sha512 (zslice (container2_bytes k) (sbo (k_c k) + sb_srk_off (c_sb (k_c k)) + 8)
                   (sbo (k_c k) + sb_srk_off (c_sb (k_c k)) + 8 + srk_table_len (a_recs ar))).
Proof. exact srk_hash_of_exported_table_v2_l. Qed.
Print Assumptions srk_hash_of_exported_table_v2.
