From Coq Require Import ZArith NArith List Bool Lia.
Require Import Value Bytes Sha2 Aes Modes CryptoProofs GenMisc GenAhab AhabModel AhabProofs.
Import ListNotations.
Local Open Scope Z_scope.

(* C06 (refutation of "every corrupted authenticated byte is reported"): the container parser never reads the reserved half
   word at offset 14, which lies in the signed range; two headers that differ there parse to the same object, and the object
   re-exports the uncorrupted bytes -- no check made on the parsed object can report the corruption (known finding C06-F1). *)
Theorem tamper_reserved_refuted :
  (forall v2 l l', length l = length l' -> firstn 14 l = firstn 14 l' -> header_parse v2 l = header_parse v2 l') /\
  exists l l' h, nth 14 l 0%N <> nth 14 l' 0%N /\ length l = length l' /\
                 header_parse false l = Ok h /\ header_parse false l' = Ok h /\
                 header_reexport false h = l /\ header_reexport false h <> l'.
Proof. exact tamper_reserved_refuted_l. Qed.
Print Assumptions tamper_reserved_refuted.
