From Coq Require Import ZArith NArith List Bool Lia.
Require Import Value Bytes Sha2 Aes Modes CryptoProofs GenMisc GenAhab AhabModel AhabProofs.
Import ListNotations.
Local Open Scope Z_scope.

(* C06: after update_fields every entry carries, left aligned in the 64-byte field, the hash -- under the algorithm declared in
   its flags -- of exactly the bytes it points at in the exported file. *)
Theorem entry_hash :
  forall p l cs,
  ahab_update p l = Ok cs -> layout_ok p cs = true -> zlen' (containers_block p cs) = start_real p cs ->
  forall c e, In c cs -> In e (c_images c) ->
  exists h, hash_of (flags_hash (p_v2 p) (i_flags e)) (zslice (ahab_bytes p cs) (img_abs c e) (img_abs c e + i_size e)) = Ok h /\
            i_hash e = h ++ repeat 0%N (64 - length h).
Proof. exact entry_hash_in_file_l. Qed.
Print Assumptions entry_hash.
