From Coq Require Import ZArith NArith List Bool Lia.
Require Import Value Bytes Sha2 Aes Modes CryptoProofs GenMisc GenAhab AhabModel AhabProofs.
Import ListNotations.
Local Open Scope Z_scope.

(* C06: every AHAB family/revision of the device database (regenerated on this run), every target memory and every container
   version the family allows: the image area starts on a 1 KiB boundary, all alignments and limits are positive, at most 4
   containers, and for container version 1 all container slots lie before the image area (containers at fixed offsets never
   reach the first image). *)
Theorem families_wf : forall fam, In fam gen_families -> fam_ok fam = true.
Proof. exact families_wf_l. Qed.
Print Assumptions families_wf.
