From Coq Require Import ZArith NArith List Bool Lia.
Require Import Value Bytes Sha2 Aes Modes CryptoProofs GenMisc GenAhab AhabModel AhabProofs Ahab2Model Ahab2Proofs.
Import ListNotations.
Local Open Scope Z_scope.

(* C06, container version 2: the layouts of the SRK table array and SRK data containers used by the model are the struct formats,
   tags and versions extracted from spsdk/image/ahab/ahab_srk.py / ahab_sign_block.py on this run. *)
Theorem layouts_v2_match_source :
  gen_fmt_srk_array = [1; 2; 1; 1; 2; 1] /\ gen_fmt_srk_data = [1; 2; 1; 2; 1; 1] /\ gen_fmt_srk_record = [1; 2; 1; 1; 1; 1; 1; 4] /\
  gen_tag_srk_array = 90 /\ gen_tag_srk_data = 93 /\ gen_version_srk_table true = 67 /\ gen_version_sigblock true = 1 /\
  gen_version_container true = 2 /\
  (forall id d, length (srk_data_bytes id d) = (Z.to_nat (fold_right Z.add 0%Z gen_fmt_srk_data) + length d)%nat) /\
  (forall a, zlen' (srk_array_bytes a)
             = fold_right Z.add 0%Z gen_fmt_srk_array + srk_table_len (a_recs a) + srk_data_len (used_data a)).
Proof. exact layouts_v2_l. Qed.
Print Assumptions layouts_v2_match_source.
