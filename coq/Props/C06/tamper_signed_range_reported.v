From Coq Require Import ZArith NArith List Bool Lia.
Require Import Value Bytes Sha2 Aes Modes CryptoProofs GenMisc GenAhab AhabModel AhabProofs.
Import ListNotations.
Local Open Scope Z_scope.

(* C06: corrupting any byte of the signed range of a parsed container -- reserved and padding bytes included -- is reported:
   whatever the parser does with the corrupted bytes (any function `parse`), it either rejects them, or returns a different
   object, or returns the same object and then the verifier's "Signed data as parsed" record (re-exported signed data =
   the bytes that were parsed) fails. (Repair ef48ac1 of former finding C06-F1; satisfiable: tamper_signed_range_nonvacuous.) *)
Theorem tamper_signed_range_reported :
  forall v2 (parse : list N -> res container) b b' c,
  parse b = Ok c -> signed_as_parsed v2 b c = true ->
  (exists i, (i < length (signed_data v2 c))%nat /\ nth i b 0%N <> nth i b' 0%N) ->
  match parse b' with Err _ => True | Ok c' => c' = c -> signed_as_parsed v2 b' c' = false end.
Proof. exact tamper_signed_range_reported_l. Qed.
Print Assumptions tamper_signed_range_reported.
