From Coq Require Import ZArith NArith List Bool Lia.
Require Import Value Bytes Sha2 Aes Modes CryptoProofs GenMisc GenAhab AhabModel AhabProofs.
Import ListNotations.
Local Open Scope Z_scope.

(* C06: the container header parses back to (length, flags, sw version, fuse version, #images, signature block offset). *)
Theorem header_roundtrip :
  forall v2 length flags sw fuse nimg sbo_ rest,
  fits 2 length = true -> fits 4 flags = true -> fits 2 sw = true -> fits 1 fuse = true -> fits 1 nimg = true ->
  fits 2 sbo_ = true -> length <= 16 + zlen' rest ->
  header_parse v2 (header_bytes_raw (gen_version_container v2) length flags sw fuse nimg sbo_ ++ rest)
  = Ok (length, flags, sw, fuse, nimg, sbo_).
Proof. exact header_roundtrip_l. Qed.
Print Assumptions header_roundtrip.
