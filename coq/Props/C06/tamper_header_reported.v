From Coq Require Import ZArith NArith List Bool Lia.
Require Import Value Bytes Sha2 Aes Modes CryptoProofs GenMisc GenAhab AhabModel AhabProofs.
Import ListNotations.
Local Open Scope Z_scope.

(* C06: the same for the modelled header parser: any change of the 16 header bytes is reported by a parse error, a changed
   object or the record; a change confined to the reserved half word (which the parser never reads: the object is unchanged)
   is reported by the record. *)
Theorem tamper_header_reported :
  forall v2 l l' h,
  header_parse v2 l = Ok h -> header_as_parsed v2 l h = true -> length l = length l' -> firstn 16 l <> firstn 16 l' ->
  (match header_parse v2 l' with Err _ => True | Ok h' => h' = h -> header_as_parsed v2 l' h' = false end) /\
  (firstn 14 l = firstn 14 l' -> header_parse v2 l' = Ok h /\ header_as_parsed v2 l' h = false).
Proof. exact tamper_header_reported_l. Qed.
Print Assumptions tamper_header_reported.
