From Coq Require Import ZArith NArith List Bool Lia.
Require Import Value Bytes Sha2 Aes Modes CryptoProofs GenMisc GenAhab AhabModel AhabProofs Ahab2Model Ahab2Proofs.
Import ListNotations.
Local Open Scope Z_scope.

(* C06, version 2: the data a container signs is exactly container header ++ image array ++ signature block header ++ SRK table
   array (table and the SRK data of the selected key) -- everything up to the signature container; it does not depend on
   the signature bytes, and the offsets in the block header say so. *)
Theorem signed_range_v2 :
  forall k ar s s' bl,
  k_arr k = Some ar -> c_sb (k_c k) = sigblock2_update (Some ar) (Some s) bl -> blob_ok bl -> length s' = length s ->
  signed_data2 k = container_head (k_c k) ++ sigblock_header true (c_sb (k_c k)) ++ srk_array_bytes ar /\
  signed_data2 (set_sb2 k (sigblock2_update (Some ar) (Some s') bl)) = signed_data2 k /\
  sb_srk_off (c_sb (k_c k)) = 16 /\ sb_sig_off (c_sb (k_c k)) = 16 + srk_array_len ar.
Proof. exact signed_range_v2_l. Qed.
Print Assumptions signed_range_v2.
