From Coq Require Import ZArith NArith List Bool Lia.
Require Import Value Bytes Sha2 Aes Modes CryptoProofs GenMisc GenAhab AhabModel AhabProofs.
Import ListNotations.
Local Open Scope Z_scope.

(* C06: each range check of the verifier (the table extracted from AHABContainerBase._verify / ImageArrayEntry.verify on this
   run, evaluated with the translated misc.check_range) fails iff its OWN field is outside the width it has in the binary. *)
Theorem verify_flags_each_field :
  (forall c id, In id (failing_checks (cfield c) gen_container_checks) <->
     (id = 0 /\ ~ 0 <= c_flags c <= 2 ^ 32 - 1) \/ (id = 1 /\ ~ 0 <= flag_used_srk (c_flags c) <= 3) \/
     (id = 2 /\ ~ 0 <= flag_revoke (c_flags c) <= 15) \/ (id = 3 /\ ~ 0 <= c_sw c <= 2 ^ 16 - 1) \/
     (id = 4 /\ ~ 0 <= c_fuse c <= 2 ^ 8 - 1) \/ (id = 5 /\ ~ 0 <= sbo c <= 65535)) /\
  (forall e id, In id (failing_checks (ifield e) gen_iae_checks) <->
     (id = 10 /\ ~ 0 <= i_raw_off e <= 2 ^ 32 - 1) \/ (id = 11 /\ ~ 0 <= i_size e <= 2 ^ 32 - 1) \/
     (id = 12 /\ ~ 0 <= i_load e <= 2 ^ 64 - 1) \/ (id = 13 /\ ~ 0 <= i_entry e <= 2 ^ 64 - 1) \/
     (id = 14 /\ ~ 0 <= i_flags e <= 2 ^ 32 - 1) \/ (id = 15 /\ ~ 0 <= i_meta e <= 2 ^ 32 - 1)).
Proof. exact verify_flags_each_field_l. Qed.
Print Assumptions verify_flags_each_field.
