From Coq Require Import ZArith NArith List Bool Lia.
Require Import Value Bytes Sha2 Aes Modes CryptoProofs GenMisc GenAhab AhabModel AhabProofs Ahab2Model Ahab2Proofs
               AhabParseModel AhabParseProofs.
Import ListNotations.
Local Open Scope Z_scope.

(* C06, version 1: SignatureBlock.export is header ++ SRK table ++ zero padding to 8 ++ signature container (++ padding ++ blob):
   the slice assignments neither overlap nor leave anything else of the zero buffer. *)
Theorem sigblock_v1_is_concatenation :
  forall rs s bl, rs <> [] -> blob_ok bl ->
  let sb := sigblock_update rs (Some s) bl in
  sigblock_bytes false sb
  = sigblock_header false sb ++ srk_table_bytes false (srk_table_len rs) rs ++ repeat 0%N (gap1 rs)
    ++ signature_bytes (8 + zlen' s) s
    ++ match bl with Some b => repeat 0%N (gap2 rs s) ++ blob_bytes b | None => [] end.
Proof. exact sigblock_bytes_concat. Qed.
Print Assumptions sigblock_v1_is_concatenation.
