From Coq Require Import ZArith NArith List Bool Lia.
Require Import Value Bytes Sha2 Aes Modes CryptoProofs GenMisc GenAhab AhabModel AhabProofs.
Import ListNotations.
Local Open Scope Z_scope.

(* C06: automatically assigned image offsets are aligned: every image starts on the boundary max(alignment of the image before it
   for the target memory, the family's minimal offset alignment) -- across containers -- and the first one on any boundary `al`
   that divides the start address (any families' parameters, any number of containers and images). *)
Theorem offsets_aligned :
  forall p cs off al,
  (forall c e, In c cs -> In e (c_images c) -> i_raw_off e + c_coff c <= 0) -> off mod al = 0 ->
  achain_all p al (assign_offsets p off cs).
Proof. exact offsets_aligned_l. Qed.
Print Assumptions offsets_aligned.
