From Coq Require Import ZArith NArith List Bool Lia.
Require Import Value Bytes BytesProofs GenSigEnc SigEncModel SigEncProofs.
Import ListNotations.
Local Open Scope Z_scope.

(* C08: signatures whose r and s have at most one leading zero byte (2^(8(c-2)) <= r, s < 2^key_size) survive
   parse . export in both encodings; the known class needs r or s at least two bytes short. *)
Theorem sniff_sound_typical :
  forall r s cv c ks enc, curve_ok cv c ks ->
  2 ^ (8 * (c - 2)) <= r < 2 ^ ks -> 2 ^ (8 * (c - 2)) <= s < 2 ^ ks -> enc = 0 \/ enc = 1 ->
  sig_parse_export r s cv enc = Ok (r, s, cv).
Proof. exact sniff_sound_typical_lemma. Qed.
Print Assumptions sniff_sound_typical.
