From Coq Require Import ZArith NArith List Bool Lia.
Require Import Value Bytes BytesProofs GenSigEnc SigEncModel SigEncProofs.
Import ListNotations.
Local Open Scope Z_scope.

(* C08 (D23): the three ways the length sniffing fails: DER length outside every window (rejected),
   DER length equal to a raw length (r, s read from the wrong bytes), DER length in the window of another curve. *)
Theorem sniff_refuted_classes :
  sig_parse_export 1 1 0 1 = Err 1%N /\
  (zlen (der_sig (Z.to_N r29) (Z.to_N r29)) = 64 /\
   exists r1 s1, sig_parse_export r29 r29 0 1 = Ok (r1, s1, 0) /\ r1 <> r29) /\
  sig_parse_export r31 r31 1 1 = Ok (r31, r31, 0).
Proof. exact (conj sniff_refuted_small (conj sniff_refuted_rawlen sniff_refuted_other_curve)). Qed.
Print Assumptions sniff_refuted_classes.
