From Coq Require Import ZArith NArith List Bool Lia.
Require Import Value Bytes BytesProofs GenSigEnc SigEncModel SigEncProofs.
Import ListNotations.
Local Open Scope Z_scope.

(* C08 (D23): a DER signature (r, s in range for P-256) of exactly 64 bytes is re-encoded as if it were raw. *)
Theorem verify_reencode_refuted :
  0 < r29 < 2 ^ 256 /\
  exists d, verify_reencode (der_sig (Z.to_N r29) (Z.to_N r29)) 256 = Ok d /\ d <> der_sig (Z.to_N r29) (Z.to_N r29).
Proof. exact verify_reencode_refuted. Qed.
Print Assumptions verify_reencode_refuted.
