From Coq Require Import ZArith NArith List Bool Lia.
Require Import Value Bytes BytesProofs GenSigEnc SigEncModel SigEncProofs.
Import ListNotations.
Local Open Scope Z_scope.

(* C08: DER -> raw (serialize_signature) -> DER (verify_signature re-encoding) is the identity for all
   r, s < 2^(8c), in particular for all (r, s) in [1, n-1]. *)
Theorem der_raw_der :
  forall r s cv c ks, curve_ok cv c ks -> 0 <= r < 2 ^ (8 * c) -> 0 <= s < 2 ^ (8 * c) ->
  bind (ecc_sign_format (der_sig (Z.to_N r) (Z.to_N s)) ks false) (fun raw => verify_reencode raw ks)
  = Ok (der_sig (Z.to_N r) (Z.to_N s)).
Proof. exact der_raw_der_lemma. Qed.
Print Assumptions der_raw_der.
