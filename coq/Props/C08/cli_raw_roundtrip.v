From Coq Require Import ZArith NArith List Bool Lia.
Require Import Value Bytes BytesProofs GenSigEnc SigEncModel SigEncProofs.
Import ListNotations.
Local Open Scope Z_scope.

(* C08: nxpcrypto key convert -e RAW followed by reading the file back (reconstruct_key) returns the same key for
   every public point and every private scalar of P-256, P-384 and P-521 (66-byte numbers for P-521). *)
Theorem cli_raw_roundtrip :
  (forall x y cv c ks b pem rv, curve_ok cv c ks ->
     0 <= x < curve_p ks -> 0 <= y < curve_p ks -> on_curve ks x y = true ->
     cli_convert_raw_pub x y ks = Ok b -> pem_like b = false ->
     cli_reconstruct b (pub_parse b pem None rv) = Ok (CPub (KEcc cv x y))) /\
  (forall d cv c ks pem rv, curve_ok cv c ks -> 1 <= d < curve_n ks ->
     exists b, cli_convert_raw_prv d ks = Ok b /\
               (pem_like b = false -> cli_reconstruct b (pub_parse b pem None rv) = Ok (CPrv cv d))).
Proof. exact (conj cli_raw_pub_roundtrip_lemma cli_raw_prv_roundtrip_lemma). Qed.
Print Assumptions cli_raw_roundtrip.
