From Coq Require Import ZArith NArith List Bool Lia.
Require Import Value Bytes BytesProofs GenSigEnc SigEncModel SigEncProofs.
Import ListNotations.
Local Open Scope Z_scope.

(* C08 (finding F3): for P-521 the RAW conversion uses 65-byte numbers: the generator point cannot be converted at all,
   the point (1, y1) is written as 130 bytes that cannot be read back; the same for private scalars. *)
Theorem cli_raw_p521_refuted :
  (on_curve 521 p521_gx p521_gy = true /\ cli_convert_raw_pub p521_gx p521_gy 521 = Err 2%N) /\
  (on_curve 521 1 p521_y1 = true /\
   exists b, cli_convert_raw_pub 1 p521_y1 521 = Ok b /\ zlen b = 130 /\ pem_like b = false /\
             forall rv, cli_reconstruct b (pub_parse b None None rv) = Err 1%N) /\
  (1 <= 2 ^ 520 < curve_n 521 /\ cli_convert_raw_prv (2 ^ 520) 521 = Err 2%N) /\
  (exists b, cli_convert_raw_prv 5 521 = Ok b /\ zlen b = 65 /\ pem_like b = false /\
             forall rv, cli_reconstruct b (pub_parse b None None rv) = Err 1%N).
Proof. exact cli_raw_p521_refuted_lemma. Qed.
Print Assumptions cli_raw_p521_refuted.
