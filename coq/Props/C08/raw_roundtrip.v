From Coq Require Import ZArith NArith List Bool Lia.
Require Import Value Bytes BytesProofs GenSigEnc SigEncModel SigEncProofs.
Import ListNotations.
Local Open Scope Z_scope.

(* C08: ECDSASignature.parse (ECDSASignature(r, s, curve).export(NXP)) = (r, s, curve) for all r, s < 2^(8c),
   leading zero bytes included. *)
Theorem raw_roundtrip :
  forall r s cv c ks, curve_ok cv c ks -> 0 <= r < 2 ^ (8 * c) -> 0 <= s < 2 ^ (8 * c) ->
  sig_parse_export r s cv 0 = Ok (r, s, cv).
Proof. exact raw_roundtrip_lemma. Qed.
Print Assumptions raw_roundtrip.
