From Coq Require Import ZArith NArith List Bool Lia.
Require Import Value Bytes BytesProofs GenSigEnc SigEncModel SigEncProofs.
Import ListNotations.
Local Open Scope Z_scope.

(* C08: the auto-detecting PublicKey.parse and the typed parse methods return the exported key for NXP raw exports
   (provided the bytes are not mistaken for PEM text and are not loadable as DER); the other typed parse rejects. *)
Theorem pub_parse_raw_keys :
  (forall x y cv c ks b pem rv,
     curve_ok cv c ks -> 0 <= x < curve_p ks -> 0 <= y < curve_p ks -> on_curve ks x y = true ->
     ecc_export_nxp x y ks = Ok b -> pem_like b = false ->
     pub_parse b pem None rv = Ok (KEcc cv x y) /\ ecc_pub_parse b pem None rv = Ok (KEcc cv x y) /\
     rsa_pub_parse b pem None rv = Err 1%N) /\
  (forall e n ks b pem,
     In ks rsa_key_sizes -> 2 ^ (ks - 1) <= n < 2 ^ ks -> 2 ^ 16 <= e < 2 ^ 32 ->
     rsa_export_nxp e n 0 0 = Ok b -> pem_like b = false ->
     pub_parse b pem None true = Ok (KRsa e n) /\ rsa_pub_parse b pem None true = Ok (KRsa e n) /\
     ecc_pub_parse b pem None true = Err 1%N).
Proof. exact (conj pub_parse_raw_ecc_lemma pub_parse_raw_rsa_lemma). Qed.
Print Assumptions pub_parse_raw_keys.
