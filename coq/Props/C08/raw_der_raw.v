From Coq Require Import ZArith NArith List Bool Lia.
Require Import Value Bytes BytesProofs GenSigEnc SigEncModel SigEncProofs.
Import ListNotations.
Local Open Scope Z_scope.

(* C08: raw -> DER (PublicKeyEcc.verify_signature re-encoding) -> raw (PrivateKeyEcc.sign / serialize_signature)
   is the identity on every byte string of the signature size of the curve. *)
Theorem raw_der_raw :
  forall raw cv c ks, curve_ok cv c ks -> wf_bytes raw -> zlen raw = 2 * c ->
  bind (verify_reencode raw ks) (fun der => ecc_sign_format der ks false) = Ok raw.
Proof. exact raw_der_raw_lemma. Qed.
Print Assumptions raw_der_raw.
