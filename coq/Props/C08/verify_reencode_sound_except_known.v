From Coq Require Import ZArith NArith List Bool Lia.
Require Import Value Bytes BytesProofs GenSigEnc SigEncModel SigEncProofs.
Import ListNotations.
Local Open Scope Z_scope.

(* C08: the byte string PublicKeyEcc.verify_signature gives to the primitive is the DER form of (r, s) for the
   raw encoding and for a DER encoding whose length is in the window of the curve. *)
Theorem verify_reencode_sound_except_known :
  forall r s cv c ks, curve_ok cv c ks -> 0 <= r < 2 ^ (8 * c) -> 0 <= s < 2 ^ (8 * c) ->
  verify_reencode (raw_sig c r s) ks = Ok (der_sig (Z.to_N r) (Z.to_N s)) /\
  (in_window cv (zlen (der_sig (Z.to_N r) (Z.to_N s))) = true ->
   verify_reencode (der_sig (Z.to_N r) (Z.to_N s)) ks = Ok (der_sig (Z.to_N r) (Z.to_N s))).
Proof. exact verify_reencode_sound_lemma. Qed.
Print Assumptions verify_reencode_sound_except_known.
