From Coq Require Import ZArith NArith List Bool Lia.
Require Import Value Bytes BytesProofs GenSigEnc SigEncModel SigEncProofs.
Import ListNotations.
Local Open Scope Z_scope.

(* C08: PublicKeyRsa.recreate_public_numbers (export NXP) = (e, n) for every modulus of exactly 2048/3072/4096
   bits and every exponent of 3 or 4 bytes (65537 included). *)
Theorem rsa_raw_key_roundtrip :
  forall e n ks, In ks rsa_key_sizes -> 2 ^ (ks - 1) <= n < 2 ^ ks -> 2 ^ 16 <= e < 2 ^ 32 ->
  exists b, rsa_export_nxp e n 0 0 = Ok b /\ rsa_recreate_public_numbers b = Ok (e, n) /\
            (zlen b = ks / 8 + 3 \/ zlen b = ks / 8 + 4).
Proof. exact rsa_raw_roundtrip_lemma. Qed.
Print Assumptions rsa_raw_key_roundtrip.
