From Coq Require Import ZArith NArith List Bool Lia.
Require Import Value Bytes BytesProofs GenSigEnc SigEncModel SigEncProofs.
Import ListNotations.
Local Open Scope Z_scope.

(* C08: PublicKeyEcc.recreate_from_data (export NXP) = the same point on the same curve, for every point of
   P-256/P-384/P-521 (coordinates with leading zero bytes included). *)
Theorem ecc_raw_key_roundtrip :
  forall x y cv c ks, curve_ok cv c ks -> 0 <= x < curve_p ks -> 0 <= y < curve_p ks -> on_curve ks x y = true ->
  exists b, ecc_export_nxp x y ks = Ok b /\ zlen b = 2 * c /\
            ecc_recreate_from_data b (-1) None = Ok (KEcc cv x y).
Proof. exact ecc_raw_roundtrip_lemma. Qed.
Print Assumptions ecc_raw_key_roundtrip.
