From Coq Require Import ZArith NArith List Bool Lia.
Require Import Value Bytes BytesProofs GenSigEnc SigEncModel SigEncProofs.
Import ListNotations.
Local Open Scope Z_scope.

(* C08: parse (export enc sigma) = sigma for the raw encoding always, and for DER whenever the DER length lies in
   the window [2c+3, 2c+8] of the curve (the exact condition get_ecc_curve tests). *)
Theorem sniff_sound_except_known :
  forall r s cv c ks enc, curve_ok cv c ks -> 0 <= r < 2 ^ (8 * c) -> 0 <= s < 2 ^ (8 * c) ->
  enc = 0 \/ (enc = 1 /\ in_window cv (zlen (der_sig (Z.to_N r) (Z.to_N s))) = true) ->
  sig_parse_export r s cv enc = Ok (r, s, cv).
Proof. exact sniff_sound_except_known_lemma. Qed.
Print Assumptions sniff_sound_except_known.
