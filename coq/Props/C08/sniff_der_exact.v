From Coq Require Import ZArith NArith List Bool Lia.
Require Import Value Bytes BytesProofs GenSigEnc SigEncModel SigEncProofs.
Import ListNotations.
Local Open Scope Z_scope.

(* C08: for DER lengths that get_encoding does not mistake for the raw format, parse (export DER sigma) = sigma holds
   exactly when the DER length lies in the window of the curve; for the raw lengths the DER bytes are read as raw halves. *)
Theorem sniff_der_exact :
  (forall r s cv c ks, curve_ok cv c ks -> 0 <= r -> 0 <= s ->
     zlen (der_sig (Z.to_N r) (Z.to_N s)) < 2 ^ 32 ->
     is_raw_len (zlen (der_sig (Z.to_N r) (Z.to_N s))) = false ->
     (sig_parse_export r s cv 1 = Ok (r, s, cv) <-> in_window cv (zlen (der_sig (Z.to_N r) (Z.to_N s))) = true)) /\
  (forall r s cv, 0 <= r -> 0 <= s ->
     is_raw_len (zlen (der_sig (Z.to_N r) (Z.to_N s))) = true ->
     let d := der_sig (Z.to_N r) (Z.to_N s) in
     sig_parse_export r s cv 1 =
     match sig_get_ecc_curve (zlen d) with
     | Ok cv1 => Ok (from_bytes_be (take (zlen d / sig_parse_div1) d), from_bytes_be (drop (zlen d / sig_parse_div2) d), cv1)
     | Err k => Err k
     end).
Proof. exact (conj sniff_der_exact_lemma sniff_der_rawlen_lemma). Qed.
Print Assumptions sniff_der_exact.
