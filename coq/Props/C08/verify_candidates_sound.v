From Coq Require Import ZArith NArith List Bool Lia.
Require Import Value Bytes BytesProofs GenSigEnc SigEncModel SigEncProofs.
Import ListNotations.
Local Open Scope Z_scope.

(* C08: PublicKeyEcc.verify_signature offers the primitive (i) every signature exactly as given, whatever its length - so a
   valid DER signature is never lost to length guessing - and (ii) for a raw r||s signature the DER form of (r, s);
   nothing else is ever offered (the only other candidate is the DER re-encoding of the raw reading of a signature of
   exactly signature_size bytes). *)
Theorem verify_candidates_sound :
  (forall sig ks, exists l, verify_candidates sig ks = Ok l /\ In sig l /\
     (forall d, In d l -> d = sig \/ (zlen sig = signature_size ks /\ verify_reencode sig ks = Ok d))) /\
  (forall r s cv c ks, curve_ok cv c ks -> 0 <= r < 2 ^ (8 * c) -> 0 <= s < 2 ^ (8 * c) ->
     (exists l, verify_candidates (raw_sig c r s) ks = Ok l /\ In (der_sig (Z.to_N r) (Z.to_N s)) l) /\
     (exists l, verify_candidates (der_sig (Z.to_N r) (Z.to_N s)) ks = Ok l /\ In (der_sig (Z.to_N r) (Z.to_N s)) l)).
Proof. exact (conj verify_candidates_self verify_candidates_sound_lemma). Qed.
Print Assumptions verify_candidates_sound.
