From Coq Require Import ZArith NArith List Bool Lia.
Require Import Value Bytes BytesProofs GenSigEnc SigEncModel SigEncProofs.
Import ListNotations.
Local Open Scope Z_scope.

(* C08 (D23): parse (export DER sigma) = sigma does NOT hold for all signatures of a supported curve. *)
Theorem sniff_sound_refuted :
  exists r s cv c ks, curve_ok cv c ks /\ 0 < r < 2 ^ (8 * c) /\ 0 < s < 2 ^ (8 * c) /\
                      sig_parse_export r s cv 1 <> Ok (r, s, cv).
Proof. exact sniff_sound_refuted_lemma. Qed.
Print Assumptions sniff_sound_refuted.
