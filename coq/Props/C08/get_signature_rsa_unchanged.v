From Coq Require Import ZArith NArith List Bool Lia.
Require Import Value Bytes BytesProofs GenSigEnc SigEncModel SigEncProofs.
Import ListNotations.
Local Open Scope Z_scope.

(* C08: get_signature never alters an RSA signature (key_size/8 bytes), whatever its content. *)
Theorem get_signature_rsa_unchanged :
  forall sig enc ks, In ks rsa_key_sizes -> zlen sig = ks / rsa_sig_div -> get_signature sig enc = Ok sig.
Proof. exact get_signature_rsa_unchanged. Qed.
Print Assumptions get_signature_rsa_unchanged.
