From Coq Require Import ZArith NArith List Bool Lia.
Require Import Value Bytes BytesProofs GenSigEnc SigEncModel SigEncProofs.
Import ListNotations.
Local Open Scope Z_scope.

(* C08: byte strings that decode as UTF-8 and contain "----" are never tried as raw keys by PublicKey.parse
   (such strings of raw-key length exist); this is the premise pem_like b = false of pub_parse_raw_keys. *)
Theorem pub_parse_pem_like_masks :
  (forall data der rv, pem_like data = true -> pub_parse data None der rv = Err 1%N) /\
  (exists data, zlen data = 64 /\ pem_like data = true /\ wf_bytes data).
Proof. exact (conj pub_parse_pem_like_masks (ex_intro _ pemlike_raw pem_like_raw_length_exists)). Qed.
Print Assumptions pub_parse_pem_like_masks.
