From Coq Require Import ZArith NArith List Bool Lia.
Require Import Value Bytes BytesProofs GenSigEnc SigEncModel SigEncProofs.
Import ListNotations.
Local Open Scope Z_scope.

(* C08: a byte string accepted by the RSA raw length table is rejected by the ECC raw length table and
   vice versa, so the recreate-by-length sniffing of PublicKey.parse is unambiguous. *)
Theorem raw_key_lengths_disjoint :
  forall data,
    (forall k, rsa_recreate_public_numbers data = Ok k -> ecc_get_curve ecc_curves (zlen data) = Err 1%N) /\
    (forall r, ecc_get_curve ecc_curves (zlen data) = Ok r -> rsa_recreate_public_numbers data = Err 1%N).
Proof. intros data; split; [apply raw_key_lengths_disjoint_lemma | apply raw_key_lengths_disjoint_lemma2]. Qed.
Print Assumptions raw_key_lengths_disjoint.
