From Coq Require Import ZArith NArith List Bool Lia.
Require Import Value Bytes BytesProofs GenSigEnc SigEncModel SigEncProofs.
Import ListNotations.
Local Open Scope Z_scope.

(* C08: decode_dss_signature (encode_dss_signature r s) = (r, s) for all non-negative r, s of any size whose
   encoding stays below the 4 GiB limit of the strict decoder (4 length bytes). *)
Theorem der_roundtrip :
  forall r s : Z, 0 <= r -> 0 <= s ->
  exists d, encode_dss r s = Ok d /\ (zlen d < 2 ^ 32 -> decode_dss d = Some (Z.to_N r, Z.to_N s)).
Proof. exact der_roundtrip_lemma. Qed.
Print Assumptions der_roundtrip.
