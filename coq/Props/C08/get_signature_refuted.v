From Coq Require Import ZArith NArith List Bool Lia.
Require Import Value Bytes BytesProofs GenSigEnc SigEncModel SigEncProofs.
Import ListNotations.
Local Open Scope Z_scope.

(* C08 (D23): a DER signature of a supported curve that get_signature hands on un-normalised. *)
Theorem get_signature_refuted :
  get_signature (der_sig 1 1) (-1) = Ok (der_sig 1 1) /\ der_sig 1 1 <> raw_sig 32 1 1.
Proof. exact get_signature_refuted. Qed.
Print Assumptions get_signature_refuted.
