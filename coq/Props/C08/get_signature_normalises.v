From Coq Require Import ZArith NArith List Bool Lia.
Require Import Value Bytes BytesProofs GenSigEnc SigEncModel SigEncProofs.
Import ListNotations.
Local Open Scope Z_scope.

(* C08: SignatureProvider.get_signature returns the raw r||s form for a raw signature and for a DER signature
   whose length is in the window of its curve; with encoding=DER a raw signature becomes its DER form. *)
Theorem get_signature_normalises :
  forall r s cv c ks, curve_ok cv c ks -> 0 <= r < 2 ^ (8 * c) -> 0 <= s < 2 ^ (8 * c) ->
  get_signature (raw_sig c r s) (-1) = Ok (raw_sig c r s) /\
  get_signature (raw_sig c r s) 1 = Ok (der_sig (Z.to_N r) (Z.to_N s)) /\
  (in_window cv (zlen (der_sig (Z.to_N r) (Z.to_N s))) = true ->
   get_signature (der_sig (Z.to_N r) (Z.to_N s)) (-1) = Ok (raw_sig c r s)).
Proof. exact get_signature_normalises_lemma. Qed.
Print Assumptions get_signature_normalises.
