From Coq Require Import ZArith NArith List Bool.
Require Import Value Bytes GenSb2 Sha2 Aes Modes Hmac KeyWrap Crc Sb2Model Sb2Proofs.
Import ListNotations.
Local Open Scope N_scope.

(* C04, known finding C04-F1 (`SPSDK's own parser recovers the same content` is false on this tree): there is a
   well-formed two-section input built with flags 0x0008 whose file BootImageV21.parse accepts and returns with ONE
   section and flags 0x8008. *)
Theorem parse21_refuted :
  exists x file p, wf_sbin x /\ build21 x = Ok file /\ spsdk_parse21 true (x_sigsize x) (x_kek x) file = Ok p /\
                   length (x_secs x) = 2%nat /\ length (p_secs p) = 1%nat /\ x_flags x = 8 /\ p_flags p = 32776.
Proof. exact parse21_refuted_thm. Qed.
Print Assumptions parse21_refuted.
