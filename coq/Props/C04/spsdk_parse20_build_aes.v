From Coq Require Import ZArith NArith List Bool.
Require Import Value Bytes GenSb2 GenSb20 Sha2 Aes Modes Hmac KeyWrap Crc Sb2Model Sb20Model Sb2Proofs Sb2AesProofs Sb20Proofs Sb20AesProofs.
Import ListNotations.
Local Open Scope N_scope.

(* C04, SB 2.0: the parser statement with the concrete AES, no cipher hypothesis. *)
Theorem spsdk_parse20_build_aes :
  forall y file, wf_sb20 y -> aes_keys_ok20 y -> bcd3 (y_pv y) = true -> bcd3 (y_cv y) = true -> build20 y = Ok file ->
  exists oss, Forall2 sec_obs_rel (y_secs y) oss /\
    spsdk_parse20 true (y_kek y) file =
    Ok (mkParsed20 (y_signed y) (y_pv y) (y_cv y) (y_build y) (y_ts y / 1000000 * 1000000) (y_nonce y) (y_dek y) (y_mac y) oss
                   (length file - length (sigpart y))).
Proof. exact spsdk_parse20_build_aes_thm. Qed.
Print Assumptions spsdk_parse20_build_aes.
