From Coq Require Import ZArith NArith List Bool.
Require Import Value Bytes GenSb2 Sha2 Aes Modes Hmac KeyWrap Crc Sb2Model Sb2Proofs.
Import ListNotations.
Local Open Scope N_scope.

(* C04 main statement, all flags (with and without the SHA-256 bit): for every well-formed input, the ROM holding the
   same KEK processes the file BootImageV21.export builds -- key blob unwraps, header MAC, every section MAC, counters
   from file offsets, checksums, CRCs -- and sees, section for section and command for command, what was given; the
   header fields read back are the values supplied; the signature obligation it emits is x_sig over exactly the first
   signed_len_of x bytes (header, header MAC, key blob, certificate block, SHA-256 of the sections when flagged).
   Parametric in the block cipher (any pair with D k (E k b) = b); rom21_build_aes is the concrete instance. *)
Theorem rom21_build :
  forall (E D : list N -> list N -> list N),
  (forall k b, length (E k b) = 16%nat) -> (forall k b, length b = 16%nat -> D k (E k b) = b) ->
  forall x file, wf_sbin x -> build21_gen E true x = Ok file ->
  exists r, rom21 E D (x_sigsize x) (x_kek x) file = Some r /\
     r_secs r = spec_of (x_secs x) /\ r_flags r = x_flags x /\ r_pv r = x_pv x /\ r_cv r = x_cv x /\
     r_build r = x_build x /\ r_ts r = x_ts x /\ r_major r = 2 /\ r_minor r = 1 /\
     r_sig r = x_sig x /\ r_signed_len r = signed_len_of x.
Proof. exact rom21_build_thm. Qed.
Print Assumptions rom21_build.
