From Coq Require Import ZArith NArith List Bool.
Require Import Value Bytes GenSb2 Sha2 Aes Modes Hmac KeyWrap Crc Sb2Model Sb2Proofs.
Import ListNotations.
Local Open Scope N_scope.

(* C04: every byte of a built file is accounted for: file = signed ++ signature ++ sections where signed is the 96-byte
   header, the 32-byte header MAC (an HMAC over MAC entries of the first section), the 80-byte key blob (which
   unwraps to DEK || MAC under the KEK), the certificate block and -- when flagged -- the SHA-256 of all section bytes;
   the signature obligation covers exactly `signed`; and the sections region is a run of sections each consisting of
   an encrypted header, its HMAC, one HMAC per ciphertext group and the groups themselves (covered). *)
Theorem coverage21 :
  forall (E D : list N -> list N -> list N),
  (forall k b, length (E k b) = 16%nat) -> (forall k b, length b = 16%nat -> D k (E k b) = b) ->
  forall x file, wf_sbin x -> build21_gen E true x = Ok file ->
  exists hb hm kb cbb bs k,
    let signed := hb ++ hm ++ kb ++ cbb ++ (if has_sha (x_flags x) then sha256 bs else []) in
    file = signed ++ x_sig x ++ bs /\
    length hb = 96%nat /\ length hm = 32%nat /\ length kb = 80%nat /\ length cbb = cb_raw_size (x_cb x) /\
    length signed = signed_len_of x /\ length (x_sig x) = x_sigsize x /\
    kw_unwrap (D (x_kek x)) (firstn 72 kb) = Some (x_dek x ++ x_mac x) /\
    hm = hmac256 (x_mac x) (slice bs 16 (48 + 32 * k)) /\
    covered (x_mac x) bs (length (x_secs x)).
Proof. exact coverage21_thm. Qed.
Print Assumptions coverage21.
