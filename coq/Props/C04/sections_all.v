From Coq Require Import ZArith NArith List Bool.
Require Import Value Bytes GenSb2 Sha2 Aes Modes Hmac KeyWrap Crc Sb2Model Sb2Proofs.
Import ListNotations.
Local Open Scope N_scope.

(* C04: the ROM walks ALL sections: as many as were given, with the given ids, in order. *)
Theorem sections_all :
  forall (E D : list N -> list N -> list N),
  (forall k b, length (E k b) = 16%nat) -> (forall k b, length b = 16%nat -> D k (E k b) = b) ->
  forall x file, wf_sbin x -> build21_gen E true x = Ok file ->
  exists r, rom21 E D (x_sigsize x) (x_kek x) file = Some r /\
            length (r_secs r) = length (x_secs x) /\ map fst (r_secs r) = map s_uid (x_secs x).
Proof. exact sections_all_thm. Qed.
Print Assumptions sections_all.
