From Coq Require Import ZArith NArith List Bool.
Require Import Value Bytes GenSb2 GenSb20 Sha2 Aes Modes Hmac KeyWrap Crc Sb2Model Sb20Model Sb2Proofs Sb2AesProofs Sb20Proofs Sb20AesProofs.
Import ListNotations.
Local Open Scope N_scope.

(* C04, SB 2.0: SPSDK's own parser recovers the same content: BootImageV20.parse of the built file (signature verdict
   true for signed images) returns signedness, versions, build number, timestamp (whole seconds), nonce, DEK, MAC and ALL
   sections with ids, MAC counts and command observations of what was exported. *)
Theorem spsdk_parse20_build :
  forall (E D : list N -> list N -> list N),
  (forall k b, length (E k b) = 16%nat) -> (forall k b, length b = 16%nat -> D k (E k b) = b) ->
  forall y file, wf_sb20 y -> bcd3 (y_pv y) = true -> bcd3 (y_cv y) = true -> aes_key_ok (y_kek y) = true ->
  build20_gen E y = Ok file ->
  exists oss, Forall2 sec_obs_rel (y_secs y) oss /\
    parse20 E D true (y_kek y) file =
    Ok (mkParsed20 (y_signed y) (y_pv y) (y_cv y) (y_build y) (y_ts y / 1000000 * 1000000) (y_nonce y) (y_dek y) (y_mac y) oss
                   (length file - length (sigpart y))).
Proof. exact spsdk_parse20_build_thm. Qed.
Print Assumptions spsdk_parse20_build.
