From Coq Require Import ZArith NArith List Bool.
Require Import Value Bytes GenSb2 Sha2 Aes Modes Hmac KeyWrap Crc Sb2Model Sb2Proofs Sb2AesProofs.
Import ListNotations.
Local Open Scope N_scope.

(* C04: the key blob with the concrete AES: for every legal KEK and byte-valued key data of a multiple of 8 bytes,
   RFC 3394 unwrap (wrap data) = data and the blob is 8 bytes longer -- no cipher hypothesis. *)
Theorem keyblob_unwraps_aes :
  forall kek data, aes_key_ok kek = true -> wf_bytes kek -> wf_bytes data -> (length data mod 8 = 0)%nat ->
  length (kw_wrap (sbE kek) data) = (8 + length data)%nat /\ kw_unwrap (sbD kek) (kw_wrap (sbE kek) data) = Some data.
Proof. exact keyblob_unwraps_aes_lemma. Qed.
Print Assumptions keyblob_unwraps_aes.
