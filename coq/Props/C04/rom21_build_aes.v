From Coq Require Import ZArith NArith List Bool.
Require Import Value Bytes GenSb2 Sha2 Aes Modes Hmac KeyWrap Crc Sb2Model Sb2Proofs Sb2AesProofs.
Import ListNotations.
Local Open Scope N_scope.

(* C04 main statement with the concrete AES (no cipher hypothesis): for every well-formed input with a legal KEK
   (16/24/32 bytes) and byte-valued KEK / DEK / MAC, the ROM model running CryptoRef AES decodes the file that the model
   of BootImageV21.export (the one compared byte for byte with SPSDK on every run) builds, and sees exactly what was
   given.  AES invertibility comes from Proofs/CryptoProofs.v (aes_dec_enc). *)
Theorem rom21_build_aes :
  forall x file, wf_sbin x -> aes_keys_ok x -> build21 x = Ok file ->
  exists r, rom21_aes (x_sigsize x) (x_kek x) file = Some r /\
     r_secs r = spec_of (x_secs x) /\ r_flags r = x_flags x /\ r_pv r = x_pv x /\ r_cv r = x_cv x /\
     r_build r = x_build x /\ r_ts r = x_ts x /\ r_major r = 2 /\ r_minor r = 1 /\
     r_sig r = x_sig x /\ r_signed_len r = signed_len_of x.
Proof. exact rom21_build_aes_lemma. Qed.
Print Assumptions rom21_build_aes.
