From Coq Require Import ZArith NArith List Bool.
Require Import Value Bytes GenSb2 Sha2 Aes Modes Hmac KeyWrap Crc Sb2Model Sb2Proofs.
Import ListNotations.
Local Open Scope N_scope.

(* C04: what SPSDK's own parser does recover, for every file the builder returns (all flags, both builders): the key
   blob unwraps, the header parses, the certificate block is skipped by its own length, the section HMACs verify, the
   commands decrypt with the counter taken from the file offset, and the result carries the product and component
   versions, build number, timestamp (whole seconds), nonce, DEK, MAC and the FIRST section's id, MAC count and command
   observations -- and nothing else: one section, flags = the default 0x8008 (C04-F1, see parse21_refuted).  Hence
   `parse (export x)` has the content of x exactly when x has one section and flags 0x8008. *)
Theorem parse21_first_section :
  forall (E D : list N -> list N -> list N),
  (forall k b, length (E k b) = 16%nat) -> (forall k b, length b = 16%nat -> D k (E k b) = b) ->
  forall counted x file,
  wf_sbin x -> bcd3 (x_pv x) = true -> bcd3 (x_cv x) = true -> aes_key_ok (x_kek x) = true ->
  build21_gen E counted x = Ok file ->
  exists s0 rest os cd,
    x_secs x = s0 :: rest /\ cmds_export (s_cmds s0) = Ok cd /\ Forall2 (fun c o => cmd_obs c = Ok o) (s_cmds s0) os /\
    parse21 E D true (x_sigsize x) (x_kek x) file =
    Ok (mkParsed 32776 (x_pv x) (x_cv x) (x_build x) (x_ts x / 1000000 * 1000000) (x_nonce x) (x_dek x) (x_mac x)
                 [(s_uid s0, N.of_nat (sec_hmac_count (s_hmac s0) (length cd)), os)] (signed_len_of x) (x_sigsize x)).
Proof. exact parse21_first_section_thm. Qed.
Print Assumptions parse21_first_section.
