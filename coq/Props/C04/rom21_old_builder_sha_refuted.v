From Coq Require Import ZArith NArith List Bool.
Require Import Value Bytes GenSb2 Sha2 Aes Modes Hmac KeyWrap Crc Sb2Model Sb2Proofs.
Import ListNotations.
Local Open Scope N_scope.

(* C04, history of finding C04-F2 (repaired in /repo): for the builder as it was BEFORE the repair (build21_old: the
   32-byte digest not counted in image_blocks / first_boot_tag_block) there is a well-formed SHA-flagged input whose
   file the ROM rejects, while it accepts the file of the current builder for the same input.  This is a statement
   about the OLD builder only; it documents that the ROM model is sensitive to these header fields. *)
Theorem rom21_old_builder_sha_refuted :
  exists x file, wf_sbin x /\ has_sha (x_flags x) = true /\ build21_old x = Ok file /\
                 rom21_aes (x_sigsize x) (x_kek x) file = None /\
                 (exists file' r, build21 x = Ok file' /\ rom21_aes (x_sigsize x) (x_kek x) file' = Some r /\
                                  r_secs r = spec_of (x_secs x)).
Proof. exact rom21_old_builder_sha_refuted_thm. Qed.
Print Assumptions rom21_old_builder_sha_refuted.
