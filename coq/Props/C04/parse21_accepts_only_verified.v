From Coq Require Import ZArith NArith List Bool.
Require Import Value Bytes GenSb2 Sha2 Aes Modes Hmac KeyWrap Crc Sb2Model Sb2Proofs.
Import ListNotations.
Local Open Scope N_scope.

(* C04, wrong KEK / corrupted file, as a reduction (no injectivity assumption on any primitive): whenever
   BootImageV21.parse returns an object for ANY byte string and ANY key -- then the signature verification over the range
   it hands to the certificate block succeeded, the first 72 bytes of the key-blob field unwrapped under that key with
   the RFC 3394 integrity value intact (DEK / MAC of the result are that unwrapped data), and, unless no section was
   returned, the HMAC-SHA256 of the first encrypted section header under the unwrapped MAC key equals the stored one.
   Every other outcome is an error. *)
Theorem parse21_accepts_only_verified :
  forall (E D : list N -> list N -> list N) sig_ok sigsize kek data p,
  parse21 E D sig_ok sigsize kek data = Ok p ->
  sig_ok = true /\
  (exists keys, kw_unwrap (D kek) (firstn (length (slice data 128 208) - 8) (slice data 128 208)) = Some keys /\
                p_dek p = firstn 32 keys /\ p_mac p = skipn 32 keys) /\
  (let i := (p_signed_len p + p_sig_len p)%nat in
   p_secs p = [] \/ eqb_list (slice data (i + 16) (i + 48)) (hmac256 (p_mac p) (slice data i (i + 16))) = true).
Proof. exact parse21_accepts_only_verified_thm. Qed.
Print Assumptions parse21_accepts_only_verified.
