From Coq Require Import ZArith NArith List Bool.
Require Import Value Bytes GenSb2 Sha2 Aes Modes Hmac KeyWrap Crc Sb2Model Sb2Proofs.
Import ListNotations.
Local Open Scope N_scope.

(* C04: SPSDK's own parser recovers the same content.  For every well-formed input (BCD versions, legal KEK length) the
   parser applied to the built file -- signature verdict true -- returns the flags that were given, product and
   component version, build number, timestamp (whole seconds), nonce, DEK, MAC, and ALL sections: for each given
   section its id, its number of MAC entries and, command for command, the observation of the command object that was
   exported (sec_obs_rel).  Parametric in the cipher; spsdk_parse21_build_aes is the concrete instance. *)
Theorem spsdk_parse21_build :
  forall (E D : list N -> list N -> list N),
  (forall k b, length (E k b) = 16%nat) -> (forall k b, length b = 16%nat -> D k (E k b) = b) ->
  forall x file, wf_sbin x -> bcd3 (x_pv x) = true -> bcd3 (x_cv x) = true -> aes_key_ok (x_kek x) = true ->
  build21_gen E true x = Ok file ->
  exists oss, Forall2 sec_obs_rel (x_secs x) oss /\
    parse21 E D true (x_sigsize x) (x_kek x) file =
    Ok (mkParsed (x_flags x) (x_pv x) (x_cv x) (x_build x) (x_ts x / 1000000 * 1000000) (x_nonce x) (x_dek x) (x_mac x)
                 oss (signed_len_of x) (x_sigsize x)).
Proof. exact spsdk_parse21_build_thm. Qed.
Print Assumptions spsdk_parse21_build.
