From Coq Require Import ZArith NArith List Bool.
Require Import Value Bytes GenSb2 GenSb20 Sha2 Aes Modes Hmac KeyWrap Crc Sb2Model Sb20Model Sb2Proofs Sb2AesProofs Sb20Proofs Sb20AesProofs.
Import ListNotations.
Local Open Scope N_scope.

(* C04, SB 2.0 main statement with the concrete CryptoRef AES: no cipher hypothesis (Proofs/CryptoProofs.v). *)
Theorem rom20_build_aes :
  forall y file, wf_sb20 y -> aes_keys_ok20 y -> build20 y = Ok file ->
  exists r, rom20_aes (y_sigsize y) (y_kek y) file = Some r /\
    t_secs r = spec_of (y_secs y) /\ t_signed r = y_signed y /\ t_pv r = y_pv y /\ t_cv r = y_cv y /\
    t_build r = y_build y /\ t_ts r = y_ts y /\ t_sig r = sigpart y /\
    file = firstn (t_signed_len r) file ++ sigpart y /\ length (firstn (t_signed_len r) file) = t_signed_len r /\
    t_boot_index r = 0%nat /\ hdr_first_boot_section_id file = option_map s_uid (hd_error (y_secs y)).
Proof. exact rom20_build_aes_thm. Qed.
Print Assumptions rom20_build_aes.
