From Coq Require Import ZArith NArith List Bool.
Require Import Value Bytes GenSb2 Sha2 Aes Modes Hmac KeyWrap Crc Sb2Model Sb2Proofs.
Import ListNotations.
Local Open Scope N_scope.

(* C04: the container layouts the ROM model is written against (hand-written from the format description) are the
   struct formats extracted from the current source of CmdHeader, ImageHeaderV2 and CertBlockHeader. *)
Theorem layouts_agree :
  rom_cmdhdr_layout = cmdhdr_format /\ rom_imghdr_layout = imghdr_format /\ rom_certhdr_layout = certhdr_format.
Proof. exact layouts_agree_thm. Qed.
Print Assumptions layouts_agree.
