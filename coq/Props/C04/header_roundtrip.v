From Coq Require Import ZArith NArith List Bool.
Require Import Value Bytes GenSb2 Sha2 Aes Modes Hmac KeyWrap Crc Sb2Model Sb2Proofs.
Import ListNotations.
Local Open Scope N_scope.

(* C04: ImageHeaderV2.parse (export h ++ anything) = h for every header that exports, with BCD product and component
   versions (independent of each other), build number, flags, block counts, timestamp, nonce and padding. *)
Theorem header_roundtrip :
  forall h hb rest, ihdr_export h = Ok hb -> bcd3 (ih_pv h) = true -> bcd3 (ih_cv h) = true ->
  length hb = 96%nat /\ ihdr_parse (hb ++ rest) = Ok h.
Proof. exact header_roundtrip_thm. Qed.
Print Assumptions header_roundtrip.
