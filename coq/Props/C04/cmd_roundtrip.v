From Coq Require Import ZArith NArith List Bool.
Require Import Value Bytes GenSb2 Sha2 Aes Modes Hmac KeyWrap Crc Sb2Model Sb2Proofs.
Import ListNotations.
Local Open Scope N_scope.

(* C04: for every well-formed command of each of the 13 types, parse_command applied to the exported bytes (followed by
   anything) returns exactly the observation (header fields, payload, memory id) of the object that was exported and
   consumes exactly the exported bytes; exports are whole 16-byte blocks. *)
Theorem cmd_roundtrip :
  forall c, wf_cmd c = true ->
  exists b o, cmd_export c = Ok b /\ cmd_obs c = Ok o /\ (16 <= length b)%nat /\ (length b mod 16 = 0)%nat /\
              pcmd_size o = length b /\ forall rest, cmd_parse (b ++ rest) = Ok o.
Proof. exact cmd_roundtrip_thm. Qed.
Print Assumptions cmd_roundtrip.
