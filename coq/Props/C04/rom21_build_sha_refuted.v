From Coq Require Import ZArith NArith List Bool.
Require Import Value Bytes GenSb2 Sha2 Aes Modes Hmac KeyWrap Crc Sb2Model Sb2Proofs.
Import ListNotations.
Local Open Scope N_scope.

(* C04, known finding C04-F2 (the full statement `rom21 (build21 x) = Some ...` for ALL flags is false on this tree):
   there is a well-formed input with the SHA-256 bit for which the ROM (AES instance, evaluated by the kernel) rejects
   the file BootImageV21.export builds -- image_blocks / first_boot_tag_block do not count the digest -- while it accepts
   the file of the builder that counts it. *)
Theorem rom21_build_sha_refuted :
  exists x file, wf_sbin x /\ has_sha (x_flags x) = true /\ build21 x = Ok file /\
                 rom21_aes (x_sigsize x) (x_kek x) file = None /\
                 (exists file' r, build21_fixed x = Ok file' /\ rom21_aes (x_sigsize x) (x_kek x) file' = Some r /\
                                  r_secs r = spec_of (x_secs x)).
Proof. exact rom21_build_sha_refuted_thm. Qed.
Print Assumptions rom21_build_sha_refuted.
