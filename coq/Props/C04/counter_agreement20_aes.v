From Coq Require Import ZArith NArith List Bool.
Require Import Value Bytes GenSb2 GenSb20 Sha2 Aes Modes Hmac KeyWrap Crc Sb2Model Sb20Model Sb2Proofs Sb2AesProofs Sb20Proofs Sb20AesProofs.
Import ListNotations.
Local Open Scope N_scope.

(* C04, SB 2.0 counter agreement for the concrete AES builder / ROM. *)
Theorem counter_agreement20_aes :
  forall y file, wf_sb20 y -> aes_keys_ok20 y -> build20 y = Ok file ->
  exists pre bs, file = pre ++ bs ++ sigpart y /\ (length pre mod 16 = 0)%nat /\
    (y_signed y = true -> exists hp, length hp = 16%nat /\
        slice pre 208 224 = xblock (sbE (y_dek y)) (y_nonce y) (ctr_of_nonce (y_nonce y) + N.of_nat (208 / 16)) hp) /\
    secs_export (sbE (y_dek y)) (y_mac y) (y_nonce y) (ctr_of_nonce (y_nonce y) + N.of_nat (length pre / 16)) (y_secs y) = Ok bs /\
    rom_sections (sbE (y_dek y)) (S (length file)) (y_mac y) (y_nonce y) (pre ++ bs) (length pre) (length pre + length bs)
      = Some (spec_of (y_secs y)).
Proof. exact counter_agreement20_aes_thm. Qed.
Print Assumptions counter_agreement20_aes.
