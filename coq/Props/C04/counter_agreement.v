From Coq Require Import ZArith NArith List Bool.
Require Import Value Bytes GenSb2 Sha2 Aes Modes Hmac KeyWrap Crc Sb2Model Sb2Proofs.
Import ListNotations.
Local Open Scope N_scope.

(* C04: the builder's running counter and the ROM's offset-derived counter agree: in every file the builder returns,
   the boot sections start at a 16-byte aligned offset, they were encrypted with the running counter started at
   nonce[12:16] + offset/16 (SHA-256 digest included in the offset when flagged), and the ROM's section walk, which
   computes every block counter as nonce[12:16] + (file offset)/16, decodes all of them. *)
Theorem counter_agreement :
  forall (E D : list N -> list N -> list N),
  (forall k b, length (E k b) = 16%nat) -> (forall k b, length b = 16%nat -> D k (E k b) = b) ->
  forall x file, wf_sbin x -> build21_gen E true x = Ok file ->
  exists pre bs, file = pre ++ bs /\ (length pre mod 16 = 0)%nat /\
    secs_export (E (x_dek x)) (x_mac x) (x_nonce x) (ctr_of_nonce (x_nonce x) + N.of_nat (length pre / 16)) (x_secs x) = Ok bs /\
    rom_sections (E (x_dek x)) (S (length file)) (x_mac x) (x_nonce x) file (length pre) (length file) = Some (spec_of (x_secs x)).
Proof. exact counter_agreement_thm. Qed.
Print Assumptions counter_agreement.
