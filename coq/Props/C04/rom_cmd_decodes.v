From Coq Require Import ZArith NArith List Bool.
Require Import Value Bytes GenSb2 Sha2 Aes Modes Hmac KeyWrap Crc Sb2Model Sb2Proofs.
Import ListNotations.
Local Open Scope N_scope.

(* C04: the ROM's command decoder (written from the container format: checksum seeded 0x5A, tag, flags with device id
   in bits 15..8 and group id in bits 7..4, LOAD payload padded to 16 with CRC-32/MPEG-2) sees, for every well-formed
   builder command, exactly the command that was meant (sem), and advances by exactly the exported length. *)
Theorem rom_cmd_decodes :
  forall c, wf_cmd c = true ->
  exists b, cmd_export c = Ok b /\ forall rest, rom_cmd (b ++ rest) = Some (sem c, length b).
Proof. exact rom_cmd_decodes_thm. Qed.
Print Assumptions rom_cmd_decodes.
