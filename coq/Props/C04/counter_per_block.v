From Coq Require Import ZArith NArith List Bool.
Require Import Value Bytes GenSb2 Sha2 Aes Modes Hmac KeyWrap Crc Sb2Model Sb2Proofs.
Import ListNotations.
Local Open Scope N_scope.

(* C04: the counter of every single block.  A section exported with running counter ctr consists of the encrypted
   header (block 0, counter ctr), its HMAC (blocks 1-2), the MAC table (2 blocks per entry) and the encrypted commands;
   command block j -- which sits 3 + 2*|table| + j blocks after the section start -- is the plaintext block XOR
   E(DEK, nonce[0:12] ++ LE32(ctr + 3 + 2*|table| + j)).  With ctr = nonce[12:16] + (section offset)/16
   (counter_agreement) every block counter is nonce[12:16] + (file offset of the block)/16. *)
Theorem counter_per_block :
  forall (ek : list N -> list N), (forall b, length (ek b) = 16%nat) ->
  forall mac nonce ctr s b,
  forallb wf_cmd (s_cmds s) = true -> sec_export ek mac nonce ctr s = Ok b ->
  exists hplain cd gs,
    cmds_export (s_cmds s) = Ok cd /\ length hplain = 16%nat /\
    b = xblock ek nonce ctr hplain ++ hmac256 mac (xblock ek nonce ctr hplain) ++ concat (map (hmac256 mac) gs) ++ concat gs /\
    length (concat gs) = length cd /\
    forall j, (j < length cd / 16)%nat ->
      nth j (chunks 16 (concat gs)) [] = xblock ek nonce (ctr + N.of_nat (3 + 2 * length gs + j)) (nth j (chunks 16 cd) []).
Proof. exact counter_per_block_thm. Qed.
Print Assumptions counter_per_block.
