From Coq Require Import ZArith NArith List Bool.
Require Import Value Bytes GenSb2 Sha2 Aes Modes Hmac KeyWrap Crc Sb2Model Sb2Proofs.
Import ListNotations.
Local Open Scope N_scope.

(* C04: RFC 3394 -- for any keyed block function pair with D (E b) = b on 16-byte blocks, unwrapping the wrapped key
   data returns it (so the ROM holding the same KEK recovers DEK || MAC), and the wrapped blob is 8 bytes longer. *)
Theorem keyblob_unwraps :
  forall (E D : list N -> list N),
  (forall b, length (E b) = 16%nat) -> (forall b, length b = 16%nat -> D (E b) = b) ->
  forall data, (length data mod 8 = 0)%nat ->
  length (kw_wrap E data) = (8 + length data)%nat /\ kw_unwrap D (kw_wrap E data) = Some data.
Proof. exact keyblob_unwraps_thm. Qed.
Print Assumptions keyblob_unwraps.
