From Coq Require Import ZArith NArith List Bool.
Require Import Value Bytes GenSb2 Sha2 Aes Modes Hmac KeyWrap Crc Sb2Model Sb2Proofs Sb2AesProofs.
Import ListNotations.
Local Open Scope N_scope.

(* C04: SPSDK's own parser recovers the same content -- concrete AES, no cipher hypothesis. *)
Theorem spsdk_parse21_build_aes :
  forall x file, wf_sbin x -> aes_keys_ok x -> bcd3 (x_pv x) = true -> bcd3 (x_cv x) = true -> build21 x = Ok file ->
  exists oss, Forall2 sec_obs_rel (x_secs x) oss /\
    spsdk_parse21 true (x_sigsize x) (x_kek x) file =
    Ok (mkParsed (x_flags x) (x_pv x) (x_cv x) (x_build x) (x_ts x / 1000000 * 1000000) (x_nonce x) (x_dek x) (x_mac x)
                 oss (signed_len_of x) (x_sigsize x)).
Proof. exact spsdk_parse21_build_aes_lemma. Qed.
Print Assumptions spsdk_parse21_build_aes.
