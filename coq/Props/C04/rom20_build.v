From Coq Require Import ZArith NArith List Bool.
Require Import Value Bytes GenSb2 GenSb20 Sha2 Aes Modes Hmac KeyWrap Crc Sb2Model Sb20Model Sb2Proofs Sb2AesProofs Sb20Proofs Sb20AesProofs.
Import ListNotations.
Local Open Scope N_scope.

(* C04, Secure Binary 2.0 main statement (signed, flags 0x08, and unsigned, flags 0x04): for every well-formed input the
   ROM holding the same KEK processes the file BootImageV20.export builds -- key blob unwraps, the header MAC
   authenticates the 96 header bytes, for signed images the certificate section (header encrypted with block counter
   13, its MAC, the MAC of the clear certificate block) is accepted, every boot section MAC verifies, counters come from
   file offsets -- and sees, section for section and command for command, what was given; versions, build number,
   timestamp and signedness read back are the values supplied; the signature obligation is the given signature over
   EVERYTHING before it (file = signed range ++ signature), nothing for unsigned images; the header's first_boot_section_id is the first
   section's id and the ROM, which starts at the section carrying that id, starts with the first one (boot index 0).
   Parametric in the block cipher; rom20_build_aes is the concrete instance. *)
Theorem rom20_build :
  forall (E D : list N -> list N -> list N),
  (forall k b, length (E k b) = 16%nat) -> (forall k b, length b = 16%nat -> D k (E k b) = b) ->
  forall y file, wf_sb20 y -> build20_gen E y = Ok file ->
  exists r, rom20 E D (y_sigsize y) (y_kek y) file = Some r /\
    t_secs r = spec_of (y_secs y) /\ t_signed r = y_signed y /\ t_pv r = y_pv y /\ t_cv r = y_cv y /\
    t_build r = y_build y /\ t_ts r = y_ts y /\ t_sig r = sigpart y /\
    file = firstn (t_signed_len r) file ++ sigpart y /\ length (firstn (t_signed_len r) file) = t_signed_len r /\
    t_boot_index r = 0%nat /\ hdr_first_boot_section_id file = option_map s_uid (hd_error (y_secs y)).
Proof. exact rom20_build_thm. Qed.
Print Assumptions rom20_build.
