From Coq Require Import ZArith NArith List Bool.
Require Import Value Bytes GenSb2 Sha2 Aes Modes Hmac KeyWrap Crc Sb2Model Sb2Proofs.
Import ListNotations.
Local Open Scope N_scope.

(* C04: a whole command list (any length, any mix of the 13 types): SPSDK's section parser loop and the ROM decoder
   both recover it, command for command, from the concatenated export. *)
Theorem cmd_stream_roundtrip :
  forall cs, forallb wf_cmd cs = true ->
  exists bs os, cmds_export cs = Ok bs /\ (length bs mod 16 = 0)%nat /\
                Forall2 (fun c o => cmd_obs c = Ok o) cs os /\
                cmds_parse (S (length bs)) bs = Ok os /\ rom_cmds (S (length bs)) bs = Some (map sem cs).
Proof. exact cmd_stream_roundtrip_thm. Qed.
Print Assumptions cmd_stream_roundtrip.
