From Coq Require Import ZArith NArith List Bool.
Require Import Value Bytes GenSb2 GenSb20 Sha2 Aes Modes Hmac KeyWrap Crc Sb2Model Sb20Model Sb2Proofs Sb2AesProofs Sb20Proofs Sb20AesProofs.
Import ListNotations.
Local Open Scope N_scope.

(* C04, SB 2.1: first boot section located by id -- concrete AES, no cipher hypothesis. *)
Theorem rom21_first_boot_section_aes :
  forall x file, wf_sbin x -> aes_keys_ok x -> build21 x = Ok file ->
  exists r, rom21_boot_aes (x_sigsize x) (x_kek x) file = Some (r, 0%nat) /\
     r_secs r = spec_of (x_secs x) /\ r_flags r = x_flags x /\ r_pv r = x_pv x /\ r_cv r = x_cv x /\
     r_build r = x_build x /\ r_ts r = x_ts x /\ r_major r = 2 /\ r_minor r = 1 /\
     r_sig r = x_sig x /\ r_signed_len r = signed_len_of x /\
     hdr_first_boot_section_id file = option_map s_uid (hd_error (x_secs x)).
Proof. exact rom21_first_boot_section_aes_thm. Qed.
Print Assumptions rom21_first_boot_section_aes.
