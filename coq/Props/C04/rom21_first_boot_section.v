From Coq Require Import ZArith NArith List Bool.
Require Import Value Bytes GenSb2 GenSb20 Sha2 Aes Modes Hmac KeyWrap Crc Sb2Model Sb20Model Sb2Proofs Sb2AesProofs Sb20Proofs Sb20AesProofs.
Import ListNotations.
Local Open Scope N_scope.

(* C04, SB 2.1: the header's first_boot_section_id is the id of the first section given, and the ROM that -- on top of all
   checks of rom21 -- locates the section to start with by that id (rejecting the file when no section carries it)
   starts with the first section: boot index 0, and everything rom21_build states. Parametric in the cipher. *)
Theorem rom21_first_boot_section :
  forall (E D : list N -> list N -> list N),
  (forall k b, length (E k b) = 16%nat) -> (forall k b, length b = 16%nat -> D k (E k b) = b) ->
  forall x file, wf_sbin x -> build21_gen E true x = Ok file ->
  exists r, rom21_boot E D (x_sigsize x) (x_kek x) file = Some (r, 0%nat) /\
     r_secs r = spec_of (x_secs x) /\ r_flags r = x_flags x /\ r_pv r = x_pv x /\ r_cv r = x_cv x /\
     r_build r = x_build x /\ r_ts r = x_ts x /\ r_major r = 2 /\ r_minor r = 1 /\
     r_sig r = x_sig x /\ r_signed_len r = signed_len_of x /\
     hdr_first_boot_section_id file = option_map s_uid (hd_error (x_secs x)).
Proof. exact rom21_first_boot_section_thm. Qed.
Print Assumptions rom21_first_boot_section.
