From Coq Require Import ZArith NArith List Bool.
Require Import Value Bytes GenSb2 Sha2 Aes Modes Hmac KeyWrap Crc Sb2Model Sb2Proofs.
Import ListNotations.
Local Open Scope N_scope.

(* C04 main statement for the code as it is (build21_gen E false = BootImageV21.export, defect C04-F2 included), outside
   the known class: for every well-formed input whose flags do not carry the SHA-256 bit, the ROM holding the same KEK
   processes the file -- key blob unwraps, header MAC, every section MAC, counters from file offsets, checksums, CRCs --
   and sees, section for section and command for command, what was given; the header fields read back are the values
   supplied; the signature obligation it emits is x_sig over exactly the first signed_len_of x bytes.
   The block cipher is any pair with D k (E k b) = b (AES is the executable instance). *)
Theorem rom21_build_except_known :
  forall (E D : list N -> list N -> list N),
  (forall k b, length (E k b) = 16%nat) -> (forall k b, length b = 16%nat -> D k (E k b) = b) ->
  forall x file, wf_sbin x -> has_sha (x_flags x) = false -> build21_gen E false x = Ok file ->
  exists r, rom21 E D (x_sigsize x) (x_kek x) file = Some r /\
     r_secs r = spec_of (x_secs x) /\ r_flags r = x_flags x /\ r_pv r = x_pv x /\ r_cv r = x_cv x /\
     r_build r = x_build x /\ r_ts r = x_ts x /\ r_major r = 2 /\ r_minor r = 1 /\
     r_sig r = x_sig x /\ r_signed_len r = signed_len_of x.
Proof. exact rom21_build_except_known_thm. Qed.
Print Assumptions rom21_build_except_known.
