From Coq Require Import ZArith NArith List Bool.
Require Import Value Bytes GenSb2 Sha2 Aes Modes Hmac KeyWrap Crc Sb2Model Sb2Proofs Sb2AesProofs.
Import ListNotations.
Local Open Scope N_scope.

(* C04: counter agreement for the concrete AES builder / ROM (no cipher hypothesis). *)
Theorem counter_agreement_aes :
  forall x file, wf_sbin x -> aes_keys_ok x -> build21 x = Ok file ->
  exists pre bs, file = pre ++ bs /\ (length pre mod 16 = 0)%nat /\
    secs_export (sbE (x_dek x)) (x_mac x) (x_nonce x) (ctr_of_nonce (x_nonce x) + N.of_nat (length pre / 16)) (x_secs x) = Ok bs /\
    rom_sections (sbE (x_dek x)) (S (length file)) (x_mac x) (x_nonce x) file (length pre) (length file) = Some (spec_of (x_secs x)).
Proof. exact counter_agreement_aes_lemma. Qed.
Print Assumptions counter_agreement_aes.
