From Coq Require Import ZArith NArith List Bool.
Require Import Value Bytes GenSb2 GenSb20 Sha2 Aes Modes Hmac KeyWrap Crc Sb2Model Sb20Model Sb2Proofs Sb2AesProofs Sb20Proofs Sb20AesProofs.
Import ListNotations.
Local Open Scope N_scope.

(* C04, SB 2.0 coverage: every byte of a built file is the header (96), the HMAC of exactly those 96 bytes (32), the key
   blob (72, unwraps to DEK || MAC) and its 8 padding bytes, for signed images the certificate section (encrypted
   header, its HMAC, the HMAC of the certificate block, the certificate block), the boot sections (covered: encrypted
   header, its HMAC, one HMAC per ciphertext group, the groups), and for signed images the signature, which by rom20_build
   is over everything before it. *)
Theorem coverage20 :
  forall (E D : list N -> list N -> list N),
  (forall k b, length (E k b) = 16%nat) -> (forall k b, length b = 16%nat -> D k (E k b) = b) ->
  forall y file, wf_sb20 y -> build20_gen E y = Ok file ->
  exists hb kb0 csb bs,
    file = hb ++ hmac256 (y_mac y) hb ++ (kb0 ++ y_pad2 y) ++ csb ++ bs ++ sigpart y /\
    length hb = 96%nat /\ length kb0 = 72%nat /\ length (y_pad2 y) = 8%nat /\
    kw_unwrap (D (y_kek y)) kb0 = Some (y_dek y ++ y_mac y) /\
    (if y_signed y
     then exists ench cbb, length ench = 16%nat /\ length cbb = cb_raw_size (y_cb y) /\
                           csb = ench ++ hmac256 (y_mac y) ench ++ hmac256 (y_mac y) cbb ++ cbb
     else csb = []) /\
    covered (y_mac y) bs (length (y_secs y)) /\
    length (sigpart y) = (if y_signed y then y_sigsize y else 0%nat).
Proof. exact coverage20_thm. Qed.
Print Assumptions coverage20.
