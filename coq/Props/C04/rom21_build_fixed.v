From Coq Require Import ZArith NArith List Bool.
Require Import Value Bytes GenSb2 Sha2 Aes Modes Hmac KeyWrap Crc Sb2Model Sb2Proofs.
Import ListNotations.
Local Open Scope N_scope.

(* C04 main statement at full strength (all flags, with and without the SHA-256 bit) for the builder with the 32-byte
   digest counted in image_blocks / first_boot_tag_block (build21_gen E true: the proposed repair of C04-F2).  It shows
   that the ROM model accepts SHA-flagged files when the header describes them, i.e. rom21_build_sha_refuted below is
   caused by the header fields and by nothing else. *)
Theorem rom21_build_fixed :
  forall (E D : list N -> list N -> list N),
  (forall k b, length (E k b) = 16%nat) -> (forall k b, length b = 16%nat -> D k (E k b) = b) ->
  forall x file, wf_sbin x -> build21_gen E true x = Ok file ->
  exists r, rom21 E D (x_sigsize x) (x_kek x) file = Some r /\
     r_secs r = spec_of (x_secs x) /\ r_flags r = x_flags x /\ r_pv r = x_pv x /\ r_cv r = x_cv x /\
     r_build r = x_build x /\ r_ts r = x_ts x /\ r_major r = 2 /\ r_minor r = 1 /\
     r_sig r = x_sig x /\ r_signed_len r = signed_len_of x.
Proof. exact rom21_build_fixed_thm. Qed.
Print Assumptions rom21_build_fixed.
