From Coq Require Import ZArith NArith List Bool.
Require Import Value Bytes GenSb2 Sha2 Aes Modes Hmac KeyWrap Crc Sb2Model Sb2Proofs.
Import ListNotations.
Local Open Scope N_scope.

(* C04: the MAC table of a section: the n ciphertext groups partition the encrypted commands (nothing is left outside
   a MAC), and the ROM's check of the table built by the builder succeeds. *)
Theorem hmac_groups_cover :
  forall mac n per body, (0 < n)%nat ->
  concat (hmac_groups n per body) = body /\ length (hmac_groups n per body) = n /\
  rom_groups_ok mac n per body (concat (map (hmac256 mac) (hmac_groups n per body))) = true.
Proof. exact hmac_groups_cover_thm. Qed.
Print Assumptions hmac_groups_cover.
