From Coq Require Import ZArith NArith List Bool.
Require Import Value Bytes GenSb2 Sha2 Aes Modes Hmac KeyWrap Crc Sb2Model Sb2Proofs.
Import ListNotations.
Local Open Scope N_scope.

(* C04: one boot section.  Whatever the builder's running counter ctr is, if the section lands in the file at a
   16-byte aligned offset off with ctr = nonce counter + off/16, the ROM -- which derives every block counter from the
   file offset -- accepts the header MAC and the MAC table, decrypts, and decodes exactly the commands given. *)
Theorem rom_section_decodes :
  forall (ek : list N -> list N), (forall b, length (ek b) = 16%nat) ->
  forall mac nonce ctr s b,
  forallb wf_cmd (s_cmds s) = true -> sec_export ek mac nonce ctr s = Ok b ->
  (48 <= length b)%nat /\ (length b mod 16 = 0)%nat /\
  forall pre post off,
    length pre = off -> (off mod 16 = 0)%nat -> ctr = ctr_of_nonce nonce + N.of_nat (off / 16) ->
    rom_section ek mac nonce (pre ++ b ++ post) off = Some (s_uid s, map sem (s_cmds s), length b).
Proof. exact rom_section_decodes_thm. Qed.
Print Assumptions rom_section_decodes.
