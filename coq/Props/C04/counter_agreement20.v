From Coq Require Import ZArith NArith List Bool.
Require Import Value Bytes GenSb2 GenSb20 Sha2 Aes Modes Hmac KeyWrap Crc Sb2Model Sb20Model Sb2Proofs Sb2AesProofs Sb20Proofs Sb20AesProofs.
Import ListNotations.
Local Open Scope N_scope.

(* C04, SB 2.0 counter agreement: the boot sections start at a 16-byte aligned offset and were encrypted with the running
   counter nonce[12:16] + offset/16 (the certificate section of a signed image lies in between and its header is
   encrypted with nonce[12:16] + 208/16); the ROM's offset-derived walk decodes all sections. *)
Theorem counter_agreement20 :
  forall (E D : list N -> list N -> list N),
  (forall k b, length (E k b) = 16%nat) -> (forall k b, length b = 16%nat -> D k (E k b) = b) ->
  forall y file, wf_sb20 y -> build20_gen E y = Ok file ->
  exists pre bs, file = pre ++ bs ++ sigpart y /\ (length pre mod 16 = 0)%nat /\
    (y_signed y = true -> exists hp, length hp = 16%nat /\
        slice pre 208 224 = xblock (E (y_dek y)) (y_nonce y) (ctr_of_nonce (y_nonce y) + N.of_nat (208 / 16)) hp) /\
    secs_export (E (y_dek y)) (y_mac y) (y_nonce y) (ctr_of_nonce (y_nonce y) + N.of_nat (length pre / 16)) (y_secs y) = Ok bs /\
    rom_sections (E (y_dek y)) (S (length file)) (y_mac y) (y_nonce y) (pre ++ bs) (length pre) (length pre + length bs)
      = Some (spec_of (y_secs y)).
Proof. exact counter_agreement20_thm. Qed.
Print Assumptions counter_agreement20.
