From Coq Require Import ZArith NArith List Bool Lia.
Require Import Value Bytes GenMisc MiscModel MiscProofs.
Import ListNotations.
Local Open Scope Z_scope.

(* C20 property theorem -- statement only; the proof is one lemma application. *)
Theorem extend_block_only_appends :
  forall d len pad, (forall d2, extend_block d len pad = Ok d2 ->
  exists k, d2 = d ++ repeat (Z.to_N pad) k /\ Z.of_nat (length d2) = len) /\
  (len < Z.of_nat (length d) <-> extend_block d len pad = Err E_REJECT).
Proof. intros d len pad. split; [intros d2; apply extend_block_appends|apply extend_block_rejects]. Qed.
Print Assumptions extend_block_only_appends.
