From Coq Require Import ZArith NArith List Bool Lia.
Require Import Value Bytes GenMisc MiscModel MiscProofs.
Import ListNotations.
Local Open Scope Z_scope.

(* C20 property theorem -- statement only; the proof is one lemma application. *)
Theorem bytes_cnt_width :
  forall v a2n, 0 <= v ->
  py_get_bytes_cnt_of_int (bytes_fuel v) v a2n 0 = Ok (width_spec v a2n) /\
  v < 2 ^ (8 * width_spec v a2n) /\ 0 < width_spec v a2n /\
  (a2n = false -> forall c, 0 < v -> 0 <= c -> v < 2 ^ (8 * c) -> width_spec v false <= c).
Proof. intros v a2n Hv. split; [now apply bytes_cnt_total|]. destruct (width_spec_fits v a2n Hv) as [H1 H2]. repeat split; try assumption. intros _ c Hp Hc Hb. unfold width_spec. replace (v =? 0) with false by lia. cbn. now apply nbytes_minimal. Qed.
Print Assumptions bytes_cnt_width.
