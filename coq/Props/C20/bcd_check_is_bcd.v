From Coq Require Import ZArith NArith List Bool Lia.
Require Import Value Bytes GenMisc MiscModel MiscProofs MiscBcdProofs.
Import ListNotations.
Local Open Scope Z_scope.

(* C20 property theorem -- statement only; the proof is one lemma application. *)
Theorem bcd_check_is_bcd :
  forall v, bcd_check v = true <-> bcd_valid v.
Proof. exact bcd_check_valid. Qed.
Print Assumptions bcd_check_is_bcd.
