From Coq Require Import ZArith NArith List Bool Lia.
Require Import Value Bytes GenMisc MiscModel MiscProofs MiscPatternProofs.
Import ListNotations.
Local Open Scope Z_scope.

(* C20 property theorem -- statement only; the proof is one lemma application. *)
Theorem align_block_padding_is_pattern :
  forall d a p d2, align_block d a p = Ok d2 ->
    exists r, py_align (Z.of_nat (length d)) a = Ok r /\ Z.of_nat (length d) <= r /\
      d2 = d ++ pattern_prefix p (Z.to_nat (r - Z.of_nat (length d))).
Proof. exact align_block_pattern. Qed.
Print Assumptions align_block_padding_is_pattern.
