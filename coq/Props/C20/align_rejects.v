From Coq Require Import ZArith NArith List Bool Lia.
Require Import Value Bytes GenMisc MiscModel MiscProofs.
Import ListNotations.
Local Open Scope Z_scope.

(* C20 property theorem -- statement only; the proof is one lemma application. *)
Theorem align_rejects :
  forall n a, ((exists k, py_align n a = Err k) <-> (a <= 0 \/ n < 0)) /\ (forall k, py_align n a = Err k -> k = E_REJECT).
Proof. intros n a. split; [apply align_err_iff|apply align_err_kind]. Qed.
Print Assumptions align_rejects.
