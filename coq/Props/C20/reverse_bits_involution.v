From Coq Require Import ZArith NArith List Bool Lia.
Require Import Value Bytes GenMisc MiscModel MiscProofs MiscBitsProofs.
Import ListNotations.
Local Open Scope Z_scope.

(* C20 property theorem -- statement only; the proof is one lemma application. *)
Theorem reverse_bits_involution :
  forall x bits, 0 <= bits -> 0 <= x < 2 ^ bits ->
    exists y, reverse_bits x bits = Ok y /\ 0 <= y < 2 ^ bits /\
      (forall i, 0 <= i < bits -> Z.testbit y i = Z.testbit x (bits - 1 - i)) /\
      reverse_bits y bits = Ok x.
Proof. exact reverse_bits_involution_l. Qed.
Print Assumptions reverse_bits_involution.
