From Coq Require Import ZArith NArith List Bool Lia.
Require Import Value Bytes GenMisc MiscModel MiscProofs.
Import ListNotations.
Local Open Scope Z_scope.

(* C20 property theorem -- statement only; the proof is one lemma application. *)
Theorem int_to_bytes_roundtrip :
  forall v cnt big bs, int_to_bytes v cnt big = Ok bs ->
  (if big then be_dec bs else le_dec bs) = Z.to_N v /\ Z.of_nat (length bs) = cnt /\ wf_bytes bs.
Proof. intros. now apply int_to_bytes_roundtrip. Qed.
Print Assumptions int_to_bytes_roundtrip.
