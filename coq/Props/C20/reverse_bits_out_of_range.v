From Coq Require Import ZArith NArith List Bool Lia.
Require Import Value Bytes GenMisc MiscModel MiscProofs MiscBitsProofs.
Import ListNotations.
Local Open Scope Z_scope.

(* C20 property theorem -- statement only; the proof is one lemma application. *)
Theorem reverse_bits_out_of_range :
  forall x bits,
    (0 <= bits -> 2 ^ bits <= x ->
       exists y, reverse_bits x bits = Ok y /\ Z.odd y = true /\
         reverse_bits x bits = reverse_bits x (Z.log2 x + 1) /\
         (reverse_bits y bits = Ok x <-> Z.odd x = true)) /\
    (x < 0 \/ bits < 0 -> reverse_bits x bits = Err 2%N).
Proof. exact reverse_bits_out_of_range_l. Qed.
Print Assumptions reverse_bits_out_of_range.
