From Coq Require Import ZArith NArith List Bool Lia.
Require Import Value Bytes GenMisc MiscModel MiscProofs.
Import ListNotations.
Local Open Scope Z_scope.

(* C20 property theorem -- statement only; the proof is one lemma application. *)
Theorem align_block_only_appends :
  forall d a p d2, align_block d a p = Ok d2 ->
  exists pad r, d2 = d ++ pad /\ py_align (Z.of_nat (length d)) a = Ok r /\ Z.of_nat (length d2) = r.
Proof. intros d a p d2 H. now apply (align_block_appends d a p d2). Qed.
Print Assumptions align_block_only_appends.
