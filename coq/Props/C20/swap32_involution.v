From Coq Require Import ZArith NArith List Bool Lia.
Require Import Value Bytes GenMisc MiscModel MiscProofs.
Import ListNotations.
Local Open Scope Z_scope.

(* C20 property theorem -- statement only; the proof is one lemma application. *)
Theorem swap32_involution :
  forall x, (0 <= x <= 4294967295 -> exists y, swap32 x = Ok y /\ 0 <= y <= 4294967295 /\ swap32 y = Ok x) /\
            (~ (0 <= x <= 4294967295) -> swap32 x = Err E_REJECT).
Proof. intros x. split; [apply swap32_involutive|apply swap32_rejects]. Qed.
Print Assumptions swap32_involution.
