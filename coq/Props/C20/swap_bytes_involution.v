From Coq Require Import ZArith NArith List Bool Lia.
Require Import Value Bytes GenMisc MiscModel MiscProofs.
Import ListNotations.
Local Open Scope Z_scope.

(* C20 property theorem -- statement only; the proof is one lemma application. *)
Theorem swap_bytes_involution :
  forall l, (forall l2, swap_bytes l = Ok l2 -> swap_bytes l2 = Ok l) /\
  (Nat.even (length l) = false -> swap_bytes l = Err E_REJECT).
Proof. intros l. split; [intros l2; apply swap_bytes_involutive|]. intros H. unfold swap_bytes. now rewrite H. Qed.
Print Assumptions swap_bytes_involution.
