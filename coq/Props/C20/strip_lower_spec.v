From Coq Require Import ZArith NArith List Bool Lia.
Require Import Value Bytes GenMisc MiscModel MiscProofs MiscGrammarProofs.
Import ListNotations.
Local Open Scope Z_scope.

(* C20 property theorem -- statement only; the proof is one lemma application. *)
Theorem strip_lower_spec :
  forall s, exists a m b, s = a ++ m ++ b /\ Forall ws a /\ Forall ws b /\
    (forall c m', m = c :: m' -> ~ ws c) /\ (forall c m', m = m' ++ [c] -> ~ ws c) /\
    strip_lower s = map to_lower m.
Proof. exact strip_lower_spec_l. Qed.
Print Assumptions strip_lower_spec.
