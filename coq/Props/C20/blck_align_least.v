From Coq Require Import ZArith NArith List Bool Lia.
Require Import Value Bytes GenMisc MiscModel MiscExtModel MiscBlkModel MiscBlkProofs.
Import ListNotations.
Local Open Scope Z_scope.

(* C20 property theorem (SecBootBlckSize, spsdk/sbfile/misc.py) -- statement only; the proof is one lemma application. *)
Theorem blck_align_least :
  forall n,
  (0 <= n -> exists r, sbb_align n = Ok r /\ n <= r < n + BLOCK_SIZE /\ sbb_is_aligned r = true /\
                       (forall m, n <= m -> sbb_is_aligned m = true -> r <= m)) /\
  (n < 0 -> sbb_align n = Err 1%N).
Proof. exact sbb_align_least_l. Qed.
Print Assumptions blck_align_least.
