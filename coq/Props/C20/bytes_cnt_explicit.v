From Coq Require Import ZArith NArith List Bool Lia.
Require Import Value Bytes GenMisc MiscModel MiscProofs.
Import ListNotations.
Local Open Scope Z_scope.

(* C20 property theorem -- statement only; the proof is one lemma application. *)
Theorem bytes_cnt_explicit :
  forall v a2n bc, 0 <= v -> 0 < bc ->
  py_get_bytes_cnt_of_int (bytes_fuel v) v a2n bc =
    if v =? 0 then Ok bc else if bc <? width_spec v a2n then Err E_REJECT else Ok bc.
Proof. intros. now apply bytes_cnt_with_cnt. Qed.
Print Assumptions bytes_cnt_explicit.
