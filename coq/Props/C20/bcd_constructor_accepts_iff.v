From Coq Require Import ZArith NArith List Bool Lia.
Require Import Value Bytes GenMisc MiscModel MiscExtModel MiscProofs MiscBcdProofs MiscBcdCtorProofs.
Import ListNotations.
Local Open Scope Z_scope.

(* C20 property theorem -- statement only; the proof is one lemma application. *)
Theorem bcd_constructor_accepts_iff :
  forall x y z,
    (bcd_valid x /\ bcd_valid y /\ bcd_valid z -> bcd_new x y z = Ok (x, y, z)) /\
    (~ (bcd_valid x /\ bcd_valid y /\ bcd_valid z) -> bcd_new x y z = Err 1%N) /\
    (forall v, bcd_new x y z = Ok v -> v = (x, y, z) /\ bcd_valid x /\ bcd_valid y /\ bcd_valid z).
Proof. exact bcd_new_iff_l. Qed.
Print Assumptions bcd_constructor_accepts_iff.
