From Coq Require Import ZArith NArith List Bool Lia.
Require Import Value Bytes GenMisc MiscModel MiscProofs MiscBcdProofs.
Import ListNotations.
Local Open Scope Z_scope.

(* C20 property theorem -- statement only; the proof is one lemma application. *)
Theorem bcd_from_str_rejects :
  (forall s, count_occ N.eq_dec s 46%N <> 2%nat -> bcd_from_str s = Err 1%N) /\
  (forall a b c, nodot a -> nodot b -> nodot c ->
     (4 < length a \/ 4 < length b \/ 4 < length c)%nat -> bcd_from_str (dotted a b c) = Err 1%N).
Proof. exact bcd_from_str_rejects_l. Qed.
Print Assumptions bcd_from_str_rejects.
