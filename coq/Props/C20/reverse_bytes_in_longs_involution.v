From Coq Require Import ZArith NArith List Bool Lia.
Require Import Value Bytes GenMisc MiscModel MiscProofs.
Import ListNotations.
Local Open Scope Z_scope.

(* C20 property theorem -- statement only; the proof is one lemma application. *)
Theorem reverse_bytes_in_longs_involution :
  forall l, (forall l2, reverse_bytes_in_longs l = Ok l2 -> reverse_bytes_in_longs l2 = Ok l /\ length l2 = length l) /\
  ((Nat.modulo (length l) 4 <> 0)%nat <-> reverse_bytes_in_longs l = Err E_REJECT).
Proof. intros l. split; [intros l2 H; split; [now apply reverse_bytes_in_longs_involutive|now apply reverse_bytes_in_longs_length]|apply reverse_bytes_in_longs_rejects]. Qed.
Print Assumptions reverse_bytes_in_longs_involution.
