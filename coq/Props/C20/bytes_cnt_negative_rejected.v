From Coq Require Import ZArith NArith List Bool Lia.
Require Import Value Bytes GenMisc MiscModel MiscProofs.
Import ListNotations.
Local Open Scope Z_scope.

(* C20 property theorem -- statement only; the proof is one lemma application. *)
Theorem bytes_cnt_negative_rejected :
  forall fuel v a2n bc, v < 0 -> py_get_bytes_cnt_of_int fuel v a2n bc = Err E_REJECT.
Proof. intros. now apply bytes_cnt_neg_rejected. Qed.
Print Assumptions bytes_cnt_negative_rejected.
