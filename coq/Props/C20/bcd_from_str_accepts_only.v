From Coq Require Import ZArith NArith List Bool Lia.
Require Import Value Bytes GenMisc MiscModel MiscProofs MiscBcdProofs.
Import ListNotations.
Local Open Scope Z_scope.

(* C20 property theorem -- statement only; the proof is one lemma application. *)
Theorem bcd_from_str_accepts_only :
  forall s,
    ((exists v, bcd_from_str s = Ok v) \/ bcd_from_str s = Err 1%N) /\
    (forall x y z, bcd_from_str s = Ok (x, y, z) ->
       bcd_valid x /\ bcd_valid y /\ bcd_valid z /\
       exists a b c, s = dotted a b c /\ nodot a /\ nodot b /\ nodot c /\
         (length a <= 4)%nat /\ (length b <= 4)%nat /\ (length c <= 4)%nat /\
         bcd_num_from_str a = Ok x /\ bcd_num_from_str b = Ok y /\ bcd_num_from_str c = Ok z).
Proof. exact bcd_from_str_accepts_only_l2. Qed.
Print Assumptions bcd_from_str_accepts_only.
