From Coq Require Import ZArith NArith List Bool Lia.
Require Import Value Bytes GenMisc MiscModel MiscProofs.
Import ListNotations.
Local Open Scope Z_scope.

(* C20 property theorem -- statement only; the proof is one lemma application. *)
Theorem align_least :
  forall n a, 0 <= n -> 0 < a ->
  exists r, py_align n a = Ok r /\ n <= r /\ r mod a = 0 /\ r < n + a /\
            (forall m, n <= m -> m mod a = 0 -> r <= m).
Proof. intros n a Hn Ha. destruct (align_ok n a Hn Ha) as (r & H1 & H2 & H3 & H4). exists r. repeat split; try assumption. intros m; now apply (align_least n a r m). Qed.
Print Assumptions align_least.
