From Coq Require Import ZArith NArith List Bool Lia.
Require Import Value Bytes GenMisc MiscModel MiscExtModel MiscProofs MiscBcdProofs MiscBcdCtorProofs.
Import ListNotations.
Local Open Scope Z_scope.

(* C20 property theorem -- statement only; the proof is one lemma application. *)
Theorem bcd_from_str_hex_components :
  forall a b c, hex_str a -> hex_str b -> hex_str c ->
    ((exists v, bcd_from_str (dotted a b c) = Ok v) <-> (dec_str a /\ dec_str b /\ dec_str c)) /\
    (~ (dec_str a /\ dec_str b /\ dec_str c) -> bcd_from_str (dotted a b c) = Err 1%N).
Proof. exact bcd_from_str_hex_components_l. Qed.
Print Assumptions bcd_from_str_hex_components.
