From Coq Require Import ZArith NArith List Bool Lia.
Require Import Value Bytes GenMisc MiscModel MiscProofs.
Import ListNotations.
Local Open Scope Z_scope.

(* C20 property theorem -- statement only; the proof is one lemma application. *)
Theorem value_to_bytes_roundtrip :
  forall v a2n big, 0 <= v ->
  exists bs, value_to_bytes_int v a2n 0 big = Ok bs
   /\ (if big then be_dec bs else le_dec bs) = Z.to_N v
   /\ Z.of_nat (length bs) = width_spec v a2n.
Proof. intros. now apply value_to_bytes_total. Qed.
Print Assumptions value_to_bytes_roundtrip.
