From Coq Require Import ZArith NArith List Bool Lia.
Require Import Value Bytes GenMisc MiscModel MiscProofs MiscGrammarProofs.
Import ListNotations.
Local Open Scope Z_scope.

(* C20 property theorem -- statement only; the proof is one lemma application. *)
Theorem value_to_int_grammar_as_implemented :
  forall s,
    (forall v, value_to_int_str s = Ok v <-> number_grammar_impl (strip_lower s) v) /\
    ((forall v, ~ number_grammar_impl (strip_lower s) v) <-> value_to_int_str s = Err 1%N) /\
    ((exists v, value_to_int_str s = Ok v) \/ value_to_int_str s = Err 1%N).
Proof. exact value_to_int_grammar_as_implemented_l. Qed.
Print Assumptions value_to_int_grammar_as_implemented.
