From Coq Require Import ZArith NArith List Bool Lia.
Require Import Value Bytes GenMisc MiscModel MiscExtModel MiscBlkModel MiscBlkProofs.
Import ListNotations.
Local Open Scope Z_scope.

(* C20 property theorem (SecBootBlckSize, spsdk/sbfile/misc.py) -- statement only; the proof is one lemma application. *)
Theorem blck_num_blocks_exact :
  forall s k, sbb_to_num_blocks s = Ok k <-> s = BLOCK_SIZE * k.
Proof. exact sbb_to_num_blocks_iff_l. Qed.
Print Assumptions blck_num_blocks_exact.
