From Coq Require Import ZArith NArith List Bool Lia.
Require Import Value Bytes GenMisc MiscModel MiscProofs MiscGrammarProofs.
Import ListNotations.
Local Open Scope Z_scope.

(* C20 property theorem -- statement only; the proof is one lemma application. *)
Theorem value_to_bytes_str_grammar :
  forall s a2n big,
    (forall v, number_grammar_impl (strip_lower s) v ->
       exists bs, value_to_bytes_str s a2n 0 big = Ok bs
         /\ (if big then be_dec bs else le_dec bs) = Z.to_N v
         /\ Z.of_nat (length bs) = width_spec v a2n) /\
    ((forall v, ~ number_grammar_impl (strip_lower s) v) ->
       forall bc, value_to_bytes_str s a2n bc big = Err 1%N).
Proof. exact value_to_bytes_str_grammar_l2. Qed.
Print Assumptions value_to_bytes_str_grammar.
