From Coq Require Import ZArith NArith List Bool Lia.
Require Import Value Bytes GenMisc MiscModel MiscExtModel MiscBlkModel MiscBlkProofs.
Import ListNotations.
Local Open Scope Z_scope.

(* C20 property theorem (SecBootBlckSize, spsdk/sbfile/misc.py) -- statement only; the proof is one lemma application. *)
Theorem blck_align_then_blocks_is_ceiling :
  forall n, 0 <= n ->
  exists r k, sbb_align n = Ok r /\ sbb_to_num_blocks r = Ok k /\ BLOCK_SIZE * (k - 1) < n <= BLOCK_SIZE * k.
Proof. exact sbb_align_num_blocks_l. Qed.
Print Assumptions blck_align_then_blocks_is_ceiling.
