From Coq Require Import ZArith NArith List Bool Lia.
Require Import Value Bytes GenMisc MiscModel MiscExtModel MiscBlkModel MiscBlkProofs.
Import ListNotations.
Local Open Scope Z_scope.

(* C20 property theorem (SecBootBlckSize, spsdk/sbfile/misc.py) -- statement only; the proof is one lemma application. *)
Theorem blck_fill_zeros_only_appends :
  forall d, exists npad, sbb_align_block_fill_zeros d = Ok (d ++ repeat 0%N npad) /\ (npad < 16)%nat /\
               sbb_is_aligned (Z.of_nat (length d + npad)) = true /\
               (sbb_is_aligned (Z.of_nat (length d)) = true -> npad = 0%nat).
Proof. exact sbb_fill_zeros_l. Qed.
Print Assumptions blck_fill_zeros_only_appends.
