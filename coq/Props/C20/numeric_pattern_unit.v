From Coq Require Import ZArith NArith List Bool Lia.
Require Import Value Bytes GenMisc MiscModel MiscProofs MiscPatternProofs.
Import ListNotations.
Local Open Scope Z_scope.

(* C20 property theorem -- statement only; the proof is one lemma application. *)
Theorem numeric_pattern_unit :
  forall v, 0 <= v ->
    value_to_bytes_int v false 0 true = Ok (num_unit v) /\ be_dec (num_unit v) = Z.to_N v /\
    (0 < length (num_unit v))%nat /\
    (forall c, 0 <= c -> v < 2 ^ (8 * c) -> v <> 0 -> Z.of_nat (length (num_unit v)) <= c).
Proof. exact num_unit_spec. Qed.
Print Assumptions numeric_pattern_unit.
