From Coq Require Import ZArith NArith List Bool Lia.
Require Import Value Bytes GenMisc MiscModel MiscProofs.
Import ListNotations.
Local Open Scope Z_scope.

(* C20 property theorem -- statement only; the proof is one lemma application. *)
Theorem change_endianness_involution :
  forall l l2, change_endianness l = Ok l2 -> change_endianness l2 = Ok l.
Proof. intros. now apply change_endianness_involutive. Qed.
Print Assumptions change_endianness_involution.
