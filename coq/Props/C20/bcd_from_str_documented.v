From Coq Require Import ZArith NArith List Bool Lia.
Require Import Value Bytes GenMisc MiscModel MiscProofs MiscBcdProofs.
Import ListNotations.
Local Open Scope Z_scope.

(* C20 property theorem -- statement only; the proof is one lemma application. *)
Theorem bcd_from_str_documented :
  forall a b c, dec_str a -> dec_str b -> dec_str c ->
    bcd_from_str (dotted a b c) = Ok (bcd_read a, bcd_read b, bcd_read c) /\
    bcd_valid (bcd_read a) /\ bcd_valid (bcd_read b) /\ bcd_valid (bcd_read c) /\
    (canonical a -> canonical b -> canonical c ->
       bcd_to_str (bcd_read a, bcd_read b, bcd_read c) = dotted a b c).
Proof. exact bcd_from_str_documented_l. Qed.
Print Assumptions bcd_from_str_documented.
