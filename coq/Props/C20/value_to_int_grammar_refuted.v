From Coq Require Import ZArith NArith List Bool Lia.
Require Import Value Bytes GenMisc MiscModel MiscProofs MiscGrammarProofs.
Import ListNotations.
Local Open Scope Z_scope.

(* C20 property theorem -- statement only; the proof is one lemma application. *)
Theorem value_to_int_grammar_refuted :
  exists s v, value_to_int_str s = Ok v /\ dup_prefix_class (strip_lower s) /\
              forall v', ~ number_grammar (strip_lower s) v'.
Proof. exact value_to_int_grammar_refuted_l. Qed.
Print Assumptions value_to_int_grammar_refuted.
