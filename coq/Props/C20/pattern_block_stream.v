From Coq Require Import ZArith NArith List Bool Lia.
Require Import Value Bytes GenMisc MiscModel MiscProofs MiscPatternProofs.
Import ListNotations.
Local Open Scope Z_scope.

(* C20 property theorem -- statement only; the proof is one lemma application. *)
Theorem pattern_block_stream :
  forall p n,
    (pattern_defined p -> pattern_block p n = Ok (pattern_prefix p n)) /\
    (~ pattern_defined p -> pattern_block p n = Err 1%N).
Proof. exact pattern_block_spec_l. Qed.
Print Assumptions pattern_block_stream.
