From Coq Require Import ZArith NArith List Bool Lia.
Require Import Value Bytes GenMisc MiscModel MiscProofs MiscPatternProofs.
Import ListNotations.
Local Open Scope Z_scope.

(* C20 property theorem -- statement only; the proof is one lemma application. *)
Theorem align_block_total :
  forall d a p,
    (0 < a -> pattern_defined p ->
       exists r, py_align (Z.of_nat (length d)) a = Ok r /\
         align_block d a p = Ok (d ++ pattern_prefix p (Z.to_nat (r - Z.of_nat (length d)))) /\
         Z.of_nat (length d) <= r < Z.of_nat (length d) + a /\ r mod a = 0) /\
    (a <= 0 -> align_block d a p = Err 1%N) /\
    (forall v, p = PNum v -> 0 < a -> v < 0 ->
       align_block d a p = if Z.of_nat (length d) mod a =? 0 then Ok d else Err 1%N).
Proof. exact align_block_total_l. Qed.
Print Assumptions align_block_total.
