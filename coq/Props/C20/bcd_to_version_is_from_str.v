From Coq Require Import ZArith NArith List Bool Lia.
Require Import Value Bytes GenMisc MiscModel MiscExtModel MiscProofs MiscBcdProofs MiscBcdCtorProofs.
Import ListNotations.
Local Open Scope Z_scope.

(* C20 property theorem -- statement only; the proof is one lemma application. *)
Theorem bcd_to_version_is_from_str :
  forall s, bcd_to_version s = bcd_from_str s.
Proof. exact to_version_is_from_str. Qed.
Print Assumptions bcd_to_version_is_from_str.
