From Coq Require Import ZArith NArith List Bool Lia.
Require Import Value Bytes GenMisc MiscModel MiscProofs MiscBcdProofs.
Import ListNotations.
Local Open Scope Z_scope.

(* C20 property theorem -- statement only; the proof is one lemma application. *)
Theorem bcd_roundtrip :
  forall x y z, bcd_valid x -> bcd_valid y -> bcd_valid z ->
    bcd_from_str (bcd_to_str (x, y, z)) = Ok (x, y, z).
Proof. exact bcd_roundtrip_l. Qed.
Print Assumptions bcd_roundtrip.
