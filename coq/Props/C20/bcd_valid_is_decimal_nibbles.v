From Coq Require Import ZArith NArith List Bool Lia.
Require Import Value Bytes GenMisc MiscModel MiscExtModel MiscProofs MiscBcdProofs MiscBcdCtorProofs.
Import ListNotations.
Local Open Scope Z_scope.

(* C20 property theorem -- statement only; the proof is one lemma application. *)
Theorem bcd_valid_is_decimal_nibbles :
  forall v, bcd_valid v <->
    (0 <= v < 16 ^ 4 /\ v mod 16 <= 9 /\ (v / 16) mod 16 <= 9 /\ (v / 256) mod 16 <= 9 /\ (v / 4096) mod 16 <= 9).
Proof. exact bcd_valid_nibbles. Qed.
Print Assumptions bcd_valid_is_decimal_nibbles.
