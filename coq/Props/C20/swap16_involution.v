From Coq Require Import ZArith NArith List Bool Lia.
Require Import Value Bytes GenMisc MiscModel MiscProofs.
Import ListNotations.
Local Open Scope Z_scope.

(* C20 property theorem -- statement only; the proof is one lemma application. *)
Theorem swap16_involution :
  forall x, (0 <= x <= 65535 -> exists y, py_swap16 x = Ok y /\ 0 <= y <= 65535 /\ py_swap16 y = Ok x) /\
            (~ (0 <= x <= 65535) -> py_swap16 x = Err E_REJECT).
Proof. intros x. split; [apply swap16_involutive|apply swap16_rejects]. Qed.
Print Assumptions swap16_involution.
