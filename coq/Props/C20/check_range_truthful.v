From Coq Require Import ZArith NArith List Bool Lia.
Require Import Value Bytes GenMisc MiscModel MiscProofs.
Import ListNotations.
Local Open Scope Z_scope.

(* C20 property theorem -- statement only; the proof is one lemma application. *)
Theorem check_range_truthful :
  forall x lo hi, py_check_range x lo hi = Ok (if (lo <=? x) && (x <=? hi) then 1 else 0).
Proof. intros x lo hi. unfold py_check_range. repeat match goal with |- context [if ?b then _ else _] => destruct b eqn:? end; try reflexivity; lia. Qed.
Print Assumptions check_range_truthful.
