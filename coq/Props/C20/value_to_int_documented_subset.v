From Coq Require Import ZArith NArith List Bool Lia.
Require Import Value Bytes GenMisc MiscModel MiscProofs MiscGrammarProofs.
Import ListNotations.
Local Open Scope Z_scope.

(* C20 property theorem -- statement only; the proof is one lemma application. *)
Theorem value_to_int_documented_subset :
  forall t v,
    (number_grammar t v -> number_grammar_impl t v) /\
    (number_grammar_impl t v ->
       number_grammar t v \/ (dup_prefix_class t /\ forall v', ~ number_grammar t v')).
Proof. exact documented_subset_l. Qed.
Print Assumptions value_to_int_documented_subset.
