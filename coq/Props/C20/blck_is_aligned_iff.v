From Coq Require Import ZArith NArith List Bool Lia.
Require Import Value Bytes GenMisc MiscModel MiscExtModel MiscBlkModel MiscBlkProofs.
Import ListNotations.
Local Open Scope Z_scope.

(* C20 property theorem (SecBootBlckSize, spsdk/sbfile/misc.py) -- statement only; the proof is one lemma application. *)
Theorem blck_is_aligned_iff :
  forall s, sbb_is_aligned s = true <-> exists k, s = BLOCK_SIZE * k.
Proof. exact sbb_is_aligned_iff. Qed.
Print Assumptions blck_is_aligned_iff.
