From Coq Require Import ZArith NArith List Bool Lia.
From Coq Require String.
Require Import Value Bytes GenBimg BimgModel BimgProofs.
Import ListNotations.
Local Open Scope Z_scope.

(* C14-F1 (known finding): on a well-formed layout WITH a floating segment (the i.MX 8ULP NOR layout) the same statement is false: asking for the start of
   the FCB (1024) yields init offset -1. *)
Theorem init_offset_dynamic_refuted :
  exists t r, wf_table t /\ 0 < r /\ (exists s, In s (segs t) /\ fo s = r) /\ set_init t r = Ok (-1).
Proof. exact init_offset_dynamic_refuted_lemma. Qed.
Print Assumptions init_offset_dynamic_refuted.
