From Coq Require Import ZArith NArith List Bool Lia.
From Coq Require String.
Require Import Value Bytes GenBimg BimgModel BimgProofs.
Import ListNotations.
Local Open Scope Z_scope.

(* C14: BootableImage.parse (memory type given) of a complete merged image returns init offset 0 and the supplied segments:
   the first attempt succeeds (verify_layout / verify_segments are the layout-dependent checks of verify()). *)
Theorem parse_full_image :
  forall rec find t ps img,
  wf_table t -> List.length ps = List.length (segs t) -> fits t ps ->
  supplied_ok 0 (combine (segs t) ps) ->
  (forall s p, In (s, p) (combine (segs t) ps) -> rec_ok rec find (fillb t) s p) ->
  verify_layout t 0 ps = true -> verify_segments t ps = true ->
  merge t 0 ps = Ok img ->
  parse_typed rec find t img = Ok (0, ps).
Proof. exact parse_typed_full_lemma. Qed.
Print Assumptions parse_full_image.
