From Coq Require Import ZArith NArith List Bool Lia.
From Coq Require String.
Require Import Value Bytes GenBimg BimgModel BimgProofs.
Import ListNotations.
Local Open Scope Z_scope.

(* C14: a floating segment (database offset < 0) starts at the least multiple of its alignment at or after the end of its
   predecessor (which has a fixed offset), in full-image coordinates. *)
Theorem dynamic_offset_aligned_after_prev :
  forall t io ps k xp x,
  wf_table t -> nth_error (place t io ps) k = Some xp -> nth_error (place t io ps) (S k) = Some x ->
  doff (p_seg x) < 0 ->
  let e := doff (p_seg xp) + zlen (p_data xp) in
  let a := algn (p_seg x) in
  exists o, p_off x = Ok o /\ 0 <= doff (p_seg xp) /\ 0 < a /\
            e <= o + io /\ (o + io) mod a = 0 /\ o + io < e + a /\
            (forall m, e <= m -> m mod a = 0 -> o + io <= m).
Proof. exact dynamic_offset_lemma. Qed.
Print Assumptions dynamic_offset_aligned_after_prev.
