From Coq Require Import ZArith NArith List Bool Lia.
From Coq Require String.
Require Import Value Bytes GenBimg BimgModel BimgProofs.
Import ListNotations.
Local Open Scope Z_scope.

(* C14 (repaired C14-F4): the FCB segment parser meets the recogniser contract rec_ok for a tagged block of the class SIZE and
   for an omitted FCB, whether or not the family has an FCB description (fcb_supported c). *)
Theorem fcb_recogniser_contract :
  forall c f s p,
  fcb_class s = true -> 0 < fsize s -> In f padding_bytes ->
  (p = [] \/ (zlen p = fsize s /\ fcb_tag p = true /\ forall b, In b padding_bytes -> all_eq b p = false)) ->
  rec_ok (rec_std c) (find_std c) f s p.
Proof. exact rec_fcb_contract. Qed.
Print Assumptions fcb_recogniser_contract.
