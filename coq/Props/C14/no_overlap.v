From Coq Require Import ZArith NArith List Bool Lia.
From Coq Require String.
Require Import Value Bytes GenBimg BimgModel BimgProofs.
Import ListNotations.
Local Open Scope Z_scope.

(* C14: when no payload reaches into the next fixed segment ("sizes up to the next segment's offset"), any two segments of
   the image occupy disjoint byte ranges, in table order. *)
Theorem no_overlap :
  forall t io ps i j xi xj oi oj,
  wf_table t -> fits t ps -> (i < j)%nat ->
  nth_error (place t io ps) i = Some xi -> nth_error (place t io ps) j = Some xj ->
  p_off xi = Ok oi -> p_off xj = Ok oj ->
  oi + zlen (p_data xi) <= oj.
Proof. exact no_overlap_lemma. Qed.
Print Assumptions no_overlap.
