From Coq Require Import ZArith NArith List Bool Lia.
From Coq Require String.
Require Import Value Bytes GenBimg BimgModel BimgProofs.
Import ListNotations.
Local Open Scope Z_scope.

(* C14: every layout of the regenerated device database is well formed: fixed offsets strictly increase and leave room for
   the fixed-size classes, every database offset is a multiple of the class alignment (the segment starts exactly where
   the database says), a floating segment comes last after a fixed one, whole-rest classes (MBI/HAB/SB) come last, and
   every possible image start keeps the floating segment's alignment. *)
Theorem all_tables_wf : forallb wf_tableb tables = true.
Proof. exact all_tables_wf_lemma. Qed.
Print Assumptions all_tables_wf.
