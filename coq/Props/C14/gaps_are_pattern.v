From Coq Require Import ZArith NArith List Bool Lia.
From Coq Require String.
Require Import Value Bytes GenBimg BimgModel BimgProofs.
Import ListNotations.
Local Open Scope Z_scope.

(* C14: the exported image ends with its last segment, and every byte outside the supplied segments is the device's fill
   pattern. *)
Theorem gaps_are_pattern :
  forall t io ps img,
  wf_table t -> List.length ps = List.length (segs t) -> fits t ps -> valid_start t io ->
  merge t io ps = Ok img ->
  total_len io (place t io ps) = Ok (zlen img) /\
  forall i, 0 <= i < zlen img ->
    (forall k x o, nth_error (place t io ps) k = Some x -> present io x = true -> p_off x = Ok o ->
                   ~ (o <= i < o + zlen (p_data x))) ->
    nth_error img (Z.to_nat i) = Some (fillb t).
Proof. exact gaps_are_pattern_lemma. Qed.
Print Assumptions gaps_are_pattern.
