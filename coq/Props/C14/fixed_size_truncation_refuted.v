From Coq Require Import ZArith NArith List Bool Lia.
From Coq Require String.
Require Import Value Bytes GenBimg BimgModel BimgProofs.
Import ListNotations.
Local Open Scope Z_scope.

(* C14-F2 (known finding): a 257-byte key blob fits before the FCB, is merged without complaint, and parse returns 256 bytes. *)
Theorem fixed_size_truncation_refuted :
  exists t ps c img ps', wf_table t /\ fits t ps /\ merge t 0 ps = Ok img /\
    parse_typed (rec_std c) (find_std c) t img = Ok (0, ps') /\
    zlen (nth 0 ps []) = 257 /\ zlen (nth 0 ps' []) = 256.
Proof. exact fixed_size_truncation_refuted_lemma. Qed.
Print Assumptions fixed_size_truncation_refuted.
