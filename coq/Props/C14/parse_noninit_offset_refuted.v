From Coq Require Import ZArith NArith List Bool Lia.
From Coq Require String.
Require Import Value Bytes GenBimg BimgModel BimgProofs.
Import ListNotations.
Local Open Scope Z_scope.

(* C14-F3 (known finding): a segment set that round-trips as a complete image, merged from the start of a non-INIT segment
   (image_version of the LPC55S3x NOR layout, accepted by the init_offset setter), cannot be parsed back. *)
Theorem parse_noninit_offset_refuted :
  exists t io ps c img0 img, wf_table t /\ valid_start t io /\ set_init t io = Ok io /\
    merge t 0 ps = Ok img0 /\ parse_typed (rec_std c) (find_std c) t img0 = Ok (0, ps) /\
    merge t io ps = Ok img /\ parse_typed (rec_std c) (find_std c) t img = Err 1%N.
Proof. exact parse_noninit_offset_refuted_lemma. Qed.
Print Assumptions parse_noninit_offset_refuted.
