From Coq Require Import ZArith NArith List Bool Lia.
From Coq Require String.
Require Import Value Bytes GenBimg BimgModel BimgProofs.
Import ListNotations.
Local Open Scope Z_scope.

(* C14: parsing the merged image with the same init offset (0 or the start of any segment) gives back every supplied segment
   and nothing for the excluded ones -- for every recogniser family (rec, find) that meets the per-class contract rec_ok:
   a supplied payload is recognised at its start and reports its own length, an omitted fixed-size header reads as "not
   present" over the fill pattern.  supplied_ok: an omitted header segment is followed by a supplied fixed segment (the
   application container is there) and the floating segment is supplied only together with its predecessor. *)
Theorem parse_merge :
  forall rec find t io ps img,
  wf_table t -> List.length ps = List.length (segs t) -> fits t ps -> valid_start t io ->
  supplied_ok io (combine (segs t) ps) ->
  (forall s p, In (s, p) (combine (segs t) ps) -> excluded io s = false -> rec_ok rec find (fillb t) s p) ->
  merge t io ps = Ok img ->
  parse_at rec find t io img = Ok (masked io (combine (segs t) ps)).
Proof. exact parse_merge_lemma. Qed.
Print Assumptions parse_merge.
