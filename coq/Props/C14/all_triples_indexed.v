From Coq Require Import ZArith NArith List Bool Lia.
From Coq Require String.
Require Import Value Bytes GenBimg BimgModel BimgProofs.
Import ListNotations.
Local Open Scope Z_scope.

(* C14: every (family, revision, memory type) of the bootable_image feature points at a well-formed layout. *)
Theorem all_triples_indexed :
  forall f r m i, In (f, r, m, i) triples -> exists t, nth_error tables i = Some t /\ wf_table t.
Proof. exact triples_wf. Qed.
Print Assumptions all_triples_indexed.
