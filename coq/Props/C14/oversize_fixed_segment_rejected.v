From Coq Require Import ZArith NArith List Bool Lia.
From Coq Require String.
Require Import Value Bytes GenBimg BimgModel BimgProofs.
Import ListNotations.
Local Open Scope Z_scope.

(* C14 (repaired C14-F2): a configuration is loaded only when no fixed-size class (key blob, FCB, key store, BEE headers, XMCD
   binary) is given more bytes than its SIZE, so nothing can be truncated by parse. *)
Theorem oversize_fixed_segment_rejected :
  forall t ps, load_check t ps = Ok tt ->
  forall s p, In (s, p) (combine (segs t) ps) -> sized_tag s = true -> 0 < fsize s -> zlen p <= fsize s.
Proof. exact oversize_rejected_lemma. Qed.
Print Assumptions oversize_fixed_segment_rejected.
