From Coq Require Import ZArith NArith List Bool Lia.
From Coq Require String.
Require Import Value Bytes GenBimg BimgModel BimgProofs.
Import ListNotations.
Local Open Scope Z_scope.

(* C14: the contract rec_ok is met by the code's generic Segment.parse_binary (key blob, key store, BEE headers) for payloads
   of exactly the class SIZE that are not pure padding, and for omitted segments when the fill byte is a padding byte. *)
Theorem raw_recogniser_contract :
  forall c f s p,
  raw_tag s = true -> 0 < fsize s -> In f padding_bytes ->
  (p = [] \/ (zlen p = fsize s /\ forall b, In b padding_bytes -> all_eq b p = false)) ->
  rec_ok (rec_std c) (find_std c) f s p.
Proof. exact rec_raw_contract. Qed.
Print Assumptions raw_recogniser_contract.
