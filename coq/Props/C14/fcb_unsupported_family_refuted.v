From Coq Require Import ZArith NArith List Bool Lia.
From Coq Require String.
Require Import Value Bytes GenBimg BimgModel BimgProofs.
Import ListNotations.
Local Open Scope Z_scope.

(* C14-F4 (known finding): the same merged image is parsed back when the family has an FCB description and refused when it
   has not (SegmentFcb.parse_binary falls through to "Parsing of FCB segment failed"). *)
Theorem fcb_unsupported_family_refuted :
  exists t ps d img, wf_table t /\ merge t 0 ps = Ok img /\
    parse_typed (rec_std (mkCtx true d)) (find_std (mkCtx true d)) t img = Ok (0, ps) /\
    parse_typed (rec_std (mkCtx false d)) (find_std (mkCtx false d)) t img = Err 1%N.
Proof. exact fcb_unsupported_family_refuted_lemma. Qed.
Print Assumptions fcb_unsupported_family_refuted.
