From Coq Require Import ZArith NArith List Bool Lia.
From Coq Require String.
Require Import Value Bytes GenBimg BimgModel BimgProofs.
Import ListNotations.
Local Open Scope Z_scope.

(* C14: the exported image carries every supplied, non-excluded segment unchanged at its offset. *)
Theorem segments_intact :
  forall t io ps k x o img,
  wf_table t -> List.length ps = List.length (segs t) -> fits t ps -> valid_start t io ->
  nth_error (place t io ps) k = Some x -> present io x = true -> p_off x = Ok o ->
  merge t io ps = Ok img ->
  zfirst (zlen (p_data x)) (zskip o img) = p_data x.
Proof. exact segments_intact_lemma. Qed.
Print Assumptions segments_intact.
