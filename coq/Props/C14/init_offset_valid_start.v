From Coq Require Import ZArith NArith List Bool Lia.
From Coq Require String.
Require Import Value Bytes GenBimg BimgModel BimgProofs.
Import ListNotations.
Local Open Scope Z_scope.

(* C14: every init offset the setter accepts is 0 or the non-negative start of a segment, i.e. a start for which
   segments_intact / gaps_are_pattern / parse_merge hold. *)
Theorem init_offset_valid_start :
  forall t r io, set_init t r = Ok io -> valid_start t io.
Proof. exact init_offset_valid_start_lemma. Qed.
Print Assumptions init_offset_valid_start.
