From Coq Require Import ZArith NArith List Bool Lia.
From Coq Require String.
Require Import Value Bytes GenBimg BimgModel BimgProofs.
Import ListNotations.
Local Open Scope Z_scope.

(* C14: in a well-formed layout every segment with a fixed database offset that belongs to the image (not excluded by the
   init offset) is reported and placed at  database offset - init offset , whatever the payloads are. *)
Theorem offsets_as_prescribed :
  forall t io ps k x,
  wf_table t -> nth_error (place t io ps) k = Some x ->
  0 <= doff (p_seg x) -> excluded io (p_seg x) = false ->
  p_off x = Ok (doff (p_seg x) - io).
Proof. exact offsets_as_prescribed_lemma. Qed.
Print Assumptions offsets_as_prescribed.
