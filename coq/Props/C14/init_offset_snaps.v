From Coq Require Import ZArith NArith List Bool Lia.
From Coq Require String.
Require Import Value Bytes GenBimg BimgModel BimgProofs.
Import ListNotations.
Local Open Scope Z_scope.

(* C14: on EVERY layout (with or without a floating segment) a positive init offset snaps to the closest segment start at or
   above it -- floating segments do not count -- and is refused (SPSDK error) beyond the last fixed segment. *)
Theorem init_offset_snaps :
  forall t r, 0 < r ->
  match set_init t r with
  | Ok io => (exists s, In s (segs t) /\ fo s = io) /\ r <= io /\ (forall s, In s (segs t) -> r <= fo s -> io <= fo s)
  | Err k => k = 1%N /\ forall s, In s (segs t) -> fo s < r
  end.
Proof. exact init_offset_snaps_lemma. Qed.
Print Assumptions init_offset_snaps.
