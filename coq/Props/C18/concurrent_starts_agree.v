From Coq Require Import ZArith NArith List Bool.
Require Import Value GenCache CacheModel CacheProofs.
Import ListNotations.
Local Open Scope Z_scope.

(* C18: any number of processes, any interleaving of their atomic actions, lock time-outs and kills, on any admissible
   initial quick-info cache: no process dies of an exception, every process that finishes answers with the completely
   loaded database, and the file is never left valid-but-wrong. *)
Theorem concurrent_starts_agree :
  forall (w : world) (c : content) (sched : list (nat * action)),
  quick_admissible (w_cur w) c -> (forall k, c <> CPartial k) ->
  (forall ia, In ia sched -> match snd ia with ACrash e => In e exception_classes | _ => True end) ->
  let s := run gen_config w (init_sys c QStart) sched in
  (forall i a, procs s i = Done a -> a = DB_FULL) /\
  (forall i st e, procs s i <> Fail st e) /\
  quick_admissible (w_cur w) (file s).
Proof. intros w c sched. exact (concurrent_quick_gen gen_config w c sched ltac:(vm_compute; reflexivity)). Qed.
Print Assumptions concurrent_starts_agree.
