From Coq Require Import ZArith NArith List Bool.
Require Import Value GenCache CacheModel CacheProofs.
Import ListNotations.
Local Open Scope Z_scope.

(* C18: the same for the per-data-folder config cache: DatabaseData.__init__ + first load_db_cfg_file(x) + make_cache. *)
Theorem startup_total_data :
  forall (cur : Z) (src : Z -> Z) (x : Z) (c : content),
  match c with
  | CDamaged e => In e exception_classes
  | CData h m => h = cur -> forall k v, In (k, v) m -> v = src k
  | _ => True
  end ->
  fst (data_start gen_config cur src x c) = Started (src x) /\
  exists m, snd (data_start gen_config cur src x c) = CData cur m /\
            (forall k v, In (k, v) m -> v = src k) /\ lookup x m = Some (src x).
Proof. intros cur src x c. exact (data_start_total gen_config cur src x c ltac:(vm_compute; reflexivity)). Qed.
Print Assumptions startup_total_data.
