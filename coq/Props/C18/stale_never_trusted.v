From Coq Require Import ZArith NArith List Bool.
Require Import Value GenCache CacheModel CacheProofs.
Import ListNotations.
Local Open Scope Z_scope.

(* C18: a well-formed cache whose stored fingerprint is not the current one is never trusted, whatever it contains. *)
Theorem stale_never_trusted :
  forall (cur : Z) (src : Z -> Z) (x h p : Z) (m : cfgmap), h <> cur ->
  quick_start gen_config cur (CQuick h p) = (Started DB_FULL, CQuick cur DB_FULL) /\
  fst (data_start gen_config cur src x (CData h m)) = Started (src x) /\
  exists m', snd (data_start gen_config cur src x (CData h m)) = CData cur m' /\ (forall k v, In (k, v) m' -> v = src k).
Proof. intros cur src x h p m. exact (stale_gen gen_config cur src x h p m ltac:(vm_compute; reflexivity) ltac:(vm_compute; reflexivity)). Qed.
Print Assumptions stale_never_trusted.
