From Coq Require Import ZArith NArith List Bool.
Require Import Value GenCache CacheModel CacheProofs.
Import ListNotations.
Local Open Scope Z_scope.

(* C18 REFUTED on this tree (finding C18-F2): two processes on a damaged data cache, both reach the except handler,
   both see the file, the second os.remove raises FileNotFoundError out of the handler. *)
Theorem data_concurrent_refuted :
  exists c sched, data_admissible (w_cur w0) (w_src w0) c /\ not_open c /\ sched_ok sched /\
    exists i, procs (run gen_config w0 (init_sys c DStart) sched) i = Fail S_HANDLER_RM EXN_FileNotFoundError.
Proof. apply race_witness; vm_compute; reflexivity. Qed.
Print Assumptions data_concurrent_refuted.
