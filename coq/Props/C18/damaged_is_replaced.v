From Coq Require Import ZArith NArith List Bool.
Require Import Value GenCache CacheModel CacheProofs.
Import ListNotations.
Local Open Scope Z_scope.

(* C18: a damaged cache file (truncated, garbage, wrong type, hollow object) is never the content after a start:
   both caches are rewritten from the data files. *)
Theorem damaged_is_replaced :
  forall (cur : Z) (src : Z -> Z) (x : Z) (c : content),
  (exists e, c = CDamaged e /\ In e exception_classes) \/ c = CWrongType \/ c = CHollow ->
  snd (quick_start gen_config cur c) = CQuick cur DB_FULL /\
  exists m, snd (data_start gen_config cur src x c) = CData cur m /\ (forall k v, In (k, v) m -> v = src k).
Proof. intros cur src x c. exact (damaged_replaced_gen gen_config cur src x c ltac:(vm_compute; reflexivity) ltac:(vm_compute; reflexivity)). Qed.
Print Assumptions damaged_is_replaced.
