From Coq Require Import ZArith NArith List Bool.
Require Import Value GenCache CacheModel CacheProofs.
Import ListNotations.
Local Open Scope Z_scope.

(* C18: data cache: whatever the guard around it, the ONLY place where an exception could escape in any schedule is the
   os.remove inside the except handler of DatabaseData.__init__ (FileNotFoundError: another process removed the damaged
   file between exists() and remove()), and only if that os.remove is unguarded in the source. *)
Theorem data_concurrent_except_known :
  forall (w : world) (c : content) (sched : list (nat * action)),
  data_admissible (w_cur w) (w_src w) c -> (forall k, c <> CPartial k) -> sched_ok sched ->
  forall i st e, procs (run gen_config w (init_sys c DStart) sched) i = Fail st e ->
  st = S_HANDLER_RM /\ e = EXN_FileNotFoundError /\ guarded (i_hrm_guard gen_config) EXN_FileNotFoundError = false.
Proof. intros w c sched Ha Hc Hs. exact (concurrent_data_fail gen_config w c sched ltac:(vm_compute; reflexivity) Ha Hc Hs). Qed.
Print Assumptions data_concurrent_except_known.
