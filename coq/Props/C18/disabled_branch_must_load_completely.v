From Coq Require Import ZArith NArith List Bool.
Require Import Value GenCache CacheModel CacheProofs.
Import ListNotations.
Local Open Scope Z_scope.

(* C18 (non-vacuity of the complete_load premise; this was finding C18-F1 before its repair): the routines as extracted
   from the source, but with the cache-disabled branch calling get_db() without complete_load, answer differently with
   the cache disabled than with any admissible cache content. *)
Theorem disabled_branch_must_load_completely :
  forall cur, exists c, quick_admissible cur c /\
    fst (quick_start (disabled_not_loaded gen_config) cur c) <> disabled_start (disabled_not_loaded gen_config).
Proof. intros cur. exact (disabled_refuted_gen (disabled_not_loaded gen_config) cur ltac:(vm_compute; reflexivity) (eq_refl false)). Qed.
Print Assumptions disabled_branch_must_load_completely.
