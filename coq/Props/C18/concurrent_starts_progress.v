From Coq Require Import ZArith NArith List Bool.
Require Import Value GenCache CacheModel CacheProofs.
Import ListNotations.
Local Open Scope Z_scope.

(* C18: no deadlock and bounded work: in every reachable state a process that has not finished can take a step itself or
   waits for a lock whose holder can; every step strictly decreases the stepping process' measure and touches no other. *)
Theorem concurrent_starts_progress :
  forall (w : world) (s : sys), reachable gen_config w s ->
  (forall i, final (procs s i) = false ->
     can_move gen_config w s i \/ exists j, j <> i /\ lock s = Some j /\ can_move gen_config w s j) /\
  (forall i a s', step gen_config w s i a = Some s' ->
     (measure w (procs s' i) < measure w (procs s i))%nat /\ forall j, j <> i -> procs s' j = procs s j).
Proof. intros w s. exact (progress_reach gen_config w s ltac:(vm_compute; reflexivity) ltac:(vm_compute; reflexivity)). Qed.
Print Assumptions concurrent_starts_progress.
