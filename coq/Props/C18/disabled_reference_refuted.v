From Coq Require Import ZArith NArith List Bool.
Require Import Value GenCache CacheModel CacheProofs.
Import ListNotations.
Local Open Scope Z_scope.

(* C18 REFUTED on this tree (finding C18-F1): with SPSDK_CACHE_DISABLED the quick info is computed from a database whose
   devices were never loaded, so "answers exactly as with the cache disabled" is false for every cache content. *)
Theorem disabled_reference_refuted :
  forall cur, exists c, quick_admissible cur c /\ fst (quick_start gen_config cur c) <> disabled_start gen_config.
Proof. intros cur. exact (disabled_refuted_gen gen_config cur ltac:(vm_compute; reflexivity) (eq_refl false)). Qed.
Print Assumptions disabled_reference_refuted.
