From Coq Require Import ZArith NArith List Bool.
Require Import Value GenCache CacheModel CacheProofs.
Import ListNotations.
Local Open Scope Z_scope.

(* C18 at full strength: a start on any admissible cache content answers exactly as a start with the cache disabled. *)
Theorem cache_transparent :
  forall cur c, quick_admissible cur c -> fst (quick_start gen_config cur c) = disabled_start gen_config.
Proof. intros cur c. exact (cache_transparent_gen gen_config cur c ltac:(vm_compute; reflexivity) (eq_refl true)). Qed.
Print Assumptions cache_transparent.
