From Coq Require Import ZArith NArith List Bool.
Require Import Value GenCache CacheModel CacheProofs.
Import ListNotations.
Local Open Scope Z_scope.

(* C18 (non-vacuity of the lock premise): the same routine with pickle.load moved out of the FileLock section has a
   schedule in which a process trusts a half-written file and answers wrongly. *)
Theorem lock_is_necessary :
  exists c sched, quick_admissible (w_cur w0) c /\ not_open c /\ sched_ok sched /\
    exists i a, procs (run (unlock_quick_read gen_config) w0 (init_sys c QStart) sched) i = Done a /\ a <> DB_FULL.
Proof. apply torn_witness; vm_compute; reflexivity. Qed.
Print Assumptions lock_is_necessary.
