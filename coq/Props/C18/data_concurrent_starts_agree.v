From Coq Require Import ZArith NArith List Bool.
Require Import Value GenCache CacheModel CacheProofs.
Import ListNotations.
Local Open Scope Z_scope.

(* C18 at full strength for the data cache: any number of processes, any schedule, no process dies of an exception. *)
Theorem data_concurrent_starts_agree :
  forall (w : world) (c : content) (sched : list (nat * action)),
  data_admissible (w_cur w) (w_src w) c -> (forall k, c <> CPartial k) -> sched_ok sched ->
  let s := run gen_config w (init_sys c DStart) sched in
  (forall i a, procs s i = Done a -> a = w_src w (w_key w i)) /\
  (forall i st e, procs s i <> Fail st e) /\
  data_admissible (w_cur w) (w_src w) (file s).
Proof. intros w c sched. exact (concurrent_data_full_gen gen_config w c sched ltac:(vm_compute; reflexivity) (eq_refl true)). Qed.
Print Assumptions data_concurrent_starts_agree.
