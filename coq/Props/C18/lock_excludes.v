From Coq Require Import ZArith NArith List Bool.
Require Import Value GenCache CacheModel CacheProofs.
Import ListNotations.
Local Open Scope Z_scope.

(* C18: in every reachable state at most one process is inside a FileLock section, and a process about to read the cache
   file sees a complete file: never one that is being rewritten (the "torn" argument of ReadAll is never used). *)
Theorem lock_excludes :
  forall (w : world) (s : sys), reachable gen_config w s ->
  (forall i j, holding (procs s i) = true -> holding (procs s j) = true -> i = j) /\
  (forall i t, reading (procs s i) = true -> observe s i t = file s /\ forall k, file s <> CPartial k).
Proof. intros w s. exact (excludes_reach gen_config w s ltac:(vm_compute; reflexivity) ltac:(vm_compute; reflexivity)). Qed.
Print Assumptions lock_excludes.
