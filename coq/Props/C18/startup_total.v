From Coq Require Import ZArith NArith List Bool.
Require Import Value GenCache CacheModel CacheProofs.
Import ListNotations.
Local Open Scope Z_scope.

(* C18: whatever a killed writer (any exception class an unpickler can raise), an older run on other data files
   (stale fingerprint, arbitrary payload) or an honest writer left in the quick-info cache file, the process starts, answers
   with the completely loaded database and leaves a valid cache. gen_config = lock flags / except tuples extracted from
   spsdk/utils/database.py on this run. *)
Theorem startup_total :
  forall (cur : Z) (c : content),
  match c with
  | CDamaged e => In e exception_classes
  | CQuick h p => h = cur -> p = DB_FULL
  | _ => True
  end ->
  quick_start gen_config cur c = (Started DB_FULL, CQuick cur DB_FULL).
Proof. intros cur c. exact (quick_start_total gen_config cur c ltac:(vm_compute; reflexivity)). Qed.
Print Assumptions startup_total.
