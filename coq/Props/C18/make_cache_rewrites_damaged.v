From Coq Require Import ZArith NArith List Bool.
Require Import Value GenCache CacheModel CacheProofs.
Import ListNotations.
Local Open Scope Z_scope.

(* C18: a running process whose make_cache finds, under the lock, a file damaged by a killed writer does not keep it:
   it goes on to rewrite the file (it does not fall into the outer handler that skips the write). *)
Theorem make_cache_rewrites_damaged :
  forall (w : world) (s : sys) (i : nat) (m : cfgmap) (e : exn) (t : content) (s' : sys),
  reachable gen_config w s -> procs s i = MHold m -> file s = CDamaged e -> In e exception_classes ->
  step gen_config w s i (AReadAll t) = Some s' ->
  procs s' i = MMerged m /\ file s' = file s.
Proof. intros w s i m e t s'. exact (CacheProofs.make_cache_rewrites_damaged gen_config w s i m e t s' ltac:(vm_compute; reflexivity) ltac:(vm_compute; reflexivity)). Qed.
Print Assumptions make_cache_rewrites_damaged.
