From Coq Require Import ZArith NArith List Bool.
Require Import Value GenCache CacheModel CacheProofs.
Import ListNotations.
Local Open Scope Z_scope.

(* C18: a process killed at any instant of any reachable state (quick-info or data cache, any number of processes, any
   schedule) releases the lock and leaves the file either untouched or -- if it was between open("wb") and close -- as a
   damaged prefix (a content startup_total covers); the file never stays "open for writing" by a dead process. *)
Theorem crash_prefix_sound :
  forall (w : world) (s : sys) (i : nat) (e : exn) (s' : sys),
  reachable gen_config w s -> step gen_config w s i (ACrash e) = Some s' ->
  procs s' i = Killed /\ (forall j, j <> i -> procs s' j = procs s j) /\
  lock s' <> Some i /\
  (file s' = file s \/ file s = CPartial i /\ file s' = CDamaged e) /\
  file s' <> CPartial i.
Proof. intros w s i e s'. exact (crash_prefix_reach gen_config w s i e s' ltac:(vm_compute; reflexivity) ltac:(vm_compute; reflexivity)). Qed.
Print Assumptions crash_prefix_sound.
