From Coq Require Import ZArith NArith List Bool.
Require Import Value GenCache CacheModel CacheProofs.
Import ListNotations.
Local Open Scope Z_scope.

(* C18: data cache, any number of processes and any schedule: every process that finishes returns the parsed content of
   the config file it asked for, and a cache file with the current fingerprint only ever holds honest records (merging
   with a concurrently written cache included). *)
Theorem data_concurrent_answers_agree :
  forall (w : world) (c : content) (sched : list (nat * action)),
  data_admissible (w_cur w) (w_src w) c -> (forall k, c <> CPartial k) -> sched_ok sched ->
  let s := run gen_config w (init_sys c DStart) sched in
  (forall i a, procs s i = Done a -> a = w_src w (w_key w i)) /\
  data_admissible (w_cur w) (w_src w) (file s).
Proof. intros w c sched Ha Hc Hs. exact (concurrent_data_answers gen_config w c sched ltac:(vm_compute; reflexivity) Ha Hc Hs). Qed.
Print Assumptions data_concurrent_answers_agree.
