From Coq Require Import ZArith NArith List Bool.
Require Import Value GenCache CacheModel CacheProofs.
Import ListNotations.
Local Open Scope Z_scope.

(* C18 (non-vacuity of the guard premise; this was finding C18-F2 before its repair): the routines as extracted from the
   source, but with the os.remove in the except handler of DatabaseData.__init__ NOT wrapped in a try, have a schedule of
   two processes on a damaged data cache in which the second os.remove raises FileNotFoundError out of the handler. *)
Theorem handler_remove_guard_is_necessary :
  exists c sched, data_admissible (w_cur w0) (w_src w0) c /\ not_open c /\ sched_ok sched /\
    exists i, procs (run (unguard_handler_remove gen_config) w0 (init_sys c DStart) sched) i
              = Fail S_HANDLER_RM EXN_FileNotFoundError.
Proof. apply race_witness; vm_compute; reflexivity. Qed.
Print Assumptions handler_remove_guard_is_necessary.
