From Coq Require Import ZArith NArith List Bool.
Require Import Value Bytes Crc Sha2 Hmac Aes Modes MbiMixinModel GenMbi MbiModel MbiRomModel MbiRomProofs.
Import ListNotations.

(* C02: certificate-block-v1 signed XIP classes (RSA, any signature size sg, any accepted certificate table): the exported
   image is msg ++ sign msg, the ROM model accepts it, and its single image-signature obligation is over exactly msg -- the
   bytes that precede the signature (application with IVT, certificate block, TrustZone data) -- under the last certificate,
   with the chain / root-key-hash obligations of the embedded table whose SHA-256 is RKTH. *)
Theorem sig_range_v1 :
  forall (sign : list N -> list N) (c : mbi_class) (x : mbi) (img : list N) (cfg : rom_cfg) (keys : rom_keys)
         (pre post : list N) (sg : nat) (certs table : list (list N)),
    k_v1 c = true -> wf_input x -> m_cert x = Some (CertV1 pre post sg) -> cb_v1_ok pre post certs table ->
    rk_rkth keys = sha256 (concat table) -> r_cb cfg = CbV1 -> In 4%Z (r_types cfg) -> tz_ok (r_tzsize cfg) x ->
    (forall m, length (sign m) = sg) -> (0 < sg)%nat ->
    export_mbi (real_crypto sign) c x = Ok img ->
    exists msg, img = msg ++ sign msg /\
      rd32 32 img = zlen img /\ rd32 (natz (rd32 40 img) + 20) img = zlen msg /\
      rom_mbi cfg keys img =
      Some {| ro_plain := msg; ro_msg := msg;
              ro_obl := v1_obl {| c1_il := zlen msg; c1_certs := certs; c1_table := table |} msg (sign msg) |}.
Proof. exact v1_accept_l. Qed.
Print Assumptions sig_range_v1.
