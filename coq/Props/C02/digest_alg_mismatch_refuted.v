From Coq Require Import ZArith NArith List Bool.
Require Import Value Bytes Crc Sha2 Hmac Aes Modes MbiMixinModel GenMbi MbiModel MbiRomModel MbiRomProofs.
Import ListNotations.

(* C02, finding C02-F1: without the hypothesis (m_digest x = 0 \/ m_digest x = signature hash) sig_range_v21 is false:
   a digest-manifest class with a P-256 signing key and manifest digest algorithm SHA-384 is exported and the ROM model
   rejects the image. *)
Theorem digest_alg_mismatch_refuted :
  exists (c : mbi_class) (x : mbi) (img : list N),
    k_v21 c = true /\ wf_input x /\ cb_v21_ok (rk_rkth demo_keys21) demo_body21 demo_info21 /\
    m_cert x = Some (CertV21 demo_body21 64) /\ m_digest x = 2%Z /\ c2_alg demo_info21 = 2%Z /\
    export_mbi (real_crypto (demo_sign 64)) c x = Ok img /\ rom_mbi demo_cfg21 demo_keys21 img = None.
Proof. exact digest_alg_mismatch_refuted_l. Qed.
Print Assumptions digest_alg_mismatch_refuted.
