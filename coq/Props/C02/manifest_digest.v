From Coq Require Import ZArith NArith List Bool.
Require Import Value Bytes Crc Sha2 Hmac Aes Modes MbiMixinModel GenMbi MbiModel MbiRomModel MbiRomProofs.
Import ListNotations.

(* C02: the optional manifest digest: when the class carries a digest manifest and a digest algorithm is set, the bytes
   behind the signature are exactly H(msg) for that algorithm (SHA-256/384/512 of CryptoRef), msg being the signed bytes
   (the data handed to the signature provider); otherwise nothing follows the signature. *)
Theorem manifest_digest :
  forall (sign : list N -> list N) (c : mbi_class) (x : mbi) (img : list N) (cfg : rom_cfg) (keys : rom_keys)
         (body : list N) (sg : nat) (info : cb21_info),
    k_v21 c = true -> wf_input x -> m_cert x = Some (CertV21 body sg) -> cb_v21_ok (rk_rkth keys) body info ->
    r_cb cfg = CbV21 -> r_hmac cfg = false -> r_mcrc cfg = has c MixinManifestCrc -> In (c_type c) (r_types cfg) ->
    tz_ok (r_tzsize cfg) x -> (0 <= m_digest x <= 3)%Z ->
    sg = (2 * klen_of info)%nat -> (forall m, length (sign m) = sg) ->
    export_c02 (real_crypto sign) c x = Ok img ->
    exists msg, img = msg ++ sign msg ++
                      (if has c MixinManifestDigest && negb (m_digest x =? 0)%Z then hash_by (m_digest x) msg else []) /\
      rom_mbi cfg keys img = Some {| ro_plain := msg; ro_msg := msg; ro_obl := v21_obl info msg (sign msg) |}.
Proof. exact v21_accept_c02_l. Qed.
Print Assumptions manifest_digest.
