From Coq Require Import ZArith NArith List Bool.
Require Import Value Bytes Crc Sha2 Hmac Aes Modes MbiMixinModel GenMbi MbiModel MbiRomModel MbiRomProofs.
Import ListNotations.

(* C02: for every CRC class (k_crc: application [+ TrustZone], CRC mixin, total length written) and every well-formed input,
   the exported image passes the ROM model: image type and total length are the ones the ROM expects and the CRC-32/MPEG-2
   word at 0x28 matches the image with that word excluded. *)
Theorem crc_ok :
  forall (k : crypto) (c : mbi_class) (x : mbi) (img : list N) (cfg : rom_cfg) (keys : rom_keys),
    k_crc c = true -> wf_input x -> In (c_type c) (r_types cfg) ->
    export_mbi k c x = Ok img ->
    rom_crc_ok img = true /\
    rom_mbi cfg keys img = Some {| ro_plain := img; ro_msg := crc_region img; ro_obl := [] |}.
Proof. exact crc_ok_l. Qed.
Print Assumptions crc_ok.
