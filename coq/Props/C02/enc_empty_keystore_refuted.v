From Coq Require Import ZArith NArith List Bool.
Require Import Value Bytes Crc Sha2 Hmac Aes Modes MbiMixinModel GenMbi MbiModel MbiRomModel MbiRomProofs.
Import ListNotations.

(* C02, finding C02-F2: without the hypothesis ks_nonempty enc_roundtrip is false: an encrypted class with a key store
   object without content (m_ks = Some []) is exported and rejected by the ROM model, while the same input without key
   store is accepted. *)
Theorem enc_empty_keystore_refuted :
  exists (c : mbi_class) (x : mbi) (img : list N),
    k_enc c = true /\ wf_input x /\ m_ks x = Some [] /\
    export_mbi (real_crypto (demo_sign 256)) c x = Ok img /\ rom_mbi demo_cfg_enc demo_keys_enc img = None /\
    rom_accepts demo_cfg_enc demo_keys_enc (export_mbi (real_crypto (demo_sign 256)) c (set_ks x None)) = true.
Proof. exact enc_empty_keystore_refuted_l. Qed.
Print Assumptions enc_empty_keystore_refuted.
