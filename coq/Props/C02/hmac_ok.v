From Coq Require Import ZArith NArith List Bool.
Require Import Value Bytes Crc Sha2 Hmac Aes Modes MbiMixinModel GenMbi MbiModel MbiRomModel MbiRomProofs.
Import ListNotations.

(* C02: signed load-to-RAM classes with header authentication (RT5xx/6xx): the exported image is the signed image
   s = msg ++ sign msg with HMAC-SHA256(AES-ECB(user key, 0^16), first 64 bytes) and the key store inserted behind the
   64-byte header; the ROM model's HMAC check passes, removing HMAC + key store gives back s, and the signature obligation
   is over exactly msg.  (The constants of KeyStore.derive_hmac_key are regenerated from the source: Gen/GenCrypto.v.) *)
Theorem hmac_ok :
  forall (sign : list N -> list N) (c : mbi_class) (x : mbi) (img : list N) (cfg : rom_cfg) (keys : rom_keys)
         (pre post : list N) (sg : nat) (certs table : list (list N)),
    k_v1h c = true -> wf_input x -> m_cert x = Some (CertV1 pre post sg) -> cb_v1_ok pre post certs table ->
    rk_rkth keys = sha256 (concat table) -> r_cb cfg = CbV1 -> r_hmac cfg = true -> In 1%Z (r_types cfg) ->
    tz_ok (r_tzsize cfg) x -> ks_wf x -> m_hmac x = Some (rk_user keys) ->
    (forall m, length (sign m) = sg) -> (0 < sg)%nat ->
    export_mbi (real_crypto sign) c x = Ok img ->
    exists msg, let s := msg ++ sign msg in
      img = firstn 64 s ++ hmac_sha256 (rom_hmac_key (rk_user keys)) (firstn 64 s) ++ ks_bytes x ++ skipn 64 s /\
      firstn 64 img = firstn 64 s /\ (64 <= length msg)%nat /\
      rom_hmac_ok (rk_user keys) img = true /\
      rom_mbi cfg keys img =
      Some {| ro_plain := msg; ro_msg := msg;
              ro_obl := v1_obl {| c1_il := zlen msg; c1_certs := certs; c1_table := table |} msg (sign msg) |}.
Proof. exact v1h_accept_l. Qed.
Print Assumptions hmac_ok.
