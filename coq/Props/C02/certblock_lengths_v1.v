From Coq Require Import ZArith NArith List Bool.
Require Import Value Bytes Crc Sha2 Hmac Aes Modes MbiMixinModel GenMbi MbiModel MbiRomModel MbiRomProofs.
Import ListNotations.

(* C02: the lengths authenticated together with the payload: IVT word 0x20 is the emitted size (signature included) and the
   certificate block header's image_length (word 5 of the block found through IVT word 0x28) is the number of signed bytes;
   the signature size is a parameter (RSA-2048/3072/4096 are not special cases). *)
Theorem certblock_lengths_v1 :
  forall (sign : list N -> list N) (c : mbi_class) (x : mbi) (img : list N) (cfg : rom_cfg) (keys : rom_keys)
         (pre post : list N) (sg : nat) (certs table : list (list N)),
    k_v1 c = true -> wf_input x -> m_cert x = Some (CertV1 pre post sg) -> cb_v1_ok pre post certs table ->
    rk_rkth keys = sha256 (concat table) -> r_cb cfg = CbV1 -> In 4%Z (r_types cfg) -> tz_ok (r_tzsize cfg) x ->
    (forall m, length (sign m) = sg) -> (0 < sg)%nat ->
    export_mbi (real_crypto sign) c x = Ok img ->
    exists msg, img = msg ++ sign msg /\ length (sign msg) = sg /\
      rd32 32 img = zlen img /\ rd32 (natz (rd32 40 img) + 20) img = zlen msg.
Proof. exact certblock_lengths_v1_l. Qed.
Print Assumptions certblock_lengths_v1.
