From Coq Require Import ZArith NArith List Bool.
Require Import Value Bytes Crc Sha2 Hmac Aes Modes MbiMixinModel GenMbi MbiModel MbiRomModel MbiRomProofs.
Import ListNotations.

(* C02: a manifest digest algorithm other than the hash that belongs to the signing key's signature size (64 -> SHA-256,
   96 -> SHA-384, 132 -> SHA-512) is refused with an SPSDK error: no image that the ROM's digest check would reject is
   exported (the repaired former finding). *)
Theorem digest_alg_refused :
  forall (k : crypto) (c : mbi_class) (x : mbi) (cb : cert),
    supported c = true -> validate c x = Ok tt -> has c MixinApp = true ->
    provider c SCollect = Some ExportMixinAppCertBlockManifest ->
    has c MixinManifestDigest = true -> m_cert x = Some cb -> (m_digest x <> 0)%Z ->
    hash_type_of_sig (cert_sig cb) <> Some (m_digest x) ->
    export_c02 k c x = Err E_REJECT.
Proof. exact digest_alg_refused_l. Qed.
Print Assumptions digest_alg_refused.
