From Coq Require Import ZArith NArith List Bool.
Require Import Value Bytes Crc Sha2 Hmac Aes Modes MbiMixinModel GenMbi MbiModel MbiRomModel MbiRomProofs.
Import ListNotations.

(* C02: the builder computes the CRC in two calls (bytes before the CRC word, then -- with the first result as the initial
   value -- the bytes after it); that is the standard CRC-32/MPEG-2 (Crypto/Crc.v, catalogue parameters) of the
   concatenation. *)
Theorem crc_bridge :
  forall (a b : list N),
    mbi_crc32_mpeg a = crc CRC32_MPEG2 a /\
    mbi_crc32_from (mbi_crc32_mpeg a) b = crc CRC32_MPEG2 (a ++ b).
Proof. exact crc_bridge_l. Qed.
Print Assumptions crc_bridge.
