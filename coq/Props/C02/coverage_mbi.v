From Coq Require Import ZArith NArith List Bool.
Require Import Value Bytes Crc Sha2 Hmac Aes Modes MbiMixinModel GenMbi MbiModel MbiRomModel MbiRomProofs.
Import ListNotations.

(* C02: no byte of an exported CRC image is outside the protected range: the file is exactly
   [bytes before the CRC word] ++ [CRC word] ++ [bytes after it], the ROM model's authenticated message is the first and the
   third part, and the CRC word is the CRC-32/MPEG-2 of that message.  (For signed images the corresponding decompositions
   img = msg ++ signature and img = header ++ HMAC ++ key store ++ rest are conclusions of sig_range_v1 / hmac_ok /
   enc_roundtrip / sig_range_v21, where msg is the message of the ROM's signature obligation.) *)
Theorem coverage_mbi :
  forall (k : crypto) (c : mbi_class) (x : mbi) (img : list N) (cfg : rom_cfg) (keys : rom_keys),
    k_crc c = true -> wf_input x -> In (c_type c) (r_types cfg) -> export_mbi k c x = Ok img ->
    exists r, rom_mbi cfg keys img = Some r /\ ro_msg r = firstn 40 img ++ skipn 44 img /\
      img = firstn 40 img ++ slice img 40 44 ++ skipn 44 img /\
      slice img 40 44 = le_enc 4 (crc CRC32_MPEG2 (ro_msg r)).
Proof. exact coverage_crc_l. Qed.
Print Assumptions coverage_mbi.
