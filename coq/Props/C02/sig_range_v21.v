From Coq Require Import ZArith NArith List Bool.
Require Import Value Bytes Crc Sha2 Hmac Aes Modes MbiMixinModel GenMbi MbiModel MbiRomModel MbiRomProofs.
Import ListNotations.

(* C02: certificate-block-v2.1 classes (ECC; LPC55S3x, MCXN, KW45/K32W1/MCXW71, RW61x, RT7xx): whatever the exporter
   (export_c02: the export pipeline behind the manifest-digest check of collect_data) emits is msg ++ signature ++ [digest]
   with msg = application with IVT ++ certificate block ++ manifest, and the ROM model accepts it: root key record / ISK
   certificate checks (cb_v21_ok: hash of the root key = entry used_index of the table whose hash is RKTH), manifest header,
   manifest CRC (CRC variant), digest algorithm = hash of the signing key, and its single image-signature obligation is over
   exactly msg -- the bytes through the manifest -- under the ISK or the selected root key. *)
Theorem sig_range_v21 :
  forall (sign : list N -> list N) (c : mbi_class) (x : mbi) (img : list N) (cfg : rom_cfg) (keys : rom_keys)
         (body : list N) (sg : nat) (info : cb21_info),
    k_v21 c = true -> wf_input x -> m_cert x = Some (CertV21 body sg) -> cb_v21_ok (rk_rkth keys) body info ->
    r_cb cfg = CbV21 -> r_hmac cfg = false -> r_mcrc cfg = has c MixinManifestCrc -> In (c_type c) (r_types cfg) ->
    tz_ok (r_tzsize cfg) x -> (0 <= m_digest x <= 3)%Z ->
    sg = (2 * klen_of info)%nat -> (forall m, length (sign m) = sg) ->
    export_c02 (real_crypto sign) c x = Ok img ->
    exists msg, img = msg ++ sign msg ++ v21_digest c x msg /\
      rom_mbi cfg keys img = Some {| ro_plain := msg; ro_msg := msg; ro_obl := v21_obl info msg (sign msg) |}.
Proof. exact v21_accept_c02_l. Qed.
Print Assumptions sig_range_v21.
