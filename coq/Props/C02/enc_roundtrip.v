From Coq Require Import ZArith NArith List Bool.
Require Import Value Bytes Crc Sha2 Hmac Aes Modes MbiMixinModel GenMbi MbiModel MbiRomModel MbiRomProofs.
Import ListNotations.

(* C02: encrypted load-to-RAM classes (RT5xx/6xx): the exported image passes the ROM model -- header HMAC, certificate
   block, signature over exactly the bytes before it -- and the ROM's reassembly of the ciphertext (encrypted header copy
   behind the certificate block | bytes 56..63 of the header | body | encrypted TrustZone) decrypted by AES-CTR with the IV
   stored behind the header copy is exactly the plaintext image the builder collected (application with IVT ++ TrustZone
   data).  The ROM's image key follows the configured key source r_ks: AES-ECB(master key, 1|0^15 ; 2|0^15) when no key
   store is configured, the user key when the key source is KEYSTORE (with or without embedded key-store data).  Uses the
   CTR involution of CryptoRef. *)
Theorem enc_roundtrip :
  forall (sign : list N -> list N) (c : mbi_class) (x : mbi) (img : list N) (cfg : rom_cfg) (keys : rom_keys)
         (pre post : list N) (sg : nat) (certs table : list (list N)),
    k_enc c = true -> wf_input x -> m_cert x = Some (CertV1 pre post sg) -> cb_v1_ok pre post certs table ->
    rk_rkth keys = sha256 (concat table) -> r_cb cfg = CbV1 -> r_hmac cfg = true -> In 3%Z (r_types cfg) ->
    tz_ok (r_tzsize cfg) x -> ks_wf x -> r_ks cfg = ks_truthy_obj (m_ks x) -> m_hmac x = Some (rk_user keys) ->
    wf_bytes (rk_user keys) -> (forall m, length (sign m) = sg) -> (0 < sg)%nat ->
    export_mbi (real_crypto sign) c x = Ok img ->
    exists raw msg, let s := msg ++ sign msg in
      collect c x = Ok raw /\
      img = firstn 64 s ++ hmac_sha256 (rom_hmac_key (rk_user keys)) (firstn 64 s) ++ ks_bytes x ++ skipn 64 s /\
      rom_hmac_ok (rk_user keys) img = true /\
      rom_mbi cfg keys img =
      Some {| ro_plain := flat raw; ro_msg := msg;
              ro_obl := v1_obl {| c1_il := zlen msg; c1_certs := certs; c1_table := table |} msg (sign msg) |}.
Proof. exact enc_accept_l. Qed.
Print Assumptions enc_roundtrip.
