From Coq Require Import ZArith NArith List Bool.
Require Import Value Bytes Crc Sha2 Hmac Aes Modes MbiMixinModel GenMbi MbiModel MbiRomModel MbiRomProofs.
Import ListNotations.

(* C02: every class composition of the device database (Gen/GenMbi.v, regenerated from the source on every run) is plain
   (image type 0), or outside the export model (BCA / certificate block Vx: MC56F81xxx, MCXC), or falls under exactly one of
   the protected kinds k_crc / k_v1 / k_v1h / k_enc / k_v21 the other theorems quantify over. *)
Theorem kinds_cover_database : forallb class_covered gen_compositions = true.
Proof. exact kinds_cover_database_l. Qed.
Print Assumptions kinds_cover_database.
