From Coq Require Import ZArith NArith List Bool Lia.
Require Import Value Bytes Sha2 Aes Modes HabModel HabProofs.
Import ListNotations.
Local Open Scope Z_scope.

(* C07: for an encrypted image the Decrypt Data block list is exactly the application, and AES-CCM decryption of that
   block of the exported image with the DEK, the nonce and the MAC stored in the CSF restores the (16-byte padded) application. *)
Theorem ccm_restores_app :
  forall c b q, hab_build c = Ok b -> hab_pre c = Ok q -> c_enc c = true -> layout_wf c q -> wf_bytes (h_dek c) ->
  b_enc b = [(h_start c + h_ivt_off c + c_app_off c, hlen (c_app_bin c))] /\
  ccm_decrypt (aes_enc (h_dek c)) (b_nonce b) [] (Z.to_nat (h_mac_len c))
              (hslice (b_image b) (c_app_off c) (c_app_off c + hlen (c_app_bin c)) ++ b_mac b) = Some (c_app_bin c).
Proof. exact ccm_restores'. Qed.
Print Assumptions ccm_restores_app.
