From Coq Require Import ZArith NArith List Bool Lia.
Require Import Value Bytes Sha2 Aes Modes HabModel HabProofs.
Import ListNotations.
Local Open Scope Z_scope.

(* C07: what the two CMS signatures are computed over (the signatures themselves are obligations discharged by the
   independent openssl check): Authenticate CSF signs exactly CSF[0 : header length] of the CSF that stands at the IVT's CSF
   pointer; Authenticate Data signs exactly the concatenation of the listed (address, size) blocks of the exported image. *)
Theorem cms_obligations_ranges :
  forall c b q, hab_build c = Ok b -> hab_pre c = Ok q -> c_auth c = true -> layout_wf c q ->
  (c_enc c = true -> wf_bytes (h_dek c)) -> dcd_sized q ->
  hskip (b_image b) (iv_csf (c_ivt c) - iv_self (c_ivt c)) = b_csf b /\
  hbyte (b_csf b) 0 = 212 /\
  b_tbs_csf b = hslice (b_csf b) 0 (u16be_at (b_csf b) 1) /\
  b_tbs_data b = concat (map (fun blk => hslice (b_image b) (fst blk - c_self c) (fst blk - c_self c + snd blk)) (b_signed b)).
Proof. exact cms_ranges'. Qed.
Print Assumptions cms_obligations_ranges.
