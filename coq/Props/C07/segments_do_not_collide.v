From Coq Require Import ZArith NArith List Bool Lia.
Require Import Value Bytes Sha2 Aes Modes HabModel HabProofs.
Import ListNotations.
Local Open Scope Z_scope.

(* C07: a build that succeeds (HabContainer.image_info refuses overlapping segments) has at most one of DCD / XMCD at
   IVT+0x40, that object ends before the application, and the application ends before the CSF. *)
Theorem segments_do_not_collide :
  forall c b q, hab_build c = Ok b -> hab_pre c = Ok q -> 68 <= c_app_off c -> 0 < hlen (h_app c) ->
  (q_dcd q = None \/ q_xm q = None) /\
  64 + hlen (of_opt (q_dcd_b q)) + hlen (of_opt (q_xm_b q)) <= c_app_off c /\
  hlen (of_opt (q_dx q)) = hlen (of_opt (q_dcd_b q)) + hlen (of_opt (q_xm_b q)) /\
  (c_auth c = true -> c_app_off c + hlen (c_app_bin c) <= c_csf_off c /\ c_app_off c < c_csf_off c).
Proof. exact build_geom. Qed.
Print Assumptions segments_do_not_collide.
