From Coq Require Import ZArith NArith List Bool Lia.
Require Import Value Bytes Sha2 Aes Modes HabModel HabProofs.
Import ListNotations.
Local Open Scope Z_scope.

(* C07-F2: the XMCD header export computes  interface << 4 + instance  (= interface << (4 + instance)): instance is lost. *)
Theorem xmcd_roundtrip_refuted :
  exists iface inst typ cfg, xmcd_wf iface inst typ cfg /\
  bind (xmcd_load (xmcd_bytes iface inst typ cfg)) xmcd_export <> Ok (xmcd_bytes iface inst typ cfg).
Proof. exists 0, 1, 0, [1; 2; 3; 4]%N. exact xmcd_roundtrip_witness. Qed.
Print Assumptions xmcd_roundtrip_refuted.
