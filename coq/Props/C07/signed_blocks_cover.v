From Coq Require Import ZArith NArith List Bool Lia.
Require Import Value Bytes Sha2 Aes Modes HabModel HabProofs.
Import ListNotations.
Local Open Scope Z_scope.

(* C07: for every authenticated (or encrypted) image the builder produces, the blocks written into Authenticate Data (plus
   Decrypt Data for an encrypted image) cover exactly IVT, boot-data slot, DCD, XMCD and the whole application -- no gap;
   and they are pairwise disjoint (for a non-empty application placed at or after IVT+0x44 and a DCD that exports as many
   bytes as it reports). That the segments themselves do not collide follows from the successful build. *)
Theorem signed_blocks_cover :
  forall c b q, hab_build c = Ok b -> hab_pre c = Ok q -> c_auth c = true ->
  (forall p, in_blocks c (b_signed b ++ b_enc b) p <-> content_pos c q p) /\
  (68 <= c_app_off c -> 0 < hlen (h_app c) -> dcd_sized q -> disjoint_blocks (b_signed b ++ b_enc b)).
Proof. exact blocks_cover_built. Qed.
Print Assumptions signed_blocks_cover.
