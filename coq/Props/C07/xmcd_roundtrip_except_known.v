From Coq Require Import ZArith NArith List Bool Lia.
Require Import Value Bytes Sha2 Aes Modes HabModel HabProofs.
Import ListNotations.
Local Open Scope Z_scope.

(* C07: SegXMCD.parse -> export is the identity on every XMCD block whose instance number is 0 (known finding C07-F2). *)
Theorem xmcd_roundtrip_except_known :
  forall iface typ cfg, xmcd_wf iface 0 typ cfg ->
  bind (xmcd_load (xmcd_bytes iface 0 typ cfg)) xmcd_export = Ok (xmcd_bytes iface 0 typ cfg).
Proof. exact xmcd_roundtrip_inst0. Qed.
Print Assumptions xmcd_roundtrip_except_known.
