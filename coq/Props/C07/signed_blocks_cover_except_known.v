From Coq Require Import ZArith NArith List Bool Lia.
Require Import Value Bytes Sha2 Aes Modes HabModel HabProofs.
Import ListNotations.
Local Open Scope Z_scope.

(* C07: without XMCD (known finding C07-F1) the blocks written into Authenticate Data (plus Decrypt Data for an encrypted
   image) cover exactly IVT, boot-data slot, DCD and the whole application -- no gap, and no overlap when the DCD ends
   before the application. *)
Theorem signed_blocks_cover_except_known :
  forall c b q, hab_build c = Ok b -> hab_pre c = Ok q -> c_auth c = true -> h_xmcd c = None ->
  (forall p, in_blocks c (b_signed b ++ b_enc b) p <-> content_pos c q p) /\
  (0 <= q_dcd_sz q -> 64 + q_dcd_sz q <= c_app_off c -> disjoint_blocks (b_signed b ++ b_enc b)).
Proof. exact blocks_cover_built. Qed.
Print Assumptions signed_blocks_cover_except_known.
