From Coq Require Import ZArith NArith List Bool Lia.
Require Import Value Bytes Sha2 Aes Modes HabModel HabProofs.
Import ListNotations.
Local Open Scope Z_scope.

(* C07: parse(export) recovers IVT, boot data, DCD, XMCD and application (with the zero gap up to the CSF) of every
   image the builder produces (non-empty application at or after IVT+0x44, well-formed DCD / XMCD objects: layout_wf;
   that the segments do not collide follows from the successful build: segments_do_not_collide) whose application
   is found by the reset-vector search of AppHabSegment.parse.  The CSF contents are covered by csf_offsets_resolve /
   cms_obligations_ranges and by the correspondence check. *)
Theorem hab_layout_roundtrip :
  forall c b q, hab_build c = Ok b -> hab_pre c = Ok q -> layout_wf c q ->
  (c_enc c = true -> wf_bytes (h_dek c)) ->
  find_app_off (b_image b) (c_entry c) known_offsets = Ok (c_app_off c) ->
  parse_ivt_bdt (b_image b) = Ok (c_ivt c, (h_start c, c_bdt_len c, 0)) /\
  parse_dcd (b_image b) (c_ivt c) = Ok (q_dcd_b q) /\
  parse_xmcd (b_image b) = Ok (q_xm_b q) /\
  parse_app (b_image b) (c_ivt c) = Ok (c_app_off c, b_app b ++ gap_tail c b) /\
  (c_enc c = false -> b_app b = c_app_bin c).
Proof. exact layout_roundtrip'. Qed.
Print Assumptions hab_layout_roundtrip.
