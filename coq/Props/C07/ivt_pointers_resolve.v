From Coq Require Import ZArith NArith List Bool Lia.
Require Import Value Bytes Sha2 Aes Modes HabModel HabProofs.
Import ListNotations.
Local Open Scope Z_scope.

(* C07: in every exported image the IVT is at offset 0 and parses back to the configured IVT; its self pointer is the load
   address; the boot-data / DCD / CSF pointers, taken relative to the self pointer, are the offsets at which exactly those
   segments' bytes stand; the application stands at initialLoadSize - ivtOffset; the boot-data length is the length of the
   exported image counted from the start address (+ 0x200 key-blob slot when encrypted). *)
Theorem ivt_pointers_resolve :
  forall c b q, hab_build c = Ok b -> hab_pre c = Ok q -> layout_wf c q ->
  (c_enc c = true -> wf_bytes (h_dek c)) ->
  iv_self (c_ivt c) = h_start c + h_ivt_off c /\
  hslice (b_image b) 0 32 = q_ivt_b q /\ ivt_parse (q_ivt_b q) = Ok (c_ivt c) /\
  hslice (b_image b) (iv_bdt (c_ivt c) - iv_self (c_ivt c)) (iv_bdt (c_ivt c) - iv_self (c_ivt c) + 12) = q_bdt_b q /\
  bdt_parse (q_bdt_b q) = Ok (h_start c, c_bdt_len c, 0) /\
  (match q_dcd_b q with
   | Some d => hslice (b_image b) (iv_dcd (c_ivt c) - iv_self (c_ivt c)) (iv_dcd (c_ivt c) - iv_self (c_ivt c) + hlen d) = d
   | None => iv_dcd (c_ivt c) = 0
   end) /\
  hslice (b_image b) (c_app_off c) (c_app_off c + hlen (b_app b)) = b_app b /\
  (if c_auth c
   then hskip (b_image b) (iv_csf (c_ivt c) - iv_self (c_ivt c)) = b_csf b /\
        (hlen (b_csf b) = 8192 -> c_bdt_len c = h_ivt_off c + hlen (b_image b) + (if c_enc c then 512 else 0))
   else iv_csf (c_ivt c) = 0 /\ c_bdt_len c = h_ivt_off c + hlen (b_image b)).
Proof. exact pointers_resolve'. Qed.
Print Assumptions ivt_pointers_resolve.
