From Coq Require Import ZArith NArith List Bool Lia.
Require Import Value Bytes Sha2 Aes Modes HabModel HabProofs.
Import ListNotations.
Local Open Scope Z_scope.

(* C07: in the exported CSF every Install Key / Authenticate Data command that references cmd-data (SRK table, certificate,
   signature, MAC) carries, in its location field, the offset at which exactly that object's bytes stand; the objects
   follow the signed header-and-commands part. *)
Theorem csf_offsets_resolve :
  forall c b q, hab_build c = Ok b -> hab_pre c = Ok q -> c_auth c = true ->
  exists cmds raw,
    csf_export_raw (h_ver c) cmds = Ok raw /\ b_csf b = pad_to 8192 raw /\ b_tbs_csf b = csf_base (h_ver c) cmds /\
    (exists t, raw = b_tbs_csf b ++ t) /\
    Forall (fun p => needs_ref (fst p) = true -> forall d, cmd_dat (fst p) = Some d ->
                     u32be_at (cmd_export (fst p) (snd p)) 8 = snd p /\ hslice raw (snd p) (snd p + hlen d) = d)
           (combine cmds (csf_offsets (csf_hlen cmds) cmds)).
Proof. exact csf_offsets_built. Qed.
Print Assumptions csf_offsets_resolve.
