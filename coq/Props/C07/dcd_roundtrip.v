From Coq Require Import ZArith NArith List Bool Lia.
Require Import Value Bytes HabModel HabProofs HabDcdProofs.
Import ListNotations.
Local Open Scope Z_scope.

(* C07: SegDCD.parse of a DCD in the HAB4 TLV encoding (any list of well-formed Write Data / Check Data / NOP / Unlock
   commands, followed by arbitrary bytes) yields command objects whose export is the input, and parsing that export again
   gives the same objects (the dcd_stable premise of hab_layout_roundtrip holds for every such DCD). *)
Theorem dcd_roundtrip :
  forall ver cmds rest, dcd_wf ver cmds ->
  dcd_parse (dcd_bytes ver cmds ++ rest) = Ok (dcd_obj ver cmds) /\
  dcd_export (dcd_obj ver cmds) = dcd_bytes ver cmds /\
  dcd_stable (dcd_obj ver cmds) /\
  dcd_size (dcd_obj ver cmds) = hlen (dcd_bytes ver cmds).
Proof. intros ver cmds rest W. destruct (dcd_parse_spec ver cmds rest W). repeat split; try assumption; [now apply dcd_spec_stable | apply dcd_obj_sized; apply W]. Qed.
Print Assumptions dcd_roundtrip.
