From Coq Require Import ZArith NArith List Bool Lia.
Require Import Value Bytes Sha2 Aes Modes HabModel HabProofs.
Import ListNotations.
Local Open Scope Z_scope.

(* C07-F1: an authenticated image with an XMCD: the XMCD bytes (offset 0x40) are content but lie in no listed block
   (SegXMCD has no size property, the block is (address, 0)). *)
Theorem signed_blocks_cover_refuted :
  exists c, c_auth c = true /\ is_ok (hab_build c) = true /\
  forall b q, hab_build c = Ok b -> hab_pre c = Ok q ->
    exists p, content_pos c q p /\ ~ in_blocks c (b_signed b ++ b_enc b) p.
Proof. exists cw_xmcd. destruct xmcd_not_covered as (H1 & H2 & H3). repeat split; try assumption. intros b q Hb Hq. exists 64. now apply H3. Qed.
Print Assumptions signed_blocks_cover_refuted.
