From Coq Require Import ZArith NArith List Bool Lia.
Require Import Value Bytes Sha2 Aes Modes HabModel HabProofs HabHistProofs.
Import ListNotations.
Local Open Scope Z_scope.

(* C07 (history): HabContainer.update_csf() can be repeated. The state that survives between calls is the CSF command list
   (block lists, signature / MAC objects); for every k, after k further update_csf() calls with the same signing inputs on the
   object load_from_config returned, export() gives exactly what the first export gave (image, block lists, signed bytes,
   nonce, MAC). *)
Theorem update_csf_repeatable :
  forall c b q k, hab_build c = Ok b -> hab_pre c = Ok q -> c_auth c = true -> layout_wf c q ->
  (c_enc c = true -> wf_bytes (h_dek c)) ->
  exists cmds, hab_updates c q k (q_cmds0 q) = Ok (cmds, b).
Proof. exact update_csf_history. Qed.
Print Assumptions update_csf_repeatable.
