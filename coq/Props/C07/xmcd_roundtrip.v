From Coq Require Import ZArith NArith List Bool Lia.
Require Import Value Bytes Sha2 Aes Modes HabModel HabProofs.
Import ListNotations.
Local Open Scope Z_scope.

(* C07: SegXMCD.parse -> export is the identity on every XMCD block the 4-byte header can describe: interface 0/1
   (the only values XMCDHeader accepts), instance 0..15, block type 0/1, total size < 4096 (12-bit size field). *)
Theorem xmcd_roundtrip :
  forall iface inst typ cfg, xmcd_wf iface inst typ cfg ->
  bind (xmcd_load (xmcd_bytes iface inst typ cfg)) xmcd_export = Ok (xmcd_bytes iface inst typ cfg).
Proof. exact xmcd_roundtrip_all. Qed.
Print Assumptions xmcd_roundtrip.
