From Coq Require Import ZArith NArith List Bool.
Require Import Value GenFresh FreshModel FreshProofs FreshGenProofs.
Import ListNotations.
Local Open Scope N_scope.

(* C17: on the current source every entropy draw found by the extractor is evaluated per call (none in a default
   argument, class body or at module level), and spsdk.crypto.rng.random_bytes is secrets.token_bytes. *)
Theorem sites_all_percall : all_percall gen_sites = true /\ gen_rng_direct = true.
Proof. exact (conj gen_all_percall gen_rng_direct_true). Qed.
Print Assumptions sites_all_percall.
