From Coq Require Import ZArith NArith List Bool.
Require Import Value FreshModel FreshProofs.
Import ListNotations.
Local Open Scope N_scope.

(* C17, across interpreter restarts, for ANY site table (import-time sites included): the secrets of artifacts made
   after a restart come from draws later than every draw recorded before it (one non-repeating OS stream assumed). *)
Theorem restart_redraws :
  forall (t : table) (c : closure) (h1 h2 : list op),
  exists later,
    w_slots (run t c (h1 ++ Restart :: h2)) = w_slots (run t c h1) ++ later /\
    forall i j, In i (indices (w_slots (run t c h1))) -> In j (indices later) -> i < j.
Proof. exact restart_split. Qed.
Print Assumptions restart_redraws.
