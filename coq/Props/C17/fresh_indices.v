From Coq Require Import ZArith NArith List Bool.
Require Import Value FreshModel FreshProofs.
Import ListNotations.
Local Open Scope N_scope.

(* C17: if every draw site is per-call then, for every history (any interleaving of imports, constructions with any
   subset of user supplied secrets, exports, lazy reads, interpreter restarts), no draw number feeds two secret slots. *)
Theorem fresh_indices :
  forall (t : table) (c : closure), all_percall t = true ->
  forall h : list op, NoDup (indices (w_slots (run t c h))).
Proof. exact fresh_nodup. Qed.
Print Assumptions fresh_indices.
