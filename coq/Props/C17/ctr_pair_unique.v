From Coq Require Import ZArith NArith List Bool.
Require Import Value FreshModel FreshProofs.
Import ListNotations.
Local Open Scope N_scope.

(* C17: two different artifacts never carry the same (key, nonce) pair when at least one component was invented. *)
Theorem ctr_pair_unique :
  forall (t : table) (c : closure), all_percall t = true ->
  forall (h : list op) (a b fk fn fk' fn' : N) (k n : origin),
    a <> b ->
    In (a, fk, k) (w_slots (run t c h)) -> In (a, fn, n) (w_slots (run t c h)) ->
    In (b, fk', k) (w_slots (run t c h)) -> In (b, fn', n) (w_slots (run t c h)) ->
    is_draw k = true \/ is_draw n = true -> False.
Proof. exact ctr_pair_unique_lem. Qed.
Print Assumptions ctr_pair_unique.
