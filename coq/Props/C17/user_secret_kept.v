From Coq Require Import ZArith NArith List Bool.
Require Import Value FreshModel FreshProofs.
Import ListNotations.
Local Open Scope N_scope.

(* C17: a secret supplied by the user consumes no entropy and is recorded as the user's value, whatever the guard. *)
Theorem user_secret_kept :
  forall (t : table) (s : rs) (f site : N) (es : list N) (g : guard) (v len : N),
    exec_item t s (Item f site es g (AGiven v) len true) = (s, [], [(f, OUser v)]).
Proof. exact exec_item_user. Qed.
Print Assumptions user_secret_kept.
