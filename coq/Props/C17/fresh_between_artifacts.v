From Coq Require Import ZArith NArith List Bool.
Require Import Value FreshModel FreshProofs.
Import ListNotations.
Local Open Scope N_scope.

(* C17: ... hence two recorded secrets that come from the same draw are the same field of the same artifact. *)
Theorem fresh_between_artifacts :
  forall (t : table) (c : closure), all_percall t = true ->
  forall (h : list op) (a fa b fb i : N),
    In (a, fa, ODraw i) (w_slots (run t c h)) -> In (b, fb, ODraw i) (w_slots (run t c h)) ->
    a = b /\ fa = fb.
Proof. exact fresh_slot_unique. Qed.
Print Assumptions fresh_between_artifacts.
