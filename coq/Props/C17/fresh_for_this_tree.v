From Coq Require Import ZArith NArith List Bool.
Require Import Value GenFresh FreshModel FreshProofs FreshGenProofs.
Import ListNotations.
Local Open Scope N_scope.

(* C17 for the site table extracted from the current source, without premise. *)
Theorem fresh_for_this_tree :
  forall h : list op,
  NoDup (indices (w_slots (run gen_sites gen_closure h))) /\
  (forall a fa b fb i,
      In (a, fa, ODraw i) (w_slots (run gen_sites gen_closure h)) ->
      In (b, fb, ODraw i) (w_slots (run gen_sites gen_closure h)) -> a = b /\ fa = fb) /\
  (forall a b fk fn fk' fn' k n,
      a <> b ->
      In (a, fk, k) (w_slots (run gen_sites gen_closure h)) -> In (a, fn, n) (w_slots (run gen_sites gen_closure h)) ->
      In (b, fk', k) (w_slots (run gen_sites gen_closure h)) -> In (b, fn', n) (w_slots (run gen_sites gen_closure h)) ->
      is_draw k = true \/ is_draw n = true -> False).
Proof. exact fresh_this_tree. Qed.
Print Assumptions fresh_for_this_tree.
