From Coq Require Import ZArith NArith List Bool.
Require Import Value FreshModel FreshProofs.
Import ListNotations.
Local Open Scope N_scope.

(* C17, necessity of the per-call premise: each of the three import-time shapes that existed before the repairs
   (default argument SBV2xAdvancedParams() of BootImageV21 / BootImageV20, class-body draw of the MBI counter IV)
   has a history in which two artifacts share draws. *)
Theorem import_time_default_is_shared :
  (~ NoDup (indices (w_slots (run [((2, 511), false, 32)] [] [Restart; New 2 0 []; New 2 0 []])))) /\
  (~ NoDup (indices (w_slots (run [((2, 160), false, 31)] [] [Restart; New 1 0 []; New 1 0 []])))) /\
  (~ NoDup (indices (w_slots (run [((3, 1854), false, 33)] []
                                  [Restart; New 4 0 []; New 4 4 []; Act 0 1 AAbsent; Act 1 1 AAbsent])))).
Proof. exact import_time_shapes_refuted. Qed.
Print Assumptions import_time_default_is_shared.
