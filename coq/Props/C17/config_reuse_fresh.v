From Coq Require Import ZArith NArith List Bool.
Require Import Value FreshModel FreshProofs.
Import ListNotations.
Local Open Scope N_scope.

(* C17: a configuration object is an immutable input.  Building again from the SAME configuration object as artifact j
   (load_from_config / get_advanced_params / get_dek_from_config called a second time with the same dict) gives an
   artifact that shares no draw with artifact j, for every history before it. *)
Theorem config_reuse_fresh :
  forall (t : table) (c : closure), all_percall t = true ->
  forall (h : list op) (j : N), j < nlen (w_objs (run t c h)) ->
  forall (f f' i : N),
    In (j, f, ODraw i) (w_slots (run t c (h ++ [Again j]))) ->
    In (nlen (w_objs (run t c h)), f', ODraw i) (w_slots (run t c (h ++ [Again j]))) -> False.
Proof. exact config_reuse_fresh_lem. Qed.
Print Assumptions config_reuse_fresh.
