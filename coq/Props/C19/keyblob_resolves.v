From Coq Require Import String ZArith NArith List Bool.
Require Import Value Bytes GenBd BdModel BdProofs.
Import ListNotations.
Local Open Scope string_scope.
Local Open Scope list_scope.
Local Open Scope Z_scope.

(* key blobs resolve to their definitions: with distinct ids, keywrap (id) / encrypt (id) use exactly the start, end, key and
   counter given in keyblob (id), wherever that block stands *)
Theorem keyblob_resolves :
  forall kbs id c s e k ct kb cb,
    NoDup (map fst kbs) -> In (id, c) kbs ->
    dget "start" c = Some (DInt s) -> dget "end" c = Some (DInt e) ->
    dget "key" c = Some (DStr k) -> dget "counter" c = Some (DStr ct) ->
    fromhex k = Some kb -> fromhex ct = Some cb -> List.length kb = 16%nat -> List.length cb = 8%nat ->
    0 <= s <= e -> e <= 4294967295 -> Z.land s 1023 = 0 ->
    resolve_keyblob kbs id =
      Ok {| kb_start := s; kb_end := e; kb_key := kb; kb_ctr := cb; kb_swap := truthy (dget "byte_swap" c) |}.
Proof. exact BdProofs.keyblob_resolves. Qed.
Print Assumptions keyblob_resolves.
