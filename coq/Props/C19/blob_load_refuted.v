From Coq Require Import String ZArith NArith List Bool.
Require Import Value Bytes GenBd BdModel BdProofs BdF4Proofs.
Import ListNotations.
Local Open Scope string_scope.
Local Open Scope list_scope.
Local Open Scope Z_scope.

(* C19-F4: load {{aa bb cc dd}} loads dd cc bb aa; blobs longer than four bytes are refused; shorter ones grow to four *)
Theorem blob_load_refuted :
  let c := {| vars := []; srcs := [] |} in
  (exists cmd1 cmd2, stmt_spec c [] [] (SLoad MNone (LBlob [170; 187; 204; 221]%N) (TAddr (ELit 256))) = Some cmd1 /\
                     compile_impl c [] [] (SLoad MNone (LBlob [170; 187; 204; 221]%N) (TAddr (ELit 256))) = Ok cmd2 /\
                     c_payload cmd1 = PBytes [170; 187; 204; 221]%N /\ c_payload cmd2 = PBytes [221; 204; 187; 170]%N) /\
  (exists cmd1, stmt_spec c [] [] (SLoad MNone (LBlob [1; 2; 3; 4; 5; 6; 7; 8]%N) (TAddr (ELit 256))) = Some cmd1 /\
                compile_impl c [] [] (SLoad MNone (LBlob [1; 2; 3; 4; 5; 6; 7; 8]%N) (TAddr (ELit 256))) = Err 1%N) /\
  (exists cmd2, compile_impl c [] [] (SLoad MNone (LBlob [1; 2]%N) (TAddr (ELit 256))) = Ok cmd2 /\
                c_payload cmd2 = PBytes [2; 1; 0; 0]%N).
Proof. exact BdF4Proofs.blob_load_refuted. Qed.
Print Assumptions blob_load_refuted.
