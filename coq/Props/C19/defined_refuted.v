From Coq Require Import String ZArith NArith List Bool.
Require Import Value Bytes GenBd BdModel BdProofs BdF2Proofs.
Import ListNotations.
Local Open Scope string_scope.
Local Open Scope list_scope.
Local Open Scope Z_scope.

(* C19-F2: defined(x) is False although x is defined *)
Theorem defined_refuted :
  exists env x, is_defined env x = true /\ beval_impl env (BDefined x) = Ok 0 /\ beval_spec env (BDefined x) = Some 1.
Proof. exact BdF2Proofs.defined_refuted. Qed.
Print Assumptions defined_refuted.
