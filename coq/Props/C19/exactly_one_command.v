From Coq Require Import String ZArith NArith List Bool.
Require Import Value Bytes GenBd BdModel BdProofs.
Import ListNotations.
Local Open Scope string_scope.
Local Open Scope list_scope.
Local Open Scope Z_scope.

(* one statement, one command: load_from_config keeps sections and statements one to one and in order *)
Theorem exactly_one_command :
  (forall fs cf l, load_config fs cf = Ok l ->
     Forall2 (fun sec cmds => List.length cmds = List.length (cs_cmds sec)) (cf_sections cf) l) /\
  (forall p cf, parse_program p = Ok cf ->
     Forall2 (fun s sec => List.length (cs_cmds sec) = List.length (sec_stmts s)) (p_sections p) (cf_sections cf)).
Proof. exact BdProofs.exactly_one_command. Qed.
Print Assumptions exactly_one_command.
