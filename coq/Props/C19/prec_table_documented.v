From Coq Require Import String ZArith NArith List Bool.
Require Import Value Bytes GenBd BdModel BdProofs.
Import ListNotations.
Local Open Scope string_scope.
Local Open Scope list_scope.
Local Open Scope Z_scope.

(* the `precedence` tuple extracted from sly_bd_parser.py on this run orders the operators of the language exactly as
   the C table does (c_table: || < && < | < ^ < & < == != < relational < shifts < + - < * / %), every one of them is
   present and associates to the left, a sign takes the precedence of binary minus (yacc: last terminal of the rule), and
   the integer-size suffix binds tighter than every binary operator *)
Theorem prec_table_documented :
  (forall p q, In p c_table -> In q c_table ->
     Nat.compare (prec_level precedence (fst p)) (prec_level precedence (fst q)) = Nat.compare (snd p) (snd q)) /\
  (forall p, In p c_table -> assoc_of precedence (fst p) = LeftA /\ prec_level precedence (fst p) <> 0%nat) /\
  unary_lvl = lvl Sub /\ (forall o, (lvl o < size_lvl)%nat).
Proof. exact BdProofs.prec_table_documented. Qed.
Print Assumptions prec_table_documented.
