From Coq Require Import String ZArith NArith List Bool.
Require Import Value Bytes GenBd BdModel BdProofs.
Import ListNotations.
Local Open Scope string_scope.
Local Open Scope list_scope.
Local Open Scope Z_scope.

(* C19: every statement becomes the command the language prescribes, or is refused exactly when the specification refuses
   it: parser action -> dictionary -> SB21Helper handler -> command constructor agrees with the direct specification for
   load (file / source / blob / pattern, fuse-ifr programming), erase, enable, call, jump, jump_sp, reset, version_check,
   keystore_to_nv / from_nv, keywrap, encrypt.  No premise (a memory option with an empty name is not syntax: neither side
   has a command for it). *)
Theorem stmt_sem :
  forall (c : pctx) (fs : files) (kbs : keyblobs) (s : stmt),
    to_opt (compile_impl c fs kbs s) = stmt_spec c fs kbs s.
Proof. exact BdProofs.stmt_sem. Qed.
Print Assumptions stmt_sem.
