From Coq Require Import String ZArith NArith List Bool.
Require Import Value Bytes GenBd BdModel BdProofs.
Import ListNotations.
Local Open Scope string_scope.
Local Open Scope list_scope.
Local Open Scope Z_scope.

(* constants resolve to their definitions: a constant defined once is evaluated in the environment of the definitions
   before it, and later references find that value *)
Theorem consts_resolve :
  forall st defs1 x b defs2 st',
    run_constants st (defs1 ++ (x, b) :: defs2) = Ok st' ->
    ~ In x (map fst (st_vars st)) -> ~ In x (map fst defs1) ->
    exists st1 z, run_constants st defs1 = Ok st1 /\ beval_impl (st_vars st1) b = Ok z /\
                  lookup_var x (st_vars st') = Some (DInt z).
Proof. exact BdProofs.consts_resolve. Qed.
Print Assumptions consts_resolve.
