From Coq Require Import String ZArith NArith List Bool.
Require Import Value Bytes GenBd BdModel BdProofs.
Import ListNotations.
Local Open Scope string_scope.
Local Open Scope list_scope.
Local Open Scope Z_scope.

(* every construct documented as unsupported is refused with an SPSDK error: by the production that matches it (its action
   calls self.error, as extracted from the parser on this run) or, for section options, by BootImageV21.load_from_config *)
Theorem unsupported_refused :
  forall u : unsupported, unsupported_outcome u = Err 1%N.
Proof. exact BdProofs.unsupported_refused. Qed.
Print Assumptions unsupported_refused.
