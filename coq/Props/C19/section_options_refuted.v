From Coq Require Import String ZArith NArith List Bool.
Require Import Value Bytes GenBd BdModel BdProofs.
Import ListNotations.
Local Open Scope string_scope.
Local Open Scope list_scope.
Local Open Scope Z_scope.

(* C19-F7: section options, documented as "not supported and raises syntax error", are accepted *)
Theorem section_options_refuted : reduce_unsupported U_section_options = Ok tt.
Proof. exact BdProofs.section_options_refuted. Qed.
Print Assumptions section_options_refuted.
