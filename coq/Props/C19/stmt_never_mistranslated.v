From Coq Require Import String ZArith NArith List Bool.
Require Import Value Bytes GenBd BdModel BdProofs.
Import ListNotations.
Local Open Scope string_scope.
Local Open Scope list_scope.
Local Open Scope Z_scope.

(* whatever SPSDK accepts is the specified command *)
Theorem stmt_never_mistranslated :
  forall c fs kbs s cmd, compile_impl c fs kbs s = Ok cmd -> stmt_spec c fs kbs s = Some cmd.
Proof. exact BdProofs.stmt_never_mistranslated. Qed.
Print Assumptions stmt_never_mistranslated.
