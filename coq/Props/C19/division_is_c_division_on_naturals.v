From Coq Require Import String ZArith NArith List Bool.
Require Import Value Bytes GenBd BdModel BdProofs.
Import ListNotations.
Local Open Scope string_scope.
Local Open Scope list_scope.
Local Open Scope Z_scope.

(* the floor convention of / and % used by the specification (and by the code) is the C convention on naturals *)
Theorem division_is_c_division_on_naturals :
  forall a b, 0 <= a -> 0 < b ->
    spec_binop Div a b = Some (Z.quot a b) /\ spec_binop Mod a b = Some (Z.rem a b).
Proof. exact BdProofs.division_is_c_division_on_naturals. Qed.
Print Assumptions division_is_c_division_on_naturals.
