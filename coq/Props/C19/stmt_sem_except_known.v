From Coq Require Import String ZArith NArith List Bool.
Require Import Value Bytes GenBd BdModel BdProofs.
Import ListNotations.
Local Open Scope string_scope.
Local Open Scope list_scope.
Local Open Scope Z_scope.

(* each supported statement becomes the command the language prescribes, or is refused exactly when the specification
   refuses it: parser action -> dictionary -> SB21Helper handler -> command constructor agrees with the direct
   specification for every statement outside the finding classes (blob load, reset, call, size suffix, encrypt at an
   offset inside the key blob) *)
Theorem stmt_sem_except_known :
  forall (c : pctx) (fs : files) (kbs : keyblobs) (s : stmt),
    sclean s = true -> enc_at_start c kbs s = true -> to_opt (compile_impl c fs kbs s) = stmt_spec c fs kbs s.
Proof. exact BdProofs.stmt_sem_except_known. Qed.
Print Assumptions stmt_sem_except_known.
