From Coq Require Import String ZArith NArith List Bool.
Require Import Value Bytes GenBd BdModel BdProofs.
Import ListNotations.
Local Open Scope string_scope.
Local Open Scope list_scope.
Local Open Scope Z_scope.

(* the precedence table is what a printed expression means: the precedence parser over the extracted table inverts the
   printer that inserts exactly the parentheses the table requires, for every expression (no bound on size) *)
Theorem print_parse :
  forall e : expr, canonical e = true -> parse_tokens (print_expr e) = Some e.
Proof. exact BdProofs.print_parse. Qed.
Print Assumptions print_parse.
