From Coq Require Import String ZArith NArith List Bool.
Require Import Value Bytes GenBd BdModel BdProofs.
Import ListNotations.
Local Open Scope string_scope.
Local Open Scope list_scope.
Local Open Scope Z_scope.

(* C19: boolean constant expressions -- comparisons, && || ! over arbitrary operands, defined() -- evaluate to the truth
   values 1 / 0 of ordinary logic; defined(x) is true exactly when x has an earlier definition.  No premise. *)
Theorem bool_sem :
  forall (env : env) (b : bexpr), to_opt (beval_impl env b) = beval_spec env b.
Proof. exact BdProofs.bool_sem. Qed.
Print Assumptions bool_sem.
