From Coq Require Import String ZArith NArith List Bool.
Require Import Value Bytes GenBd BdModel BdProofs.
Import ListNotations.
Local Open Scope string_scope.
Local Open Scope list_scope.
Local Open Scope Z_scope.

(* C19: boolean constant expressions (comparisons, && || !) evaluate to the truth values 1 / 0 of ordinary logic, for
   every expression outside the finding classes (size suffix, defined(), && / || applied to a non-boolean operand). *)
Theorem bool_sem_except_known :
  forall (env : env) (b : bexpr), bclean b = true -> to_opt (beval_impl env b) = beval_spec env b.
Proof. exact BdProofs.bool_sem_except_known. Qed.
Print Assumptions bool_sem_except_known.
