From Coq Require Import String ZArith NArith List Bool.
Require Import Value Bytes GenBd BdModel BdProofs.
Import ListNotations.
Local Open Scope string_scope.
Local Open Scope list_scope.
Local Open Scope Z_scope.

(* C19: integer constant expressions evaluate with ordinary arithmetic.  The implementation side evaluates an AST with the
   operator -> Python operation table extracted from the `expr` / `unary_expr` actions of sly_bd_parser.py on this run;
   the specification side is arithmetic on Z.  All inputs; the only excluded class is the integer-size suffix (C19-F1). *)
Theorem expr_sem_except_known :
  forall (env : env) (e : expr), no_size e = true -> to_opt (eval_impl env e) = eval_spec env e.
Proof. exact BdProofs.expr_sem_except_known. Qed.
Print Assumptions expr_sem_except_known.
