From Coq Require Import String ZArith NArith List Bool.
Require Import Value Bytes GenBd BdModel BdProofs.
Import ListNotations.
Local Open Scope string_scope.
Local Open Scope list_scope.
Local Open Scope Z_scope.

(* every construct documented as unsupported is matched by a production whose action calls self.error (which raises
   SPSDKError), as extracted from the parser on this run -- except section options (C19-F7) *)
Theorem unsupported_refused_except_known :
  forall u : unsupported, u <> U_section_options -> reduce_unsupported u = Err 1%N.
Proof. exact BdProofs.unsupported_refused_except_known. Qed.
Print Assumptions unsupported_refused_except_known.
