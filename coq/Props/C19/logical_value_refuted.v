From Coq Require Import String ZArith NArith List Bool.
Require Import Value Bytes GenBd BdModel BdProofs BdF3Proofs.
Import ListNotations.
Local Open Scope string_scope.
Local Open Scope list_scope.
Local Open Scope Z_scope.

(* C19-F3: a && b / a || b yield one of the operands instead of a truth value *)
Theorem logical_value_refuted :
  beval_impl [] (BAndL (BInt (ELit 2)) (BInt (ELit 3))) = Ok 3 /\
  beval_spec [] (BAndL (BInt (ELit 2)) (BInt (ELit 3))) = Some 1 /\
  beval_impl [] (BCmp CEq (BAndL (BInt (ELit 2)) (BInt (ELit 3))) (BInt (ELit 1))) = Ok 0 /\
  beval_spec [] (BCmp CEq (BAndL (BInt (ELit 2)) (BInt (ELit 3))) (BInt (ELit 1))) = Some 1 /\
  beval_impl [] (BOrL (BInt (ELit 0)) (BInt (ELit 5))) = Ok 5.
Proof. exact BdF3Proofs.logical_value_refuted. Qed.
Print Assumptions logical_value_refuted.
