From Coq Require Import String ZArith NArith List Bool.
Require Import Value Bytes GenBd BdModel BdProofs BdF8Proofs.
Import ListNotations.
Local Open Scope string_scope.
Local Open Scope list_scope.
Local Open Scope Z_scope.

(* C19-F8: encrypt (id) { load data > addr; } with addr inside, but not at the start of, the key blob: SB21Helper._encrypt
   calls KeyBlob.encrypt_image without counter_value, so the AES-CTR counter starts at the key blob start instead of the
   system address of the data; the OTFAD hardware (and Otfad.encrypt_image) use the system address *)
Theorem encrypt_counter_refuted :
  sclean f8_stmt = true /\ enc_at_start f8_ctx f8_kbs f8_stmt = false /\
  exists k c d,
    option_map c_payload (stmt_spec f8_ctx f8_files f8_kbs f8_stmt) = Some (PEnc k c 134221824 134226943 false 134222848 134222848 d) /\
    option_map c_payload (to_opt (compile_impl f8_ctx f8_files f8_kbs f8_stmt)) = Some (PEnc k c 134221824 134226943 false 134221824 134222848 d).
Proof. exact BdF8Proofs.encrypt_counter_refuted. Qed.
Print Assumptions encrypt_counter_refuted.
