From Coq Require Import String ZArith NArith List Bool.
Require Import Value Bytes GenBd BdModel BdProofs.
Import ListNotations.
Local Open Scope string_scope.
Local Open Scope list_scope.
Local Open Scope Z_scope.

(* every binary production of the expr / bool_expr actions dispatches to a table row (none falls through to
   `return token[1]`), and every operator of the language has a production *)
Theorem every_operator_production_has_a_row :
  (forall t, In t expr_binary_tokens -> exists r, lookup_op t expr_ops = Some r) /\
  (forall t, In t bool_binary_tokens -> exists r, lookup_op t bool_ops = Some r) /\
  (forall o, In (binop_text o) expr_binary_tokens) /\
  (forall o, In (cmpop_text o) bool_binary_tokens) /\
  In "&&" bool_binary_tokens /\ In "||" bool_binary_tokens /\
  unary_tokens = ["+"; "-"].
Proof. exact BdProofs.every_operator_production_has_a_row. Qed.
Print Assumptions every_operator_production_has_a_row.
