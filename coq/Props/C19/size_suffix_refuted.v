From Coq Require Import String ZArith NArith List Bool.
Require Import Value Bytes GenBd BdModel BdProofs BdF1Proofs.
Import ListNotations.
Local Open Scope string_scope.
Local Open Scope list_scope.
Local Open Scope Z_scope.

(* C19-F1: the integer-size suffixes .w/.h/.b mask with 0xFFFF/0xFF/0xF instead of word/half-word/byte, and the suffix
   binds looser than every operator (PERIOD has no precedence): 0xa.b + 0xb.b reads as (0xa.b + 0xb).b *)
Theorem size_suffix_refuted :
  (exists env e, to_opt (eval_impl env e) <> eval_spec env e) /\
  eval_impl [] (ESize (ELit 85) SzB) = Ok 5 /\ eval_spec [] (ESize (ELit 85) SzB) = Some 85 /\
  eval_impl [] (ESize (ELit 4386) SzH) = Ok 34 /\ eval_spec [] (ESize (ELit 4386) SzH) = Some 4386 /\
  parse_tokens [TNum 10; TSize SzB; TOp Add; TNum 11; TSize SzB]
    = Some (ESize (EBin Add (ESize (ELit 10) SzB) (ELit 11)) SzB).
Proof. exact BdF1Proofs.size_suffix_refuted. Qed.
Print Assumptions size_suffix_refuted.
