From Coq Require Import String ZArith NArith List Bool.
Require Import Value Bytes GenBd BdModel BdProofs.
Import ListNotations.
Local Open Scope string_scope.
Local Open Scope list_scope.
Local Open Scope Z_scope.

(* C19: integer constant expressions evaluate with ordinary arithmetic -- every expression, integer-size suffixes included.
   The implementation side evaluates an AST with the operator -> Python operation table and the suffix masks extracted from
   the `expr` / `unary_expr` actions of sly_bd_parser.py on this run; the specification side is arithmetic on Z
   (.b / .h / .w keep 8 / 16 / 32 bits: the widths of the SB21Helper docstring example and of the elftosb convention;
   docs/usage/elf2sb.md itself only gives the production expr '.' INT_SIZE).  No premise. *)
Theorem expr_sem :
  forall (env : env) (e : expr), to_opt (eval_impl env e) = eval_spec env e.
Proof. exact BdProofs.expr_sem. Qed.
Print Assumptions expr_sem.
