From Coq Require Import String ZArith NArith List Bool.
Require Import Value Bytes GenBd BdModel BdProofs BdF5Proofs.
Import ListNotations.
Local Open Scope string_scope.
Local Open Scope list_scope.
Local Open Scope Z_scope.

(* C19-F5: reset / call are parsed, but SB21Helper.cmds has no handler: KeyError instead of one RESET / CALL command *)
Theorem reset_call_refuted :
  let c := {| vars := []; srcs := [] |} in
  compile_impl c [] [] SReset = Err 2%N /\ stmt_spec c [] [] SReset = Some (mk 8 0 0 0 0 PNone (-1)) /\
  compile_impl c [] [] (SCall false (ELit 256) (AArg (ELit 5))) = Err 2%N /\
  stmt_spec c [] [] (SCall false (ELit 256) (AArg (ELit 5))) = Some (mk 5 0 256 0 5 PNone (-1)).
Proof. exact BdF5Proofs.reset_call_refuted. Qed.
Print Assumptions reset_call_refuted.
