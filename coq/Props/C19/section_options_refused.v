From Coq Require Import String ZArith NArith List Bool.
Require Import Value Bytes GenBd BdModel BdProofs.
Import ListNotations.
Local Open Scope string_scope.
Local Open Scope list_scope.
Local Open Scope Z_scope.

(* a configuration in which some section carries options is never turned into commands *)
Theorem section_options_refused :
  forall fs cf sec, In sec (cf_sections cf) -> cs_opts sec <> [] -> is_ok (load_config fs cf) = false.
Proof. exact BdProofs.section_options_refused_by_load. Qed.
Print Assumptions section_options_refused.
