From Coq Require Import String ZArith NArith List Bool.
Require Import Value Bytes GenBd BdModel BdProofs.
Import ListNotations.
Local Open Scope string_scope.
Local Open Scope list_scope.
Local Open Scope Z_scope.

(* several definitions per line: the lexer's string and character literal rules (regex texts extracted on this run) are
   the ones that stop at the first closing quote, and under that rule two quoted literals on one line are two literals *)
Theorem quoted_literals_separate :
  (regex_of "STRING_LITERAL" = Some "\""[^\""\n]*\""" /\
   regex_of "INT_LITERAL" = Some "\b([0-9]+[K]?|0[xX][0-9a-fA-F]+)\b|'[^'\n]*'") /\
  (forall q body1 mid body2 rest, plain q body1 = true -> plain q body2 = true ->
    lex_quoted q (q :: body1 ++ q :: mid ++ q :: body2 ++ q :: rest) = Some (body1, mid ++ q :: body2 ++ q :: rest) /\
    lex_quoted q (q :: body2 ++ q :: rest) = Some (body2, rest)).
Proof. exact (conj BdProofs.literal_regexes_non_greedy BdProofs.quoted_literals_separate). Qed.
Print Assumptions quoted_literals_separate.
