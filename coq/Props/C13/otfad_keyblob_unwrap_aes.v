From Coq Require Import ZArith NArith List Bool Lia.
Require Import Value Bytes Aes Modes KeyWrap Crc CryptoProofs FlashEncModel FlashEncProofs.
Import ListNotations.
Local Open Scope Z_scope.

(* C13, OTFAD key blob with the concrete AES of CryptoRef (no premise on the cipher left): every well-formed blob
   exported under a 16-byte KEK unwraps to its configured key, counter, start address, end unit and flags. *)
Theorem otfad_keyblob_unwrap_aes :
  forall (kek : list N) (k : kblob) (cnt : Z),
  kb_codec_wf k -> length kek = 16%nat -> wf_bytes kek -> In cnt [0; 2; 4; 8; 16] ->
  exists rec c, kb_export aes_c k kek cnt = Ok rec /\ length rec = 64%nat /\ otfad_unwrap aes_d kek cnt rec = Some c /\
                oc_key c = kb_key k /\ oc_ctr c = kb_ctr k /\ oc_w0 c = kb_start k /\
                Z.shiftr (oc_w1 c) 10 = (kb_end k - 1) / 1024 /\
                (forall n, 0 <= n < 3 -> Z.testbit (oc_w1 c) n = Z.testbit (kb_flags k) n).
Proof. intros kek k cnt. apply otfad_keyblob_unwrap_aes_l. Qed.
Print Assumptions otfad_keyblob_unwrap_aes.
