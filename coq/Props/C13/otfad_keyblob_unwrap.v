From Coq Require Import ZArith NArith List Bool Lia.
Require Import Value Bytes Aes Modes KeyWrap Crc CryptoProofs FlashEncModel FlashEncProofs.
Import ListNotations.
Local Open Scope Z_scope.

(* C13, OTFAD key blob: for every block cipher pair with D kek (E kek b) = b on 16-byte blocks, every well-formed blob,
   16-byte KEK (scrambled or not) and byte-swap count of the device database, KeyBlob.export gives a 64-byte record
   that the ROM-side unwrap (byte swap undone, RFC 3394 unwrap with the IV check, CRC-32/MPEG-2 over the first 32 bytes)
   accepts, and the context it loads carries the configured key, counter, start address, the 1 KiB unit of the last
   address of the range and the three flags. *)
Theorem otfad_keyblob_unwrap :
  forall (E D : cipher) (kek : list N) (k : kblob) (cnt : Z),
  (forall b, okb b -> D kek (E kek b) = b) -> (forall b, okb b -> okb (E kek b)) ->
  kb_codec_wf k -> length kek = 16%nat -> In cnt [0; 2; 4; 8; 16] ->
  exists rec c, kb_export E k kek cnt = Ok rec /\ length rec = 64%nat /\ otfad_unwrap D kek cnt rec = Some c /\
                oc_key c = kb_key k /\ oc_ctr c = kb_ctr k /\ oc_w0 c = kb_start k /\
                Z.shiftr (oc_w1 c) 10 = (kb_end k - 1) / 1024 /\
                (forall n, 0 <= n < 3 -> Z.testbit (oc_w1 c) n = Z.testbit (kb_flags k) n).
Proof. intros E D kek k cnt DE Eok. now apply otfad_keyblob_unwrap_full. Qed.
Print Assumptions otfad_keyblob_unwrap.
