From Coq Require Import ZArith NArith List Bool Lia.
Require Import Value Bytes Aes Modes KeyWrap Crc CryptoProofs FlashEncModel FlashEncProofs.
Import ListNotations.
Local Open Scope Z_scope.

(* C13, IEE: an image cut at a multiple of 4 KiB and encrypted in two calls at the two addresses gives the bytes of one call. *)
Theorem iee_address_only :
  forall (E : cipher) (blobs : list iblob) (base : Z) (x y : list N) (q : nat),
  length x = (q * 4096)%nat ->
  iee_encrypt_image E blobs (x ++ y) base =
  match iee_encrypt_image E blobs x base with
  | Ok cx => match iee_encrypt_image E blobs y (base + zlen x) with Ok cy => Ok (cx ++ cy) | Err k => Err k end
  | Err k => Err k
  end.
Proof. intros E blobs base x y q H. now apply (iee_address_only_l E blobs base x y q). Qed.
Print Assumptions iee_address_only.
