From Coq Require Import ZArith NArith List Bool Lia.
Require Import Value Bytes Aes Modes KeyWrap Crc CryptoProofs FlashEncModel FlashEncProofs.
Import ListNotations.
Local Open Scope Z_scope.

(* C13, OTFAD, full statement: for every block function E that maps 16-byte blocks to 16-byte blocks under the blob keys
   (AES-CTR needs no invertibility), every list of pairwise disjoint key blobs that KeyBlob accepts (start on the 1 KiB
   grid, end given as exclusive end, as last address or anywhere in the last unit, any flags), every image, byte-swap
   setting and every 16-byte aligned base address: Otfad.encrypt_image succeeds, the hardware model holding the contexts
   of the exported blobs turns the result back into the image (the result may carry up to 15 bytes of zero padding), and
   every byte outside the valid + decrypting regions is the plaintext byte. *)
Theorem otfad_decrypts :
  forall (E : cipher) (blobs : list kblob) (swap : bool) (img : list N) (base : Z),
  (forall k, In k blobs -> forall x, length x = 16%nat -> length (E (kb_key k) x) = 16%nat) ->
  Forall kb_wf blobs -> blobs_disjoint blobs ->
  0 <= base -> base mod 16 = 0 ->
  exists out, otfad_encrypt_image E blobs img base swap = Ok out /\
              (length img <= length out)%nat /\
              firstn (length img) (otfad_hw E (map octx_of_blob blobs) swap base out) = img /\
              (forall i, (i < length img)%nat -> otfad_outside blobs (base + Z.of_nat i) -> nth i out 0%N = nth i img 0%N).
Proof. intros E blobs swap img base HE W D. now apply otfad_decrypts_l. Qed.
Print Assumptions otfad_decrypts.
