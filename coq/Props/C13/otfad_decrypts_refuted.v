From Coq Require Import ZArith NArith List Bool Lia.
Require Import Value Bytes Aes Modes KeyWrap Crc CryptoProofs FlashEncModel FlashEncProofs.
Import ListNotations.
Local Open Scope Z_scope.

(* C13, OTFAD: the full statement (every 16-byte aligned base; every 1 KiB-aligned range) is FALSE for the current code.
   First witness (D25): base 0xE00, blob 0x1000-0x1FFF, 1 KiB image: the piece 0xE00-0x11FF is left plain.
   Second witness: end address 0x2000 given as exclusive end, image ending with one byte at 0x2000: SPSDK encrypts that
   byte although the exported blob tells the hardware that the region ends at 0x1FFF.  Both computed with the real AES. *)
Theorem otfad_decrypts_refuted :
  (exists blobs img base swap,
     Forall kb_wf blobs /\ blobs_disjoint blobs /\ 0 <= base /\ base mod 16 = 0 /\
     (forall k, In k blobs -> kb_end k mod 1024 = 0 -> kb_end k <> base + zlen img - 1) /\
     exists out, otfad_encrypt_image aes_c blobs img base swap = Ok out /\
                 firstn (length img) (otfad_hw aes_c (map octx_of_blob blobs) swap base out) <> img) /\
  (exists blobs img base swap,
     Forall kb_wf blobs /\ blobs_disjoint blobs /\ 0 <= base /\ base mod 1024 = 0 /\
     exists out, otfad_encrypt_image aes_c blobs img base swap = Ok out /\
                 firstn (length img) (otfad_hw aes_c (map octx_of_blob blobs) swap base out) <> img).
Proof. exact otfad_decrypts_refuted_l. Qed.
Print Assumptions otfad_decrypts_refuted.
