From Coq Require Import ZArith NArith List Bool Lia.
Require Import Value Bytes Aes Modes KeyWrap Crc CryptoProofs FlashEncModel FlashEncProofs.
Import ListNotations.
Local Open Scope Z_scope.

(* C13, BEE: the full statement (every 16-byte aligned base) is FALSE for the current code: with base 0xE00 and a FAC
   region 0x1000-0x1FFF the piece 0xE00-0x11FF is left plain and the hardware garbles 0x1000-0x11FF; with base 0x1E00
   the piece 0x1E00-0x21FF is refused ("Invalid range of region").  Computed with the real AES. *)
Theorem bee_decrypts_refuted :
  exists ohs, Forall bh_wf (bee_actives ohs) /\ bheaders_disjoint (bee_actives ohs) /\
    (exists img base, 0 <= base /\ base mod 16 = 0 /\
       exists out, bee_export_image aes_c ohs img base = Ok out /\
                   firstn (length img) (bee_hw aes_c (map bctx_of (bee_actives ohs)) base out) <> img) /\
    (exists img base, 0 <= base /\ base mod 16 = 0 /\ bee_export_image aes_c ohs img base = Err 1).
Proof. exact bee_decrypts_refuted_l. Qed.
Print Assumptions bee_decrypts_refuted.
