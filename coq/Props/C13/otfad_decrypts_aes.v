From Coq Require Import ZArith NArith List Bool Lia.
Require Import Value Bytes Aes Modes KeyWrap Crc CryptoProofs FlashEncModel FlashEncProofs.
Import ListNotations.
Local Open Scope Z_scope.

(* C13, OTFAD image with the concrete AES of CryptoRef and 16-byte keys (no premise on the cipher left). *)
Theorem otfad_decrypts_aes :
  forall (blobs : list kblob) (swap : bool) (img : list N) (base : Z),
  Forall kb_wf blobs -> blobs_disjoint blobs ->
  (forall k, In k blobs -> length (kb_key k) = 16%nat /\ wf_bytes (kb_key k)) ->
  0 <= base -> base mod 16 = 0 ->
  exists out, otfad_encrypt_image aes_c blobs img base swap = Ok out /\
              (length img <= length out)%nat /\
              firstn (length img) (otfad_hw aes_c (map octx_of_blob blobs) swap base out) = img /\
              (forall i, (i < length img)%nat -> otfad_outside blobs (base + Z.of_nat i) -> nth i out 0%N = nth i img 0%N).
Proof. intros blobs swap img base. apply otfad_decrypts_aes_l. Qed.
Print Assumptions otfad_decrypts_aes.
