From Coq Require Import ZArith NArith List Bool Lia.
Require Import Value Bytes Aes Modes KeyWrap Crc CryptoProofs FlashEncModel FlashEncProofs.
Import ListNotations.
Local Open Scope Z_scope.

(* C13, OTFAD, outside the two recorded findings (base on the 1 KiB grid; the last image byte not exactly at an
   exclusive end address): for every block function E that maps 16-byte blocks to 16-byte blocks under the blob keys
   (AES-CTR needs no invertibility), every list of well-formed pairwise disjoint key blobs, every image and byte-swap
   setting, Otfad.encrypt_image succeeds, the hardware model holding the contexts of the exported blobs turns the
   result back into the image (the result may carry up to 15 bytes of padding), and every byte outside the active
   regions is the plaintext byte. *)
Theorem otfad_decrypts_except_known :
  forall (E : cipher) (blobs : list kblob) (swap : bool) (img : list N) (base : Z),
  (forall k, In k blobs -> forall x, length x = 16%nat -> length (E (kb_key k) x) = 16%nat) ->
  Forall kb_wf blobs -> blobs_disjoint blobs ->
  0 <= base -> base mod 1024 = 0 ->
  (forall k, In k blobs -> kb_end k mod 1024 = 0 -> kb_end k <> base + zlen img - 1) ->
  exists out, otfad_encrypt_image E blobs img base swap = Ok out /\
              (length img <= length out)%nat /\
              firstn (length img) (otfad_hw E (map octx_of_blob blobs) swap base out) = img /\
              (forall i, (i < length img)%nat -> otfad_outside blobs (base + Z.of_nat i) -> nth i out 0%N = nth i img 0%N).
Proof. intros E blobs swap img base HE W D. now apply otfad_decrypts_aligned. Qed.
Print Assumptions otfad_decrypts_except_known.
