From Coq Require Import ZArith NArith List Bool Lia.
Require Import Value Bytes Aes Modes KeyWrap Crc CryptoProofs FlashEncModel FlashEncProofs.
Import ListNotations.
Local Open Scope Z_scope.

(* C13, OTFAD: the hardware model itself leaves a 16-byte fetch untouched when no valid, decrypting context covers its
   address, for every block function, context list, byte order and data. *)
Theorem otfad_untouched_outside :
  forall (E : cipher) (blobs : list kblob) (swap : bool) (a : Z) (c : list N),
  Forall kb_wf blobs -> blobs_disjoint blobs -> otfad_outside blobs a ->
  otfad_hw_block E (map octx_of_blob blobs) swap a c = c.
Proof. intros E blobs swap a c. apply otfad_hw_block_outside. Qed.
Print Assumptions otfad_untouched_outside.
