From Coq Require Import ZArith NArith List Bool Lia.
Require Import Value Bytes Aes Modes KeyWrap Crc CryptoProofs FlashEncModel FlashEncProofs.
Import ListNotations.
Local Open Scope Z_scope.

(* C13, IEE: "bypass mode = data left as they are" is FALSE for the current code: a blob in Bypass mode makes
   Iee.encrypt_image encrypt the region with AES-XTS, while the hardware passes the fetched data through. *)
Theorem iee_bypass_refuted :
  exists b img base, ib_mode b = MODE_BYPASS /\ base mod 4096 = 0 /\ ib_covers b base = true /\
    exists out, iee_encrypt_image aes_c [b] img base = Ok out /\
                iee_hw aes_c aes_d [ictx_of_blob b] base out = out /\ firstn (length img) out <> img.
Proof. exact iee_bypass_refuted_l. Qed.
Print Assumptions iee_bypass_refuted.
