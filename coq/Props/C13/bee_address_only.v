From Coq Require Import ZArith NArith List Bool Lia.
Require Import Value Bytes Aes Modes KeyWrap Crc CryptoProofs FlashEncModel FlashEncProofs.
Import ListNotations.
Local Open Scope Z_scope.

(* C13, BEE: an image cut anywhere on the absolute 1 KiB grid and encrypted in two calls at the two addresses gives the
   bytes of one call, for every base. *)
Theorem bee_address_only :
  forall (E : cipher) (ohs : list (option bhdr)) (base : Z) (x y : list N),
  (base + zlen x) mod 1024 = 0 ->
  bee_export_image E ohs (x ++ y) base =
  match bee_export_image E ohs x base with
  | Ok cx => match bee_export_image E ohs y (base + zlen x) with Ok cy => Ok (cx ++ cy) | Err k => Err k end
  | Err k => Err k
  end.
Proof. intros E ohs base x y H. now apply bee_address_only_l. Qed.
Print Assumptions bee_address_only.
