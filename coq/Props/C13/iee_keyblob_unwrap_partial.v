From Coq Require Import ZArith NArith List Bool Lia.
Require Import Value Bytes Aes Modes KeyWrap Crc CryptoProofs FlashEncModel FlashEncProofs.
Import ListNotations.
Local Open Scope Z_scope.

(* C13, IEE key blob table, crypto layer (PARTIAL: the 96-byte record layout with tag, version and CRC is tied by
   correspondence and by the unwrap oracle, not by this theorem): for every cipher pair that inverts on 16-byte blocks
   under the word-reversed IBKEK1, whenever Iee.encrypt_key_blobs succeeds the table decrypts (AES-XTS, tweak = sector
   number of the key blob address) to exactly the plain table of Iee.get_key_blobs. *)
Theorem iee_keyblob_unwrap_partial :
  forall (E D : cipher) (blobs : list iblob) (kek1 kek2 : list N) (addr : Z) (table : list N),
  (forall x, okb x -> D (word_rev kek1) (E (word_rev kek1) x) = x) -> (forall x, okb x -> okb (E (word_rev kek1) x)) ->
  (forall x, okb x -> okb (E (word_rev kek2) x)) ->
  Forall (fun b => wf_bytes (ib_key1 b) /\ wf_bytes (ib_key2 b)) blobs ->
  iee_encrypt_key_blobs E blobs kek1 kek2 addr = Ok table ->
  exists plain, iee_get_key_blobs blobs = Ok plain /\ length table = length plain /\
                xts_crypt (D (word_rev kek1)) (E (word_rev kek2)) true (le_enc 16 (Z.to_N (addr / 4096))) table = plain.
Proof. intros E D blobs kek1 kek2 addr table. apply iee_keyblob_unwrap_partial_l. Qed.
Print Assumptions iee_keyblob_unwrap_partial.
