From Coq Require Import ZArith NArith List Bool Lia.
Require Import Value Bytes Aes Modes KeyWrap Crc CryptoProofs FlashEncModel FlashEncProofs.
Import ListNotations.
Local Open Scope Z_scope.

(* C13, OTFAD: the ciphertext depends only on (key blobs, absolute address, plaintext): an image cut anywhere on the
   absolute 1 KiB grid and encrypted in two calls at the two addresses gives the bytes of one call, for every base. *)
Theorem otfad_address_only :
  forall (E : cipher) (blobs : list kblob) (swap : bool) (base : Z) (x y : list N),
  (base + zlen x) mod 1024 = 0 ->
  otfad_encrypt_image E blobs (x ++ y) base swap =
  match otfad_encrypt_image E blobs x base swap with
  | Ok cx => match otfad_encrypt_image E blobs y (base + zlen x) swap with Ok cy => Ok (cx ++ cy) | Err k => Err k end
  | Err k => Err k
  end.
Proof. intros E blobs swap base x y H. now apply otfad_address_only_l. Qed.
Print Assumptions otfad_address_only.
