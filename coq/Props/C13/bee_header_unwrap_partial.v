From Coq Require Import ZArith NArith List Bool Lia.
Require Import Value Bytes Aes Modes KeyWrap Crc CryptoProofs FlashEncModel FlashEncProofs.
Import ListNotations.
Local Open Scope Z_scope.

(* C13, BEE region header, crypto layer (PARTIAL: the field layout of the plain PRDB is tied by correspondence and by the
   unwrap oracle, not by this theorem): for every cipher pair that inverts on 16-byte blocks under the SW key and the KIB
   key, whenever BeeRegionHeader.export succeeds the 512-byte header decrypts with the SW key (ECB) to KIB key || KIB IV
   and with those (CBC) to exactly the plain PRDB of BeeProtectRegionBlock.export. *)
Theorem bee_header_unwrap_partial :
  forall (E D : cipher) (h : bhdr) (hdr : list N),
  (forall x, okb x -> D (bh_swkey h) (E (bh_swkey h) x) = x) -> (forall x, okb x -> okb (E (bh_swkey h) x)) ->
  (forall x, okb x -> D (bh_kibkey h) (E (bh_kibkey h) x) = x) -> (forall x, okb x -> okb (E (bh_kibkey h) x)) ->
  wf_bytes (bh_counter h) -> wf_bytes (bh_kibkey h) -> wf_bytes (bh_kibiv h) ->
  bee_header_export E h = Ok hdr ->
  exists prdb, prdb_export h = Ok prdb /\ length hdr = 512%nat /\
               ecb (D (bh_swkey h)) (firstn 32 hdr) = bh_kibkey h ++ bh_kibiv h /\
               cbc_dec (D (bh_kibkey h)) (bh_kibiv h) (firstn 256 (skipn 128 hdr)) = prdb.
Proof. intros E D h hdr. apply bee_header_unwrap_partial_l. Qed.
Print Assumptions bee_header_unwrap_partial.
