From Coq Require Import ZArith NArith List Bool Lia.
Require Import Value Bytes Aes Modes KeyWrap Crc CryptoProofs FlashEncModel FlashEncProofs.
Import ListNotations.
Local Open Scope Z_scope.

(* C13, IEE bypass mode = data left as they are: an image lying in the region of a single Bypass blob comes out of
   Iee.encrypt_image unchanged, for every block function. *)
Theorem iee_bypass_identity :
  forall (E : cipher) (b : iblob) (img : list N) (base : Z),
  ib_wf b -> ib_mode b = MODE_BYPASS -> 0 <= base -> base mod 4096 = 0 ->
  ib_start b <= base -> base + zlen img <= ib_end b ->
  iee_encrypt_image E [b] img base = Ok img.
Proof. intros E b img base. apply iee_bypass_identity_l. Qed.
Print Assumptions iee_bypass_identity.
