From Coq Require Import ZArith NArith List Bool Lia.
Require Import Value Bytes Aes Modes KeyWrap Crc CryptoProofs FlashEncModel FlashEncProofs.
Import ListNotations.
Local Open Scope Z_scope.

(* C13, IEE AES-CTR: "for all keys and initial counters" is FALSE for the current code: with the initial counter word
   0xFFFFFFFF the call ends in an OverflowError (error class 2) instead of a ciphertext. *)
Theorem iee_ctr_total_refuted :
  exists b img base, ib_wf b /\ ib_mode b = MODE_CTR_ADDR /\ base mod 4096 = 0 /\
    iee_encrypt_image aes_c [b] img base = Err 2.
Proof. exact iee_ctr_total_refuted_l. Qed.
Print Assumptions iee_ctr_total_refuted.
