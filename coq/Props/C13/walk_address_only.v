From Coq Require Import ZArith NArith List Bool Lia.
Require Import Value Bytes Aes Modes KeyWrap Crc CryptoProofs FlashEncModel FlashEncProofs.
Import ListNotations.
Local Open Scope Z_scope.

(* C13: every image walk of the three engines is  seq_concat (pieces g unit base image)  for a per-piece function g of
   (absolute address, piece): cutting the image at a multiple of the unit and encrypting the two parts at their own
   addresses gives the same bytes (and the same error, if any) as encrypting it at once. *)
Theorem walk_address_only :
  forall (g : Z -> list N -> res (list N)) (unit q : nat) (base : Z) (x y : list N),
  (0 < unit)%nat -> length x = (q * unit)%nat ->
  seq_concat (pieces g unit base (x ++ y)) =
  match seq_concat (pieces g unit base x) with
  | Ok cx => match seq_concat (pieces g unit (base + zlen x) y) with Ok cy => Ok (cx ++ cy) | Err k => Err k end
  | Err k => Err k
  end.
Proof. intros g unit q base x y. apply walk_address_only_l. Qed.
Print Assumptions walk_address_only.
