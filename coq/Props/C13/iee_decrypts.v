From Coq Require Import ZArith NArith List Bool Lia.
Require Import Value Bytes Aes Modes KeyWrap Crc CryptoProofs FlashEncModel FlashEncProofs.
Import ListNotations.
Local Open Scope Z_scope.

(* C13, IEE, full statement (AES-XTS 256/512, AES-CTR with address binding 128/256 with every initial counter -- the
   32-bit counter word wraps on both sides --, and Bypass = data left as they are): for every cipher pair with the laws
   in ib_cipher_ok (XTS: D o E = id on 16-byte blocks under the data key; CTR: only 16-byte outputs; Bypass: nothing),
   well-formed pairwise disjoint 4 KiB-aligned blobs, every image of bytes and every 4 KiB-aligned data address,
   Iee.encrypt_image succeeds, the hardware model (per 4 KiB sector: tweak = sector number / counter = nonce word +
   address >> 4, keys word-reversed, bypass = identity) holding the blobs' contexts gives the image back, and bytes
   outside every region are untouched. *)
Theorem iee_decrypts :
  forall (E D : cipher) (blobs : list iblob) (img : list N) (base : Z),
  Forall ib_wf blobs -> iblobs_disjoint blobs -> Forall (ib_cipher_ok E D) blobs ->
  wf_bytes img -> 0 <= base -> base mod 4096 = 0 ->
  exists out, iee_encrypt_image E blobs img base = Ok out /\
              (length img <= length out)%nat /\
              firstn (length img) (iee_hw E D (map ictx_of_blob blobs) base out) = img /\
              (forall i, (i < length img)%nat -> iee_outside blobs (base + Z.of_nat i) -> nth i out 0%N = nth i img 0%N).
Proof. intros E D blobs img base. apply iee_decrypts_aligned. Qed.
Print Assumptions iee_decrypts.
