From Coq Require Import ZArith NArith List Bool Lia.
Require Import Value Bytes Aes Modes KeyWrap Crc CryptoProofs FlashEncModel FlashEncProofs.
Import ListNotations.
Local Open Scope Z_scope.

(* C13, BEE, full statement: for every block function with 16-byte outputs under the engine keys, every list of (optional)
   region headers that BeeProtectRegionBlock.validate accepts with pairwise disjoint FAC regions on the 1 KiB grid,
   every image and every 16-byte aligned base address: BeeNxp.export_image succeeds, the hardware model (per 16-byte
   fetch inside a FAC region: AES-CTR, counter = nonce[0:12] || address >> 4) gives the image back, and bytes outside
   every FAC region are untouched. *)
Theorem bee_decrypts :
  forall (E : cipher) (ohs : list (option bhdr)) (img : list N) (base : Z),
  Forall bh_wf (bee_actives ohs) -> bheaders_disjoint (bee_actives ohs) ->
  (forall h, In h (bee_actives ohs) -> forall x, length x = 16%nat -> length (E (bh_swkey h) x) = 16%nat) ->
  0 <= base -> base mod 16 = 0 ->
  exists out, bee_export_image E ohs img base = Ok out /\
              (length img <= length out)%nat /\
              firstn (length img) (bee_hw E (map bctx_of (bee_actives ohs)) base out) = img /\
              (forall i, (i < length img)%nat -> bee_outside (bee_actives ohs) (base + Z.of_nat i) ->
                         nth i out 0%N = nth i img 0%N).
Proof. intros E ohs img base W D HE. now apply bee_decrypts_l. Qed.
Print Assumptions bee_decrypts.
