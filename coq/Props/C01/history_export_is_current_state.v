From Coq Require Import ZArith NArith List Bool Lia.
Require Import Value Bytes MbiMixinModel GenMbi MbiModel MbiHistProofs.
Import ListNotations.
Local Open Scope Z_scope.

(* C01, ONE builder object used many times.  A history is any list of operations [export | assign a member: application,
   load address, image version, sub-type, TrustZone preset, HW-key flag, key store, HMAC key, CTR IV, relocation table,
   certificate block, manifest]; the object IS its current field values.  The n-th image produced by ANY history is
   export_mbi of the fields current at that moment -- nothing else is carried from earlier exports or assignments (a
   total length remembered from an earlier export, for instance, would falsify this for the implementation: the
   "object reuse histories" stream of the check compares every such export with a fresh object and with this model). *)
Theorem history_export_is_current_state :
  forall (k : crypto) (c : mbi_class) (ops : list op) (x : mbi) (n : nat) (r : res (list N)),
    nth_error (run_history k c x ops) n = Some r ->
    exists pre post, ops = pre ++ OpExport :: post /\ exports_in pre = n /\ r = export_mbi k c (state_after x pre).
Proof. exact history_export_lemma. Qed.
Print Assumptions history_export_is_current_state.
