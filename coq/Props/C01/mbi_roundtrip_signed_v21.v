From Coq Require Import ZArith NArith List Bool Lia.
Require Import Value Bytes MbiMixinModel GenMbi MbiModel MbiProofs MbiRtProofs MbiKindsProofs.
Import ListNotations.
Local Open Scope Z_scope.

(* C01, images signed with certificate block v2.1 + manifest (lpc55s3x, mcxn, kw45, k32w, rw61x, ...; XIP or load-to-RAM;
   manifest with CRC or with optional digest), for EVERY mixin list accepted by wf_v21 (any order of the mixins), every
   payload >= 0x38 bytes (multiple of 4), load address, image / firmware version, sub-type, TrustZone default or custom
   preset, digest none / sha256 / sha384 / sha512: with the certificate block an opaque byte string whose header says
   "chdr" and its own size, the signature and the digest opaque byte strings of the stated sizes (any functions k_sign,
   k_hash with these output sizes), parsing the exported image gives back the application (IVT words zeroed), the
   certificate block and every setting the class carries; when the other settings are at their defaults, re-exporting the
   parsed object reproduces the image (signature and digest are functions of the same bytes). *)
Theorem mbi_roundtrip_signed_v21 :
  forall (k : crypto) (c : mbi_class) (x : mbi) (tzsize sigsz : nat) (dek : option (list N)) (im b : list N) (sg : nat),
    wf_v21 c = true ->
    (56 <= length (m_app x))%nat -> (length (m_app x) mod 4 = 0)%nat ->
    0 <= m_subtype x < 4 -> 0 <= m_imgver x < 65536 ->
    m_cert x = Some (CertV21 b sg) -> cert21_wf b -> sigsz = sg -> (0 < sg)%nat ->
    (forall d, length (k_sign k d) = sg) -> (forall a d, length (k_hash k a d) = natz (hash_size a)) ->
    (forall d, m_tz x = TzCustom d -> length d = tzsize /\ (0 < tzsize)%nat) ->
    0 <= m_digest x <= 3 -> (has c MixinManifestCrc = true -> m_digest x = 0) ->
    m_table x = None ->
    export_mbi k c x = Ok im ->
    parse_mbi k c tzsize sigsz dek im = Ok (parsed c x dek) /\
    (canonical c x dek -> parsed c x dek = set_app x (clean_ivt (m_app x)) /\ export_mbi k c (parsed c x dek) = Ok im).
Proof. exact roundtrip_v21_full. Qed.
Print Assumptions mbi_roundtrip_signed_v21.
