From Coq Require Import ZArith NArith List Bool Lia.
Require Import Value Bytes MbiMixinModel GenMbi MbiModel MbiProofs.
Import ListNotations.
Local Open Scope Z_scope.

(* C01: update_ivt keeps the length and changes nothing outside bytes 0x20..0x2B and 0x34..0x37. *)
Theorem ivt_words_untouched_elsewhere :
  forall (c : mbi_class) (x : mbi) (app app' : list N) (total crc_cert : Z),
    (56 <= length app)%nat ->
    update_ivt c x app total crc_cert = Ok app' ->
    length app' = length app /\
    forall i, ~ (32 <= i < 44)%nat -> ~ (52 <= i < 56)%nat -> nth i app' 0%N = nth i app 0%N.
Proof. intros c x app app' total cc. exact (ivt_untouched c x app total cc app'). Qed.
Print Assumptions ivt_words_untouched_elsewhere.
