From Coq Require Import ZArith NArith List Bool Lia.
Require Import Value Bytes MbiMixinModel GenMbi MbiModel MbiProofs.
Import ListNotations.
Local Open Scope Z_scope.

(* C01: the composition mechanism of the model is the one of the code, for EVERY class of EVERY family in the database
   (Gen/GenMbi.v is regenerated from the database and the mixin classes on every run):
   - per mixin class: contributed attributes, PRE_PARSED, COUNT_IN_LEGACY_CERT_BLOCK_LEN and the defining class of each
     stage method are the hand tables of the model;
   - per distinct composition: the provider of collect_data / encrypt / post_encrypt / sign / finalize / disassemble_image /
     update_ivt / check_total_length / clean_ivt / disassembly_app_data found by the model's first-provider rule is the one
     Python's MRO finds on the created class, and hasattr() agrees;
   - the constants (IVT offsets, masks, flags, HMAC offset/size, key-store size, ...) are the ones the model assumes. *)
Theorem mro_resolution_all_classes : mixin_table_ok = true /\ resolution_ok = true /\ consts_ok = true.
Proof. exact tables_agree_with_source. Qed.
Print Assumptions mro_resolution_all_classes.
