From Coq Require Import ZArith NArith List Bool Lia.
Require Import Value Bytes MbiMixinModel GenMbi MbiModel MbiProofs MbiRtProofs MbiSweepProofs.
Import ListNotations.
Local Open Scope Z_scope.

(* C01: the witnesses of the repaired findings, now positive, computed on the model with classes of the database:
   F1 image with a relocation table parses back;  F2 payload ending in a table marker comes back whole;  F3 HMAC class
   with a 56-byte application is refused by the builder;  F4 encrypted class with a 64-byte application: emitted length =
   IVT word 0x20 and the image parses back;  F5 manifest class with default TrustZone parses back as default;
   F7 cert block v1 with custom TrustZone parses back, also behind HMAC + key store. *)
Theorem repaired_findings_hold :
  (in_db c_crc_ram = true /\ export_mbi (k0 0) c_crc_ram x_reloc = Ok im_reloc /\
   parse_mbi (k0 0) c_crc_ram 1140 0 None im_reloc = Ok (parsed c_crc_ram x_reloc None)) /\
  (export_mbi (k0 0) c_crc_ram x_tail = Ok im_tail /\
   parse_mbi (k0 0) c_crc_ram 1140 0 None im_tail = Ok (parsed c_crc_ram x_tail None)) /\
  (in_db c_signed_ram = true /\ validate c_signed_ram (x_hmac 56) = Ok tt /\
   export_mbi (k0 256) c_signed_ram (x_hmac 56) = Err E_REJECT) /\
  (in_db c_encrypted = true /\ export_mbi (k0 256) c_encrypted x_enc = Ok im_enc /\ zlen im_enc = rd32 OFF_LEN im_enc /\
   parse_mbi (k0 256) c_encrypted 1140 256 (Some (zeros 32)) im_enc = Ok (parsed c_encrypted x_enc (Some (zeros 32)))) /\
  (in_db c_manifest = true /\ export_mbi (k0 64) c_manifest x_manifest = Ok im_manifest /\
   parse_mbi (k0 64) c_manifest 1100 64 None im_manifest = Ok (parsed c_manifest x_manifest None)) /\
  (in_db c_signed_xip = true /\ export_mbi (k0 256) c_signed_xip x_v1_tz = Ok im_v1_tz /\
   parse_mbi (k0 256) c_signed_xip 464 256 None im_v1_tz = Ok (parsed c_signed_xip (set_load x_v1_tz 0) None) /\
   export_mbi (k0 256) c_signed_ram x_ram_tz = Ok im_ram_tz /\
   parse_mbi (k0 256) c_signed_ram 1140 256 (Some (zeros 32)) im_ram_tz = Ok (parsed c_signed_ram x_ram_tz (Some (zeros 32)))).
Proof. exact MbiSweepProofs.repaired_findings_hold. Qed.
Print Assumptions repaired_findings_hold.
