From Coq Require Import ZArith NArith List Bool Lia.
Require Import Value Bytes MbiMixinModel GenMbi MbiModel MbiBcaModel MbiBcaProofs.
Import ListNotations.
Local Open Scope Z_scope.

(* C01, BCA / FCF based images of mc56f81xxx / mwct20xx, kinds "plain" and "CRC in the Boot Config Area" (24 offers), for
   EVERY mixin list accepted by wf_bca_fcf, every application that reaches past the FCF (>= 0x410 bytes) and every life
   cycle of the enumeration (0xFF = keep what the application says):
   - the image is as long as the application and equals it outside the header fields the builder owns: the life-cycle
     byte 0x40C and (CRC kind) the three CRC words 0x3C4..0x3CF of the BCA;
   - the life-cycle byte holds the configured state; the CRC words hold start 0xC00, the number of bytes emitted behind
     0xC00 and their CRC-32/MPEG-2 (they describe the bytes actually emitted);
   - parse returns the image as the application (parse (export x) = x modulo exactly these fields) and the life cycle
     that was configured;
   - (findings C01-F14 / F15 repaired) whatever is exported with a life cycle reaches past the life-cycle byte, and
     whatever is CRC-signed contains the three CRC words of the BCA: shorter applications are refused.
   The image is a BinaryImage with sub-images at fixed offsets (eleven slices of the application, one of them replaced by
   the signing stage); MbiBcaProofs.oexport_contig / oreplace_ocat reduce its export to concatenation. *)
Theorem mbi_roundtrip_bca :
  (forall (k : bcrypto) (q : bparse) (c : mbi_class) (x : bx) (im : list N),
    wf_bca_fcf c = true -> (1040 <= length (b_app x))%nat -> In (b_lifecycle x) lifecycle_tags ->
    export_b k c x = Ok im ->
    length im = length (b_app x) /\
    (forall i, i <> O_LC -> ~ (964 <= i < 976)%nat -> nth i im 0%N = nth i (b_app x) 0%N) /\
    (provider c SSign = None -> forall i, i <> O_LC -> nth i im 0%N = nth i (b_app x) 0%N) /\
    nth O_LC im 0%N = (if b_lifecycle x =? 255 then nth O_LC (b_app x) 0%N else Z.to_N (b_lifecycle x)) /\
    (provider c SSign = Some ExportMixinCrcSignBca ->
     rd32 964 im = G_BCA_IMG_DATA_START /\ rd32 968 im = zlen (skipn O_DATA im) /\
     rd32 972 im = Z.of_N (mbi_crc32_mpeg (skipn O_DATA im))) /\
    parse_b q c im = Ok (set_b_app (set_b_lifecycle bx_default (lifecycle_of im)) (pad4 im)) /\
    (b_lifecycle x <> 255 -> lifecycle_of im = b_lifecycle x)) /\
  (forall (k : bcrypto) (c : mbi_class) (x : bx) (im : list N),
    wf_bca_fcf c = true -> export_b k c x = Ok im ->
    (b_lifecycle x <> 255 -> (O_LC < length (b_app x))%nat) /\
    (provider c SSign = Some ExportMixinCrcSignBca -> b_lifecycle x = 255 -> (O_BCA + 16 <= length (b_app x))%nat)).
Proof. exact (conj roundtrip_bca_fcf bca_fcf_refusals). Qed.
Print Assumptions mbi_roundtrip_bca.
