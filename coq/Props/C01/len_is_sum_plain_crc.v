From Coq Require Import ZArith NArith List Bool Lia.
Require Import Value Bytes MbiMixinModel GenMbi MbiModel MbiProofs MbiRtProofs.
Import ListNotations.
Local Open Scope Z_scope.

(* C01, plain and CRC classes with a duplicate-free mixin list (with or without relocation table): the number of bytes
   emitted is total_len (the sum of mix_len over the mixin list), and the header words of the emitted image say so:
   word 0x20 = emitted length (0 by design for the IvtZeroTotalLength classes), word 0x24 = create_flags,
   word 0x34 = load address. *)
Theorem len_is_sum_plain_crc :
  forall (k : crypto) (c : mbi_class) (x : mbi) (im : list N),
    wf_plain_crc c = true -> nodupb (c_mixins c) = true ->
    (has c MixinTrustZone && has c MixinTrustZoneMandatory) = false ->
    (56 <= length (m_app x))%nat ->
    export_mbi k c x = Ok im ->
    zlen im = total_len c x /\
    rd32 OFF_LEN im = (match provider c SUpdateIvt with Some MixinIvtZeroTotalLength => 0 | _ => zlen im end) /\
    rd32 OFF_FLAGS im = create_flags c x /\ rd32 OFF_LOAD im = (if has_attr c ALoadAddress then m_load x else 0).
Proof. exact MbiRtProofs.len_is_sum_plain_crc. Qed.
Print Assumptions len_is_sum_plain_crc.
