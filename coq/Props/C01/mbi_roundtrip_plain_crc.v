From Coq Require Import ZArith NArith List Bool Lia.
Require Import Value Bytes MbiMixinModel GenMbi MbiModel MbiProofs MbiRtProofs.
Import ListNotations.
Local Open Scope Z_scope.

(* C01, plain and CRC images (XIP or load-to-RAM), for EVERY mixin list accepted by wf_plain_crc (any order; App, IVT or
   IvtZeroTotalLength, TrustZone or TrustZoneMandatory, load address, image version, sub-type, HW key, relocation-table
   mixin, FwVersion; export mixins App / AppTrustZone with or without CrcSign), every payload of >= 0x38 bytes (multiple
   of 4, as the app setter guarantees; ANY content, including one that ends in a relocation-table marker), every load
   address / image version / sub-type / TrustZone setting (disabled, default, custom preset of the family's size) /
   HW-key flag, WITH or WITHOUT a relocation table of any number of entries:
   if the builder accepts x, parsing the exported image with the same class gives back the application (IVT words zeroed),
   the relocation table and every setting the class carries; and when the settings the class does not carry are at their
   defaults, re-exporting the parsed object reproduces the image. *)
Theorem mbi_roundtrip_plain_crc :
  forall (k : crypto) (c : mbi_class) (x : mbi) (tzsize sigsz : nat) (dek : option (list N)) (im : list N),
    wf_plain_crc c = true ->
    (56 <= length (m_app x))%nat -> (length (m_app x) mod 4 = 0)%nat ->
    0 <= m_subtype x < 4 -> 0 <= m_imgver x < 65536 ->
    (forall es, m_table x = Some es -> has_attr c AAppTable = true /\ entries_ok es) ->
    (forall d, m_tz x = TzCustom d -> length d = tzsize /\ (0 < tzsize)%nat) ->
    export_mbi k c x = Ok im ->
    parse_mbi k c tzsize sigsz dek im = Ok (parsed c x dek) /\
    (canonical_plain c x ->
       parsed c x dek = set_app x (clean_ivt (m_app x)) /\ export_mbi k c (parsed c x dek) = Ok im).
Proof. exact roundtrip_plain_crc_full. Qed.
Print Assumptions mbi_roundtrip_plain_crc.
