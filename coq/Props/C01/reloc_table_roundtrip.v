From Coq Require Import ZArith NArith List Bool Lia.
Require Import Value Bytes MbiMixinModel GenMbi MbiModel MbiProofs MbiRtProofs.
Import ListNotations.
Local Open Scope Z_scope.

(* C01 (finding F1 repaired): MultipleImageTable.parse inverts MultipleImageTable.export behind any application:
   for every prefix A (the application), every non-empty list of LOAD entries (any images, any destination addresses),
   the table exported at start address |A| is found again at the end of A ++ table, with all entries (image, destination,
   flags) and the place where the application ends. *)
Theorem reloc_table_roundtrip :
  forall (A : list N) (es : list entry) (T : list N),
    es <> [] -> entries_ok es -> table_export es (zlen A) = Ok T ->
    table_parse (A ++ T) = Ok (Some (es, zlen A)).
Proof. exact table_parse_export. Qed.
Print Assumptions reloc_table_roundtrip.
