From Coq Require Import ZArith NArith List Bool Lia.
Require Import Value Bytes MbiMixinModel GenMbi MbiModel MbiProofs MbiRtProofs MbiKindsProofs.
Import ListNotations.
Local Open Scope Z_scope.

(* C01, images signed with certificate block v1 (lpc55s0x/1x/2x/6x signed XIP / RAM; mimxrt5xx/6xx signed load-to-RAM with
   HMAC and optional key store and relocation table), for EVERY mixin list accepted by wf_v1, every payload >= 0x38 bytes,
   load address, TrustZone disabled / default / custom preset, HW-key flag, key store present or absent, relocation table
   with any number of entries: with the certificate block an opaque byte string whose header says "cert", header length 32
   and a certificate-table length consistent with its 4-aligned size, and signature / HMAC opaque byte strings of the
   stated sizes (any functions), parsing the exported image (same HMAC key handed to parse) gives back the application,
   the relocation table, the certificate block, the key store and every setting; re-export reproduces the image. *)
Theorem mbi_roundtrip_signed_v1 :
  forall (k : crypto) (c : mbi_class) (x : mbi) (tzsize sigsz : nat) (dek : option (list N)) (im pre post : list N) (sg : nat),
    wf_v1 c = true ->
    (56 <= length (m_app x))%nat -> (length (m_app x) mod 4 = 0)%nat ->
    0 <= m_subtype x < 4 -> 0 <= m_imgver x < 65536 ->
    m_cert x = Some (CertV1 pre post sg) -> cert1_wf pre post -> sigsz = sg -> (0 < sg)%nat ->
    (forall d, length (k_sign k d) = sg) -> (forall key data, length (k_hmac k key data) = 32%nat) ->
    (forall b, m_ks x = Some b -> length b = 1424%nat /\ has_attr c AKeyStore = true) ->
    (forall d, m_tz x = TzCustom d -> length d = tzsize /\ (0 < tzsize)%nat) ->
    (forall es, m_table x = Some es -> has_attr c AAppTable = true /\ entries_ok es) ->
    export_mbi k c x = Ok im ->
    parse_mbi k c tzsize sigsz dek im = Ok (parsed c x dek) /\
    (canonical c x dek -> parsed c x dek = set_app x (clean_ivt (m_app x)) /\ export_mbi k c (parsed c x dek) = Ok im).
Proof. exact roundtrip_v1_full. Qed.
Print Assumptions mbi_roundtrip_signed_v1.
