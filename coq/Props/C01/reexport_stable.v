From Coq Require Import ZArith NArith List Bool Lia.
Require Import Value Bytes MbiMixinModel GenMbi MbiModel MbiProofs MbiRtProofs.
Import ListNotations.
Local Open Scope Z_scope.

(* C01: for EVERY class with an IVT mixin (every mixin list, every kind: plain, CRC, signed, encrypted), every settings
   record and every crypto primitives record: exporting again with the application the parser hands back (the IVT words
   zeroed by clean_ivt) gives exactly the same image -- the export pipeline does not depend on what the application held
   in the four IVT words. *)
Theorem reexport_stable :
  forall (k : crypto) (c : mbi_class) (x : mbi),
    (56 <= length (m_app x))%nat -> has_attr c AIvtTable = true ->
    export_mbi k c (set_app x (clean_ivt (m_app x))) = export_mbi k c x.
Proof. exact export_clean_app. Qed.
Print Assumptions reexport_stable.
