From Coq Require Import ZArith NArith List Bool Lia.
Require Import Value Bytes MbiMixinModel GenMbi MbiModel MbiProofs MbiRtProofs.
Import ListNotations.
Local Open Scope Z_scope.

(* C01, classes finalized by Mbi_ExportMixinHmacKeyStoreFinalize (HMAC and optional key store), for every image whose
   first sub-image (the application with its header) is longer than 64 bytes, or has exactly 64 bytes and is followed by a
   non-empty sub-image -- i.e. outside findings C01-F3 (application shorter than 64) and C01-F4 (empty sub-image at 64):
   finalize inserts HMAC (+ key store) exactly once, at byte 64 of the image, and finalize(revert=True) as used by
   MasterBootImage.parse removes exactly what was inserted (the key-store flag of the header says whether a key store
   follows the HMAC). *)
Theorem hmac_finalize_inverse_except_known :
  forall (k : crypto) (c : mbi_class) (x st : mbi) (s : list N) (t : list (list N)) (dts : list N),
    provider c SFinalize = Some ExportMixinHmacKeyStoreFinalize ->
    ((64 < length s)%nat \/ (length s = 64%nat /\ exists s1 t1, t = s1 :: t1 /\ (0 < length s1)%nat)) ->
    (exists kb kt, m_hmac x = Some (kb :: kt)) ->
    (forall key data, length (k_hmac k key data) = 32%nat) ->
    (forall b, m_ks x = Some b -> length b = 1424%nat) ->
    flag_set (flat (s :: t)) G_KEY_STORE_FLAG = (match m_ks x with Some _ => true | None => false end) ->
    exists im', finalize k c x (s :: t) dts = Ok im' /\
      flat im' = firstn 64 (flat (s :: t)) ++
                 hmac_bytes x (k_hmac k (match m_hmac x with Some key => key | None => [] end) (firstn 64 (flat (s :: t)))) ++
                 skipn 64 (flat (s :: t)) /\
      finalize_revert c st (flat im') = Ok (flat (s :: t)).
Proof. exact hmac_finalize_inverse. Qed.
Print Assumptions hmac_finalize_inverse_except_known.
