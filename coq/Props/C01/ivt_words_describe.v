From Coq Require Import ZArith NArith List Bool Lia.
Require Import Value Bytes MbiMixinModel GenMbi MbiModel MbiProofs.
Import ListNotations.
Local Open Scope Z_scope.

(* C01: after update_ivt the four header words hold exactly: the total length handed in (0 for the
   IvtZeroTotalLength classes), create_flags, the CRC / certificate-block offset handed in (0 for image type 0),
   and the load address (0 for a class without load address). *)
Theorem ivt_words_describe :
  forall (c : mbi_class) (x : mbi) (app app' : list N) (total crc_cert : Z),
    (56 <= length app)%nat ->
    update_ivt c x app total crc_cert = Ok app' ->
    rd32 OFF_LEN app' = (match provider c SUpdateIvt with Some MixinIvtZeroTotalLength => 0 | _ => total end) /\
    rd32 OFF_FLAGS app' = create_flags c x /\
    rd32 OFF_CRC app' = (if c_type c =? 0 then 0 else crc_cert) /\
    rd32 OFF_LOAD app' = (if has_attr c ALoadAddress then m_load x else 0).
Proof. intros c x app app' total cc. exact (ivt_words c x app total cc app'). Qed.
Print Assumptions ivt_words_describe.
