From Coq Require Import ZArith NArith List Bool Lia.
Require Import Value Bytes MbiMixinModel GenMbi MbiModel MbiProofs MbiRtProofs MbiKindsProofs MbiEncProofs.
Import ListNotations.
Local Open Scope Z_scope.

(* C01, encrypted + signed load-to-RAM images (mimxrt5xx / mimxrt6xx "encrypted": certificate block v1, HMAC, optional key
   store, CTR initial vector, optional relocation table, TrustZone disabled / default / custom preset), for EVERY mixin list
   accepted by wf_enc and every payload >= 0x38 bytes:
   (1) with the cipher ANY function that keeps the length and is an involution for a fixed key / IV, parsing the exported
       image with the encryption key gives back the application, the relocation table, the TrustZone preset (which parse
       first reads from still encrypted bytes and reads again after decryption), certificate block, key store, IV and every
       setting, and re-export reproduces the image;
   (2) CTR mode (coq/Crypto/Modes.v) over ANY block function with 16-byte output is such a cipher: for AES-CTR the
       round trip needs no hypothesis about AES. *)
Theorem mbi_roundtrip_encrypted :
  (forall (k : crypto) (c : mbi_class) (x : mbi) (tzsize sigsz : nat) (dek : option (list N)) (im pre post : list N) (sg : nat),
    wf_enc c = true ->
    (56 <= length (m_app x))%nat -> (length (m_app x) mod 4 = 0)%nat ->
    0 <= m_subtype x < 4 -> 0 <= m_imgver x < 65536 ->
    m_cert x = Some (CertV1 pre post sg) -> cert1_wf pre post -> sigsz = sg -> (0 < sg)%nat ->
    (forall d, length (k_sign k d) = sg) -> (forall key data, length (k_hmac k key data) = 32%nat) ->
    (forall key dv iv d, length (k_ctr k key dv iv d) = length d) ->
    (forall key dv iv d, k_ctr k key dv iv (k_ctr k key dv iv d) = d) ->
    (forall b, m_ks x = Some b -> length b = 1424%nat /\ has_attr c AKeyStore = true) ->
    (forall d, m_tz x = TzCustom d -> length d = tzsize /\ (0 < tzsize)%nat) ->
    (forall es, m_table x = Some es -> has_attr c AAppTable = true /\ entries_ok es) ->
    dek = m_hmac x ->
    export_mbi k c x = Ok im ->
    parse_mbi k c tzsize sigsz dek im = Ok (parsed c x dek) /\
    (canonical c x dek -> parsed c x dek = set_app x (clean_ivt (m_app x)) /\ export_mbi k c (parsed c x dek) = Ok im)) /\
  (forall (F : list N -> bool -> list N -> list N) (k : crypto) (c : mbi_class) (x : mbi) (tzsize sigsz : nat)
          (dek : option (list N)) (im pre post : list N) (sg : nat),
    k_ctr k = ctr_of F -> (forall key dv b, length b = 16%nat -> length (F key dv b) = 16%nat) ->
    wf_enc c = true ->
    (56 <= length (m_app x))%nat -> (length (m_app x) mod 4 = 0)%nat ->
    0 <= m_subtype x < 4 -> 0 <= m_imgver x < 65536 ->
    m_cert x = Some (CertV1 pre post sg) -> cert1_wf pre post -> sigsz = sg -> (0 < sg)%nat ->
    (forall d, length (k_sign k d) = sg) -> (forall key data, length (k_hmac k key data) = 32%nat) ->
    (forall b, m_ks x = Some b -> length b = 1424%nat /\ has_attr c AKeyStore = true) ->
    (forall d, m_tz x = TzCustom d -> length d = tzsize /\ (0 < tzsize)%nat) ->
    (forall es, m_table x = Some es -> has_attr c AAppTable = true /\ entries_ok es) ->
    dek = m_hmac x ->
    export_mbi k c x = Ok im ->
    parse_mbi k c tzsize sigsz dek im = Ok (parsed c x dek)).
Proof. exact (conj roundtrip_enc_full roundtrip_enc_ctr). Qed.
Print Assumptions mbi_roundtrip_encrypted.
