From Coq Require Import ZArith NArith List Bool Lia.
Require Import Value Bytes MbiMixinModel GenMbi MbiModel MbiProofs MbiRtProofs MbiSweepProofs.
Import ListNotations.
Local Open Scope Z_scope.

(* C01 refuted on the faithful model (each conjunct is one known finding, with a class of the database, an input the
   builder accepts, and the exported image):
   F1 relocation table present -> parse rejects;  F2 relocation-like tail -> application cut from 80 to 64 bytes;
   F3 HMAC class with a 56-byte application -> parse rejects;  F4 encrypted class with a 64-byte application -> emitted
   length = header length + 32 (HMAC inserted twice);  F5 manifest class with default TrustZone -> parsed as DISABLED and
   the parsed object fails validate;  F7 cert block v1 with custom TrustZone -> parse crashes (AssertionError). *)
Theorem mbi_roundtrip_refuted :
  (in_db c_crc_ram = true /\ validate c_crc_ram x_reloc = Ok tt /\
   export_mbi (k0 0) c_crc_ram x_reloc = Ok im_reloc /\ parse_mbi (k0 0) c_crc_ram 1140 0 None im_reloc = Err E_REJECT) /\
  (validate c_crc_ram x_tail = Ok tt /\ m_table x_tail = None /\ export_mbi (k0 0) c_crc_ram x_tail = Ok im_tail /\
   res_map (fun y => (length (m_app y), m_table y)) (parse_mbi (k0 0) c_crc_ram 1140 0 None im_tail) = Ok (64%nat, Some []) /\
   length (m_app x_tail) = 80%nat) /\
  (in_db c_signed_ram = true /\ validate c_signed_ram (x_hmac 56) = Ok tt /\
   export_mbi (k0 256) c_signed_ram (x_hmac 56) = Ok im_hmac /\
   parse_mbi (k0 256) c_signed_ram 1140 256 (Some (zeros 32)) im_hmac = Err E_REJECT) /\
  (in_db c_encrypted = true /\ validate c_encrypted x_enc = Ok tt /\
   export_mbi (k0 256) c_encrypted x_enc = Ok im_enc /\ zlen im_enc = rd32 OFF_LEN im_enc + 32) /\
  (in_db c_manifest = true /\ validate c_manifest x_manifest = Ok tt /\
   export_mbi (k0 64) c_manifest x_manifest = Ok im_manifest /\ m_tz x_manifest = TzEnabled /\
   res_map (fun y => (tz_tag (m_tz y), validate c_manifest y)) (parse_mbi (k0 64) c_manifest 1100 64 None im_manifest)
   = Ok (G_TZ_DISABLED, Err E_REJECT)) /\
  (in_db c_signed_xip = true /\ validate c_signed_xip x_v1_tz = Ok tt /\
   export_mbi (k0 256) c_signed_xip x_v1_tz = Ok im_v1_tz /\ parse_mbi (k0 256) c_signed_xip 464 256 None im_v1_tz = Err E_CRASH).
Proof. exact roundtrip_refuted_all. Qed.
Print Assumptions mbi_roundtrip_refuted.
