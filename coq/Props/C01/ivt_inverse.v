From Coq Require Import ZArith NArith List Bool Lia.
Require Import Value Bytes MbiMixinModel GenMbi MbiModel MbiProofs.
Import ListNotations.
Local Open Scope Z_scope.

(* C01: clean_ivt undoes update_ivt on the four IVT words (0x20, 0x24, 0x28, 0x34), for every class, every settings
   record, every application of at least 0x38 bytes and every total length / CRC-or-offset value; and update_ivt
   does not depend on what the four words held before (so "equal outside the IVT words" is preserved by re-export). *)
Theorem ivt_inverse :
  forall (c : mbi_class) (x : mbi) (app app' : list N) (total crc_cert : Z),
    (56 <= length app)%nat ->
    update_ivt c x app total crc_cert = Ok app' ->
    clean_ivt app' = clean_ivt app /\
    update_ivt c x (clean_ivt app) total crc_cert = Ok app'.
Proof. intros c x app app' total cc L H. split; [exact (clean_update c x app total cc app' L H) | now rewrite update_clean]. Qed.
Print Assumptions ivt_inverse.
