From Coq Require Import ZArith NArith List Bool Lia.
Require Import Value Bytes MbiMixinModel GenMbi MbiModel MbiRtProofs MbiKindsProofs MbiSweepProofs MbiBcaModel MbiBcaProofs.
Import ListNotations.
Local Open Scope Z_scope.

(* C01: EVERY class of EVERY family of the (regenerated) database is either under one of the five round-trip theorems
   (mbi_roundtrip_plain_crc, _signed_v1, _signed_v21, _encrypted, _bca: 318 of 332 offers on this tree) or is of exactly
   one of two NAMED kinds that are modelled and compared with the implementation on every run but have no round-trip
   theorem: kind_vx (certificate block Vx, 4 offers; reason: sub-images replaced by shorter
   strings - the zero fill is not yet reduced to concatenation) and kind_mcxc (BCA / FCF register objects, 10 offers; reasons: register canonical form is C11/C12's,
   finding C01-F11).  The offers are counted: nothing is left over and nothing is counted twice. *)
Theorem database_offers_classified :
  (forall c, In c gen_compositions ->
     (under_roundtrip_theorem c = true /\ kind_vx c = false /\ kind_mcxc c = false) \/
     (under_roundtrip_theorem c = false /\ xorb (kind_vx c) (kind_mcxc c) = true)) /\
  count_offers (fun _ => true) = (count_offers under_roundtrip_theorem + count_offers kind_vx + count_offers kind_mcxc)%nat /\
  (0 < count_offers wf_bca_fcf)%nat.
Proof. exact (conj offers_classified offers_counted). Qed.
Print Assumptions database_offers_classified.
