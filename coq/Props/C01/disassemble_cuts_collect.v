From Coq Require Import ZArith NArith List Bool Lia.
Require Import Value Bytes MbiMixinModel GenMbi MbiModel MbiProofs MbiRtProofs.
Import ListNotations.
Local Open Scope Z_scope.

(* C01, signed classes (certificate block v1: Mbi_ExportMixinAppTrustZoneCertBlock; v2.1 + manifest:
   Mbi_ExportMixinAppCertBlockManifest) without the relocation-table mixin, duplicate-free mixin list, image type <> 0:
   whatever collect_data appends behind the application (certificate block, TrustZone data / manifest) and whatever
   follows (signature, digest), disassemble_image cuts the image at the certificate-block offset written into IVT word
   0x28, and that offset is the length of the application -- so the application comes back (IVT words zeroed).
   (Defect D20 -- a negative slice at this place -- made exactly this statement false.) *)
Theorem disassemble_cuts_collect :
  forall (c : mbi_class) (x : mbi) (tzsize : nat) (st : mbi) (segs : image) (tail : list N),
    (provider c SCollect = Some ExportMixinAppTrustZoneCertBlock /\ provider c SDisassemble = Some ExportMixinAppTrustZoneCertBlock
     \/ provider c SCollect = Some ExportMixinAppCertBlockManifest /\ provider c SDisassemble = Some ExportMixinAppCertBlockManifest
        /\ m_cert st <> None) ->
    nodupb (c_mixins c) = true -> has c MixinApp = true -> has c MixinRelocTable = false -> c_type c <> 0 ->
    (56 <= length (m_app x))%nat -> (length (m_app x) mod 4 = 0)%nat ->
    collect c x = Ok segs ->
    disassemble c tzsize st (flat segs ++ tail) = Ok (set_app st (clean_ivt (m_app x))).
Proof. exact disassemble_cuts_collect_lemma. Qed.
Print Assumptions disassemble_cuts_collect.
