From Coq Require Import ZArith NArith List Bool Lia.
Require Import Value Bytes MbiMixinModel GenMbi MbiModel MbiProofs MbiRtProofs MbiSweepProofs.
Import ListNotations.
Local Open Scope Z_scope.

(* C01: for EVERY family and EVERY (target, authentication) pair it offers, MasterBootImage.parse finds a class for the
   image type the exporting class writes, and the class it finds has the same image type and at least the mixins of the
   exporting class -- except for the listed incompatibility (finding C01-F8: the selected class lacks the IVT-with-length
   or load-address mixin of the exporting class, or the family has a fixed image type). *)
Theorem class_selection_sweep :
  forall s, In s all_selections ->
    exists c c', s = Some (c, c') /\ (sel_ok c c' = true \/ known_ambiguous c c' = true).
Proof. exact class_selection_forall. Qed.
Print Assumptions class_selection_sweep.
