From Coq Require Import ZArith NArith List Bool Lia.
Require Import Value Bytes MbiMixinModel GenMbi MbiModel MbiProofs MbiRtProofs.
Import ListNotations.
Local Open Scope Z_scope.

(* C01 (findings F3, F4 repaired), classes finalized by Mbi_ExportMixinHmacKeyStoreFinalize:
   - an application (incl. relocation table) shorter than 64 bytes is REFUSED;
   - otherwise, for EVERY sub-image structure of the image (any number of sub-images, empty ones included), HMAC (+ key
     store) is inserted exactly once, at byte 64 of the image, and finalize(revert=True) as used by MasterBootImage.parse
     removes exactly what was inserted (the key-store flag of the header says whether a key store follows the HMAC). *)
Theorem hmac_finalize_inverse :
  forall (k : crypto) (c : mbi_class) (x st : mbi) (im : image) (dts : list N),
    provider c SFinalize = Some ExportMixinHmacKeyStoreFinalize ->
    (app_len c x < 64 -> finalize k c x im dts = Err E_REJECT) /\
    (64 <= app_len c x -> (64 < length (flat im))%nat ->
     (exists kb kt, m_hmac x = Some (kb :: kt)) ->
     (forall key data, length (k_hmac k key data) = 32%nat) ->
     (forall b, m_ks x = Some b -> length b = 1424%nat) ->
     flag_set (flat im) G_KEY_STORE_FLAG = (match m_ks x with Some _ => true | None => false end) ->
     exists im', finalize k c x im dts = Ok im' /\
       flat im' = firstn 64 (flat im) ++
                  hmac_bytes x (k_hmac k (match m_hmac x with Some key => key | None => [] end) (firstn 64 (flat im))) ++
                  skipn 64 (flat im) /\
       finalize_revert c st (flat im') = Ok (flat im)).
Proof. exact MbiRtProofs.hmac_finalize_inverse. Qed.
Print Assumptions hmac_finalize_inverse.
