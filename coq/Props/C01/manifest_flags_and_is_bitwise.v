From Coq Require Import ZArith NArith List Bool Lia.
Require Import Value Bytes MbiMixinModel GenMbi MbiModel MbiProofs.
Import ListNotations.
Local Open Scope Z_scope.

(* C01: Mbi_ExportMixinAppCertBlockManifest.finalize tests `flags and DIGEST_PRESENT_FLAG and digest_hash_algo is not None`
   (logical `and`); for every manifest the constructor can build (digest algorithm none / sha256 / sha384 / sha512) this is
   the same as the bitwise test `flags & DIGEST_PRESENT_FLAG` that mix_len uses -- the logical `and` is harmless. *)
Theorem manifest_flags_and_is_bitwise :
  forall dg : Z, 0 <= dg <= 3 ->
    (negb (manifest_flags dg =? 0) && negb (dg =? 0)) = negb (Z.land (manifest_flags dg) G_MANIFEST_DIGEST_PRESENT_FLAG =? 0).
Proof. exact manifest_flags_logical_is_bitwise. Qed.
Print Assumptions manifest_flags_and_is_bitwise.
