From Coq Require Import ZArith NArith List Bool Lia.
Require Import Value Bytes MbiMixinModel GenMbi MbiModel MbiProofs.
Import ListNotations.
Local Open Scope Z_scope.

(* C01: the image type and every flag field of IVT word 0x24 is recovered by the parser's shift/mask expressions:
   image type, TrustZone type, sub-type, HW-key, key-store, relocation-table flag, image version. *)
Theorem flags_decode :
  forall (c : mbi_class) (x : mbi),
    0 <= c_type c < 64 -> 0 <= m_subtype x < 4 -> 0 <= m_imgver x < 65536 ->
    let f := create_flags c x in
    0 <= f < 4294967296 /\
    Z.land f G_IVT_IMAGE_FLAGS_IMAGE_TYPE_MASK = c_type c /\
    Z.land (Z.shiftr f G_IVT_IMAGE_FLAGS_TZ_TYPE_SHIFT) G_IVT_IMAGE_FLAGS_TZ_TYPE_MASK = (if has_tz c then tz_tag (m_tz x) else 0) /\
    Z.land (Z.shiftr f G_IVT_IMAGE_FLAGS_SUB_TYPE_SHIFT) G_IVT_IMAGE_FLAGS_SUB_TYPE_MASK = (if has_attr c AImageSubtype then m_subtype x else 0) /\
    negb (Z.land f G_HW_USER_KEY_EN_FLAG =? 0) = (has_attr c AHwKey && m_hwkey x) /\
    negb (Z.land f G_KEY_STORE_FLAG =? 0) = (has_attr c AKeyStore && truthy_ks (m_ks x)) /\
    negb (Z.land f G_RELOC_TABLE_FLAG =? 0) = (has_attr c AAppTable && (match m_table x with Some _ => true | None => false end)) /\
    (if negb (Z.land f G_BOOT_IMAGE_VERSION_FLAG =? 0)
     then Z.land (Z.shiftr f G_IVT_IMAGE_FLAGS_IMG_VER_SHIFT) G_IVT_IMAGE_FLAGS_IMG_VER_MASK else 0)
    = (if has_attr c AImageVersion then m_imgver x else 0).
Proof. exact flags_decode_lemma. Qed.
Print Assumptions flags_decode.
