From Coq Require Import ZArith NArith List Bool Lia.
Require Import Value Bytes MbiMixinModel GenMbi MbiModel MbiProofs MbiRtProofs MbiSweepProofs.
Import ListNotations.
Local Open Scope Z_scope.

(* C01: EVERY class of EVERY family in the database (332 classes / 50 distinct compositions on this tree; the list is
   regenerated on every run) has a duplicate-free mixin list, an image type in 0..63, the App mixin, at most one TrustZone
   mixin, and is of one of the kinds: plain/CRC (for which mbi_roundtrip_plain_crc and len_is_sum_plain_crc apply),
   signed cert-block-v1, signed cert-block-v2.1 + manifest, encrypted, or one of the BCA/FCF based classes that the model
   does not cover. *)
Theorem wf_class_sweep : forall c, In c gen_compositions -> wf_class c = true.
Proof. exact wf_class_forall. Qed.
Print Assumptions wf_class_sweep.
