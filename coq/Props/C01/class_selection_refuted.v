From Coq Require Import ZArith NArith List Bool Lia.
Require Import Value Bytes MbiMixinModel GenMbi MbiModel MbiProofs MbiRtProofs MbiSweepProofs.
Import ListNotations.
Local Open Scope Z_scope.

(* C01 refuted (finding C01-F8): some family offers a class WITH a load address whose images are parsed with a class that
   has a different mixin set and NO load address (the two classes share their image type), so the load address cannot
   come back. *)
Theorem class_selection_refuted : exists s, In s all_selections /\ bad_selection s = true.
Proof. exact refute_class_selection. Qed.
Print Assumptions class_selection_refuted.
