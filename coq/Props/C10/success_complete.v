From Coq Require Import ZArith NArith List Bool Lia.
Require Import Value Bytes GenMboot MbootModel MbootProofs.
Import ListNotations.
Local Open Scope N_scope.

(* C10 property theorem -- statement only; the proof is one lemma application. *)
Theorem success_complete :
  forall (E : Type) (I : iface E) (ce : bool) (fuel : nat) (p : cmdpkt) (cls : N) (s : mbs E) (v : list N) (s1 : mbs E),
  cmd_data_in E I ce fuel p cls s = (ROk (AVBytes v), s1) -> mb_status E s1 = SC_SUCCESS ->
  exists b e0 rs e1, pkt_bytes p = ROk b /\ i_write_command I b (mb_env E s) = (ROk tt, e0) /\
    i_read I e0 = (ROk (RxResp rs), e1) /\ r_status rs = SC_SUCCESS /\ r_cls rs = cls /\ nlen v = r_second rs.
Proof. exact success_complete_lemma. Qed.
Print Assumptions success_complete.
