From Coq Require Import ZArith NArith List Bool Lia.
Require Import Value Bytes GenMboot MbootModel MbootProofs SdpModel SdpProofs.
Import ListNotations.
Local Open Scope N_scope.

(* C10 property theorem (SDP) -- statement only; the proof is one lemma application. *)
Theorem sdp_read_complete :
  forall (E : Type) (I : sdp_iface E) (ce : bool) (fuel : nat) (a d : list N) (s : sdps E) (v : list N) (s1 : sdps E),
  sdp_api E I ce fuel (Call 1 a d) s = (ROk (AVBytes v), s1) -> nlen v = nth 1 a 0.
Proof. exact SdpProofs.sdp_read_complete. Qed.
Print Assumptions sdp_read_complete.
