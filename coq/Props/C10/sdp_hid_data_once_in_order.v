From Coq Require Import ZArith NArith List Bool Lia.
Require Import Value Bytes GenMboot MbootModel MbootProofs SdpModel SdpProofs.
Import ListNotations.
Local Open Scope N_scope.

(* C10 property theorem (SDP) -- statement only; the proof is one lemma application. *)
Theorem sdp_hid_data_once_in_order :
  forall (rid size : N) (data : list N), 0 < size ->
  exists chunks, sh_frames (length data) rid size data = map (sdp_pad rid size) chunks /\
    concat chunks = data /\ Forall (fun c => c <> [] /\ nlen c <= size) chunks.
Proof. exact sdp_hid_reports_carry_data. Qed.
Print Assumptions sdp_hid_data_once_in_order.
