From Coq Require Import ZArith NArith List Bool Lia.
Require Import Value Bytes GenMboot MbootModel MbootProofs.
Import ListNotations.
Local Open Scope N_scope.

(* C10 property theorem -- statement only; the proof is one lemma application. *)
Theorem lost_frame_surfaces :
  (exists v s1, f1_run false = (ROk (AVBytes v), s1) /\ mb_status _ s1 = SC_FAIL /\ nlen v = 12) /\
  (exists s1, f1_run true = (RExn (XCmd SC_FAIL), s1)).
Proof. exact lost_frame_reports_failure. Qed.
Print Assumptions lost_frame_surfaces.
