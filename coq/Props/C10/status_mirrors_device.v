From Coq Require Import ZArith NArith List Bool Lia.
Require Import Value Bytes GenMboot MbootModel MbootProofs.
Import ListNotations.
Local Open Scope N_scope.

(* C10 property theorem -- statement only; the proof is one lemma application. *)
Theorem status_mirrors_device :
  forall (E : Type) (I : iface E) (ce : bool) (p : cmdpkt) (s : mbs E) (rs : resp) (s1 : mbs E),
  process_cmd E I ce p s = (ROk rs, s1) ->
  mb_mps E s1 = mb_mps E s /\ mb_status E s1 = r_status rs /\ (ce = true -> r_status rs = SC_SUCCESS) /\
  ((exists b e0, pkt_bytes p = ROk b /\ i_write_command I b (mb_env E s) = (ROk tt, e0) /\
                 i_read I e0 = (ROk (RxResp rs), mb_env E s1))
   \/ rs = no_response (pkt_tag p)).
Proof. exact process_cmd_sound. Qed.
Print Assumptions status_mirrors_device.
