From Coq Require Import ZArith NArith List Bool Lia.
Require Import Value Bytes GenMboot MbootModel MbootProofs SdpModel SdpProofs.
Import ListNotations.
Local Open Scope N_scope.

(* C10 property theorem (SDP) -- statement only; the proof is one lemma application. *)
Theorem sdp_write_success_sound :
  forall (E : Type) (I : sdp_iface E) (ce : bool) (tag address : N) (data : list N) (s s1 : sdps E),
  sdp_send_data E I ce tag address data s = (ROk true, s1) ->
  (tag = SDPCT_WRITE_FILE -> sd_cmd E s1 = SDPRV_WRITE_FILE_OK) /\
  (tag = SDPCT_WRITE_DCD -> sd_cmd E s1 = SDPRV_WRITE_DATA_OK) /\
  (tag = SDPCT_WRITE_CSF -> sd_cmd E s1 = SDPRV_WRITE_DATA_OK) /\ sd_status E s1 = SDPSC_SUCCESS.
Proof. exact sdp_send_data_sound. Qed.
Print Assumptions sdp_write_success_sound.
