From Coq Require Import ZArith NArith List Bool Lia.
Require Import Value Bytes GenMboot MbootModel MbootProofs.
Import ListNotations.
Local Open Scope N_scope.

(* C10 property theorem -- statement only; the proof is one lemma application. *)
Theorem report_roundtrip :
  forall (D : Type) (rid : N) (p : list N) (e : henv D), p <> [] -> nlen p < 65536 ->
  h_parse_frame D (mk_report rid p) e = if rid =? RID_CMD_IN then parse_rx p e else (ROk (RxData p), e).
Proof. exact report_roundtrip_lemma. Qed.
Print Assumptions report_roundtrip.
