From Coq Require Import ZArith NArith List Bool Lia.
Require Import Value Bytes GenMboot MbootModel MbootProofs.
Import ListNotations.
Local Open Scope N_scope.

(* C10 property theorem -- statement only; the proof is one lemma application. *)
Theorem host_terminates :
  forall (ce : bool) (mps : option N) (stream : list N) (calls : list value),
  Forall (fun o => match fst o with RExn XHang => False | _ => True end)
         (fst (run_serial null_recv (S (S (length stream))) ce mps tt stream calls)).
Proof. exact host_terminates_lemma. Qed.
Print Assumptions host_terminates.
