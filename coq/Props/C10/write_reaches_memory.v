From Coq Require Import ZArith NArith List Bool Lia.
Require Import Value Bytes GenMboot MbootModel MbootProofs.
Import ListNotations.
Local Open Scope N_scope.

(* C10 property theorem -- statement only; the proof is one lemma application. *)
Theorem write_reaches_memory :
  forall (c : dcore) (a : N) (d : list N),
  dc_mem (after_write c a d) = mem_put c a d /\
  dc_cmds (after_write c a d) = (CT_WRITE_MEMORY, CF_HAS_DATA_PHASE, [a; nlen d; 0]) :: dc_cmds c.
Proof. intros c a d. split; [apply after_write_mem|apply after_write_frame]. Qed.
Print Assumptions write_reaches_memory.
