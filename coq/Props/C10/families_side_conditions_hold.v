From Coq Require Import ZArith NArith List Bool Lia.
Require Import Value Bytes GenMboot MbootModel MbootProofs MbootSpecProofs.
Import ListNotations.
Local Open Scope N_scope.

(* C10 property theorem (extension) -- statement only; the proof is one lemma application. *)
Theorem families_side_conditions_hold :
  forall (maxc : N) (fuel : nat) (c : dcore), 16 <= maxc -> no_faults c -> dc_phase c = None ->
  (forall a l pat, a < U32 -> l < U32 -> pat < U32 -> fop_ok maxc fuel c (FSimple (pkt_fill_memory a l pat))) /\
  (forall a l m, a < U32 -> l < U32 -> m < U32 -> fop_ok maxc fuel c (FSimple (CT_FLASH_ERASE_REGION, CF_NONE, [a; l; m]))) /\
  (forall m, m < U32 -> fop_ok maxc fuel c (FSimple (pkt_flash_erase_all m))) /\
  (forall t v, t < U32 -> v < U32 -> fop_ok maxc fuel c (FSimple (pkt_set_property t v))) /\
  (forall idx v, idx < U32 -> v < U32 -> fop_ok maxc fuel c (FSimple (pkt_efuse_program_once idx v))).
Proof. intros maxc fuel c H Hn Hp. repeat split; intros; first [apply fill_ok|apply erase_region_ok|apply erase_all_ok|apply set_property_ok|apply program_once_ok]; assumption. Qed.
Print Assumptions families_side_conditions_hold.
