From Coq Require Import ZArith NArith List Bool Lia.
Require Import Value Bytes GenMboot MbootModel MbootProofs.
Import ListNotations.
Local Open Scope N_scope.

(* C10 property theorem -- statement only; the proof is one lemma application. *)
Theorem faultfree_refines_spec :
  forall (ce : bool) (fuel : nat) (xs : list wr) (c : dcore) (st : N) (out cons : list (list N)),
  wf_dev c -> all_ok fuel c xs ->
  exists out1 cons1 st1,
    session (senv sdev) (serial_iface sdev sdev_recv) ce fuel (map wr_call xs) (idle st c out cons) =
    (fst (spec_run c xs), idle st1 (snd (spec_run c xs)) out1 cons1).
Proof. exact faultfree_refines_spec_lemma. Qed.
Print Assumptions faultfree_refines_spec.
