From Coq Require Import ZArith NArith List Bool Lia.
Require Import Value Bytes GenMboot MbootModel MbootProofs.
Import ListNotations.
Local Open Scope N_scope.

(* C10 property theorem -- statement only; the proof is one lemma application. *)
Theorem frame_roundtrip :
  forall (D : Type) (recv : D -> list N -> D * list N) (t : N) (p rest : list N) (d : D) (out cons : list (list N)),
  t <> FP_ABORT -> p <> [] -> nlen p < 65536 ->
  s_read D recv (mkSenv D d (mk_frame t p ++ rest) out cons) =
  let env := mkSenv D (fst (recv d ACK_BYTES)) (rest ++ snd (recv d ACK_BYTES)) (ACK_BYTES :: out)
                    (p :: le16 (frame_crc t p) :: le16 (nlen p) :: [t] :: [FRAME_START_BYTE] :: cons) in
  if t =? FP_CMD then parse_rx p env else (ROk (RxData p), env).
Proof. exact s_read_frame. Qed.
Print Assumptions frame_roundtrip.
