From Coq Require Import ZArith NArith List Bool Lia.
Require Import Value Bytes GenMboot MbootModel MbootProofs MbootSpecProofs.
Import ListNotations.
Local Open Scope N_scope.

(* C10 property theorem (extension) -- statement only; the proof is one lemma application. *)
Theorem hid_report_roundtrip_device :
  forall (c : dcore) (b : list N), nlen b < 65536 ->
  hdev_recv c (mk_report RID_CMD_OUT b) =
  (cmd_core c b, mk_report RID_CMD_IN (cmd_first c b) :: hid_queue (cmd_core c b) (cmd_zfin c b) (cmd_din c b)).
Proof. exact hdev_recv_cmd. Qed.
Print Assumptions hid_report_roundtrip_device.
