From Coq Require Import ZArith NArith List Bool Lia.
Require Import Value Bytes GenMboot MbootModel MbootProofs SdpModel SdpProofs.
Import ListNotations.
Local Open Scope N_scope.

(* C10 property theorem (SDP) -- statement only; the proof is one lemma application. *)
Theorem sdp_read_exact :
  forall (D : Type) (recv : D -> list N -> D * list N) (ce : bool) (fuel : nat) (a d : list N)
         (s : sdps (ssenv D)) (v : list N) (s1 : sdps (ssenv D)),
  sdp_api _ (sdp_serial_iface D recv) ce fuel (Call 1 a d) s = (ROk (AVBytes v), s1) ->
  exists hab, nlen hab = 4 /\ eaten D (senv_of D s) (senv_of D s1) (hab ++ v) /\ nlen v = nth 1 a 0.
Proof. exact sdp_read_exact_serial. Qed.
Print Assumptions sdp_read_exact.
