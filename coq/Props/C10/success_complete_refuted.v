From Coq Require Import ZArith NArith List Bool Lia.
Require Import Value Bytes GenMboot MbootModel MbootProofs.
Import ListNotations.
Local Open Scope N_scope.

(* C10 property theorem -- statement only; the proof is one lemma application. *)
Theorem success_complete_refuted :
  exists v s1, f1_run false = (ROk (AVBytes v), s1) /\ mb_status _ s1 = SC_SUCCESS /\ nlen v = 12 /\ se_in unit (mb_env _ s1) = [].
Proof. exact partial_success_witness. Qed.
Print Assumptions success_complete_refuted.
