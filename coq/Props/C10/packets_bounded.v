From Coq Require Import ZArith NArith List Bool Lia.
Require Import Value Bytes GenMboot MbootModel MbootProofs.
Import ListNotations.
Local Open Scope N_scope.

(* C10 property theorem -- statement only; the proof is one lemma application. *)
Theorem packets_bounded :
  forall (E : Type) (I : iface E) (ce : bool) (data : list N) (s : mbs E) (ch : list (list N)) (s1 : mbs E),
  split_data E I ce data s = (ROk ch, s1) ->
  exists m, mb_mps E s1 = Some m /\ 0 < m /\ concat ch = data /\ Forall (fun c => c <> [] /\ nlen c <= m) ch.
Proof. exact split_data_spec. Qed.
Print Assumptions packets_bounded.
