From Coq Require Import ZArith NArith List Bool Lia.
Require Import Value Bytes GenMboot MbootModel MbootProofs.
Import ListNotations.
Local Open Scope N_scope.

(* C10 property theorem -- statement only; the proof is one lemma application. *)
Theorem never_partial_success :
  forall (E : Type) (I : iface E) (ce : bool) (fuel : nat) (address len mem_id : N) (s : mbs E) (v : list N) (s1 : mbs E),
  i_usb I = true -> read_memory E I ce fuel address len mem_id false s = (ROk (AVBytes v), s1) ->
  mb_status E s1 = SC_SUCCESS -> nlen v = len.
Proof. exact read_memory_usb_complete. Qed.
Print Assumptions never_partial_success.
