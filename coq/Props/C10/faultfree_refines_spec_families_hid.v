From Coq Require Import ZArith NArith List Bool Lia.
Require Import Value Bytes GenMboot MbootModel MbootProofs MbootSpecProofs.
Import ListNotations.
Local Open Scope N_scope.

(* C10 property theorem (extension) -- statement only; the proof is one lemma application. *)
Theorem faultfree_refines_spec_families_hid :
  forall (ce : bool) (fuel : nat) (xs : list fcall) (c : dcore) (st : N) (out cons : list (list N)),
  0 < dc_mps c -> dc_mps c <= HID_MAXC -> fops_ok HID_MAXC ce fuel c (map fcall_fop xs) ->
  exists out1 cons1 st1,
    session _ (hid_iface dcore hdev_recv) ce fuel (map fcall_call xs) (mkMbs _ st (Some (dc_mps c)) (mkHenv dcore c [] out cons)) =
    (fst (spec_fops ce c (map fcall_fop xs)),
     mkMbs _ st1 (Some (dc_mps c)) (mkHenv dcore (snd (spec_fops ce c (map fcall_fop xs))) [] out1 cons1)).
Proof. exact faultfree_api_hid. Qed.
Print Assumptions faultfree_refines_spec_families_hid.
