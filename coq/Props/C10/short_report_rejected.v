From Coq Require Import ZArith NArith List Bool Lia.
Require Import Value Bytes GenMboot MbootModel MbootProofs.
Import ListNotations.
Local Open Scope N_scope.

(* C10 property theorem -- statement only; the proof is one lemma application. *)
Theorem short_report_rejected :
  forall (D : Type) (raw : list N) (e : henv D) (v : rx) (e1 : henv D),
  h_parse_frame D raw e = (ROk v, e1) ->
  e1 = e /\ 4 + le_dec (firstn 2 (skipn 2 raw)) <= nlen raw /\ 0 < le_dec (firstn 2 (skipn 2 raw)) /\
  let p := firstnN (le_dec (firstn 2 (skipn 2 raw))) (skipn 4 raw) in
  nlen p = le_dec (firstn 2 (skipn 2 raw)) /\
  (if nth 0 raw 0 =? RID_CMD_IN then exists r, parse_cmd_response p = ROk r /\ v = RxResp r else v = RxData p).
Proof. exact h_parse_frame_sound. Qed.
Print Assumptions short_report_rejected.
