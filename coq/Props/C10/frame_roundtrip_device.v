From Coq Require Import ZArith NArith List Bool Lia.
Require Import Value Bytes GenMboot MbootModel MbootProofs.
Import ListNotations.
Local Open Scope N_scope.

(* C10 property theorem -- statement only; the proof is one lemma application. *)
Theorem frame_roundtrip_device :
  forall (c : dcore) (q : list (list N)) (p : list N), p <> [] -> nlen p < 65536 ->
  sdev_recv (mkSdev c q) (mk_frame FP_DATA p) =
  (mkSdev (fst (dev_data_out c p)) q,
   ACK_BYTES ++ match snd (dev_data_out c p) with Some r => mk_frame FP_CMD r | None => [] end).
Proof. exact sdev_recv_data. Qed.
Print Assumptions frame_roundtrip_device.
