From Coq Require Import ZArith NArith List Bool Lia.
Require Import Value Bytes GenMboot MbootModel MbootProofs SdpModel SdpProofs.
Import ListNotations.
Local Open Scope N_scope.

(* C10 property theorem (SDP) -- statement only; the proof is one lemma application. *)
Theorem sdp_write_once_in_order :
  forall (D : Type) (recv : D -> list N -> D * list N) (ce : bool) (tag address : N) (data b : list N)
         (s : sdps (ssenv D)) (r : result bool) (s1 : sdps (ssenv D)),
  sdp_pkt tag address 0 (nlen data) 0 = ROk b ->
  sdp_send_data _ (sdp_serial_iface D recv) ce tag address data s = (r, s1) ->
  exists n, wrote D (senv_of D s) (senv_of D s1) (firstn n [b; data]) /\ (forall ok, r = ROk ok -> n = 2%nat).
Proof. exact sdp_send_data_writes. Qed.
Print Assumptions sdp_write_once_in_order.
