From Coq Require Import ZArith NArith List Bool Lia.
Require Import Value Bytes GenMboot MbootModel MbootProofs MbootSpecProofs.
Import ListNotations.
Local Open Scope N_scope.

(* C10 property theorem (extension) -- statement only; the proof is one lemma application. *)
Theorem faultfree_refines_spec_families_serial :
  forall (ce : bool) (fuel : nat) (xs : list fcall) (c : dcore) (st : N) (out cons : list (list N)),
  0 < dc_mps c -> dc_mps c <= 65535 -> fops_ok 65535 ce fuel c (map fcall_fop xs) ->
  exists out1 cons1 st1,
    session _ (serial_iface sdev sdev_recv) ce fuel (map fcall_call xs) (mkMbs _ st (Some (dc_mps c)) (live_env c [] [] out cons)) =
    (fst (spec_fops ce c (map fcall_fop xs)),
     mkMbs _ st1 (Some (dc_mps c)) (live_env (snd (spec_fops ce c (map fcall_fop xs))) [] [] out1 cons1)).
Proof. exact faultfree_api_serial. Qed.
Print Assumptions faultfree_refines_spec_families_serial.
