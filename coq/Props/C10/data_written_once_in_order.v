From Coq Require Import ZArith NArith List Bool Lia.
Require Import Value Bytes GenMboot MbootModel MbootProofs.
Import ListNotations.
Local Open Scope N_scope.

(* C10 property theorem -- statement only; the proof is one lemma application. *)
Theorem data_written_once_in_order :
  forall (D : Type) (recv : D -> list N -> D * list N) (ab : bool) (chunks : list (list N)) (e : senv D)
         (r : result unit) (e1 : senv D),
  write_chunks (senv D) (serial_iface D recv) ab chunks e = (r, e1) ->
  exists n, wrote D e e1 (map (mk_frame FP_DATA) (firstn n chunks)) /\ (r = ROk tt -> n = length chunks).
Proof. exact write_chunks_prefix. Qed.
Print Assumptions data_written_once_in_order.
