From Coq Require Import ZArith NArith List Bool Lia.
Require Import Value Bytes GenMboot MbootModel MbootProofs.
Import ListNotations.
Local Open Scope N_scope.

(* C10 property theorem -- statement only; the proof is one lemma application. *)
Theorem short_report_refuted :
  h_parse_frame unit [RID_DATA_IN; 0; 8; 0; 97; 98; 99] (mkHenv unit tt [] [] []) = (ROk (RxData [97; 98; 99]), mkHenv unit tt [] [] []).
Proof. exact short_report_accepted. Qed.
Print Assumptions short_report_refuted.
