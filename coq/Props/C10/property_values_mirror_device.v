From Coq Require Import ZArith NArith List Bool Lia.
Require Import Value Bytes GenMboot MbootModel MbootProofs.
Import ListNotations.
Local Open Scope N_scope.

(* C10 property theorem -- statement only; the proof is one lemma application. *)
Theorem property_values_mirror_device :
  forall (E : Type) (I : iface E) (ce : bool) (tag index : N) (s : mbs E) (vals : list N) (s1 : mbs E),
  get_property E I ce tag index s = (ROk (Some vals), s1) ->
  exists b e0 rs, pkt_bytes (pkt_get_property tag index) = ROk b /\ i_write_command I b (mb_env E s) = (ROk tt, e0) /\
    i_read I e0 = (ROk (RxResp rs), mb_env E s1) /\ r_status rs = SC_SUCCESS /\ r_cls rs = 2 /\ vals = r_values rs /\
    mb_status E s1 = SC_SUCCESS.
Proof. exact get_property_sound. Qed.
Print Assumptions property_values_mirror_device.
