From Coq Require Import ZArith NArith List Bool Lia.
Require Import Value Bytes GenMboot MbootModel MbootProofs.
Import ListNotations.
Local Open Scope N_scope.

(* C10 property theorem -- statement only; the proof is one lemma application. *)
Theorem success_sound_serial :
  forall (D : Type) (recv : D -> list N -> D * list N) (ce : bool) (fuel : nat) (p : cmdpkt) (cls : N)
         (s : mbs (senv D)) (v : list N) (s1 : mbs (senv D)),
  cmd_data_in (senv D) (serial_iface D recv) ce fuel p cls s = (ROk (AVBytes v), s1) ->
  mb_status _ s1 = SC_SUCCESS ->
  exists b e0 e1 rs pr wr its bs rsf,
    pkt_bytes p = ROk b /\ s_write_command D recv b (mb_env _ s) = (ROk tt, e0) /\
    eaten D e0 e1 wr /\ frame_wire FP_CMD pr wr /\ parse_cmd_response pr = ROk rs /\ r_status rs = SC_SUCCESS /\ r_cls rs = cls /\
    eaten D e1 (mb_env _ s1) bs /\ swire its bs /\ v = firstnN (r_second rs) (datas its) /\
    last_resp its = Some rsf /\ r_cls rsf = 1 /\ r_second rsf = pkt_tag p /\ r_status rsf = SC_SUCCESS /\
    nlen v = r_second rs.
Proof. exact success_sound_serial_lemma. Qed.
Print Assumptions success_sound_serial.
