From Coq Require Import ZArith NArith List Bool Lia.
Require Import Value Bytes GenMboot MbootModel MbootProofs.
Import ListNotations.
Local Open Scope N_scope.

(* C10 property theorem -- statement only; the proof is one lemma application. *)
Theorem frames_crc_checked :
  forall (D : Type) (recv : D -> list N -> D * list N) (e : senv D) (v : rx) (e1 : senv D),
  s_read D recv e = (ROk v, e1) ->
  exists zs hdr ft lenb crcb p,
    eaten D e e1 (zs ++ hdr ++ lenb ++ crcb ++ p) /\ zeros_only zs /\ hdr_ok hdr ft /\ ft <> FP_ABORT /\
    p <> [] /\ nlen p <= le_dec lenb /\ le_dec crcb = frame_crc ft p /\
    (if ft =? FP_CMD then exists r, parse_cmd_response p = ROk r /\ v = RxResp r else v = RxData p).
Proof. exact s_read_sound. Qed.
Print Assumptions frames_crc_checked.
