From Coq Require Import ZArith NArith List Bool Lia.
Require Import Value SdpsModel SdpsProofs.
Import ListNotations.

(* C10 property theorem (SDPS / SDP bulk data phase over USB-HID) -- statement only; the proof is one lemma application.
   For every negotiated report size > 0, report id and data: every report has exactly the negotiated size and the
   report id; the payloads concatenated are the data followed by fewer than one report of zero padding (each byte
   arrives once, in order); and the number of reports is the ceiling of len/size. *)
Theorem sdps_hid_reports_negotiated_size_once_in_order :
  forall rid size data, 0 < size ->
  Forall (fun f => length f = S size /\ hd_error f = Some rid) (sdps_write_data rid size data) /\
  (exists k, concat (map (@tl N) (sdps_write_data rid size data)) = data ++ repeat 0%N k /\ k < size) /\
  length (sdps_write_data rid size data) = (length data + size - 1) / size.
Proof. exact sdps_write_data_spec_l. Qed.
Print Assumptions sdps_hid_reports_negotiated_size_once_in_order.
