From Coq Require Import ZArith NArith List Bool Lia.
Require Import Value Bytes GenMboot MbootModel MbootProofs.
Import ListNotations.
Local Open Scope N_scope.

(* C10 property theorem -- statement only; the proof is one lemma application. *)
Theorem success_sound :
  forall (E : Type) (I : iface E) (ce : bool) (fuel : nat) (p : cmdpkt) (cls : N) (s : mbs E) (v : list N) (s1 : mbs E),
  cmd_data_in E I ce fuel p cls s = (ROk (AVBytes v), s1) ->
  exists b e0 rs e1 its e_end rsf s0,
    pkt_bytes p = ROk b /\ i_write_command I b (mb_env E s) = (ROk tt, e0) /\ i_read I e0 = (ROk (RxResp rs), e1) /\
    r_status rs = SC_SUCCESS /\ r_cls rs = cls /\
    ireads I e1 e_end its /\ v = firstnN (r_second rs) (datas its) /\ rd_end E I (pkt_tag p) e_end its rsf s0 /\
    mb_env E s1 = mb_env E s0 /\
    (mb_status E s1 = SC_SUCCESS ->
       e_end = mb_env E s1 /\ last_resp its = Some rsf /\ r_cls rsf = 1 /\ r_second rsf = pkt_tag p /\ r_status rsf = SC_SUCCESS /\
       nlen v = r_second rs) /\
    (ce = true -> mb_status E s1 = SC_SUCCESS).
Proof. exact cmd_data_in_sound. Qed.
Print Assumptions success_sound.
