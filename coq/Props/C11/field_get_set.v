From Coq Require Import ZArith NArith List Bool Lia.
Require Import Value Bytes GenMisc MiscModel GenRegs RegsModel RegsProofs.
Import ListNotations.
Local Open Scope Z_scope.

(* C11 property theorem -- statement only; the proof is one lemma application.
   g ranges over every state reachable from a well-formed register file g0 by any finite operation sequence. *)
Theorem field_get_set :
  forall g0 ops t k f s v x nopre, wf_regs g0 -> let g := run g0 g0 ops in
  t_sreg g t = Some s -> t_field g t k = Some f -> to_int v = Ok x -> in_range (f_width f) (pre_of f x nopre) ->
  (exists g', step g0 g (OSetField t k v false nopre) = (g', VList []) /\ wf_regs g' /\
              f_get g' t k = Ok (post_of f (pre_of f x nopre))) /\
  (forall name c, v = VStr name -> enum_const (f_enums f) name = Some c -> in_range (f_width f) (pre_of f c false) ->
     exists g', step g0 g (OSetEnum t k (VStr name) false) = (g', VList []) /\ wf_regs g' /\
                f_get g' t k = Ok (post_of f (pre_of f c false))).
Proof. intros g0 ops t k f s v x nopre H0 g Hs Hf Hv Hp; destruct (reachable_wf g0 ops H0) as [Hw _]; split; [destruct (step_set_field_ok g0 g t k f s v x nopre Hw Hs Hf Hv Hp) as (g' & A & B & _ & C & _); exists g'; repeat split; assumption | intros name c _ Hc Hpc; exact (step_set_enum_ok g0 g t k f s name c Hw Hs Hf Hc Hpc)]. Qed.
Print Assumptions field_get_set.
