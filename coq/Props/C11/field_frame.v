From Coq Require Import ZArith NArith List Bool Lia.
Require Import Value Bytes GenMisc MiscModel GenRegs RegsModel RegsProofs.
Import ListNotations.
Local Open Scope Z_scope.

(* C11 property theorem -- statement only; the proof is one lemma application.
   g ranges over every state reachable from a well-formed register file g0 by any finite operation sequence. *)
Theorem field_frame :
  forall g0 ops t k f s v x nopre, wf_regs g0 -> let g := run g0 g0 ops in
  t_sreg g t = Some s -> t_field g t k = Some f -> to_int v = Ok x -> in_range (f_width f) (pre_of f x nopre) ->
  exists g', step g0 g (OSetField t k v false nopre) = (g', VList []) /\
    (* disjoint bit-fields of the same register keep their values *)
    (forall k' f', t_field g t k' = Some f' -> fields_disjoint f f' -> f_get g' t k' = f_get g t k') /\
    (* every other top-level register, with its sub-registers and bit-fields, is untouched *)
    (forall u, top_of u <> top_of t -> (forall r', t_get g' u r' = t_get g u r') /\ (forall k', f_get g' u k' = f_get g u k')) /\
    (* sibling sub-registers of the same group are untouched *)
    (forall i j j', t = Sub i j -> j' <> j ->
       (forall r', t_get g' (Sub i j') r' = t_get g (Sub i j') r') /\ (forall k', f_get g' (Sub i j') k' = f_get g (Sub i j') k')).
Proof. intros g0 ops t k f s v x nopre H0 g Hs Hf Hv Hp; destruct (reachable_wf g0 ops H0) as [Hw _]; destruct (step_set_field_ok g0 g t k f s v x nopre Hw Hs Hf Hv Hp) as (g' & A & _ & _ & _ & C & D & E); exists g'; repeat split; try assumption; try (now apply D); now apply (E i j j'). Qed.
Print Assumptions field_frame.
