From Coq Require Import ZArith NArith List Bool Lia.
Require Import Value Bytes GenMisc MiscModel GenRegs RegsModel RegsProofs.
Import ListNotations.
Local Open Scope Z_scope.

(* C11 property theorem -- statement only; the proof is one lemma application.
   g: the exporting object after any history; g1: the parsing object of the same layout after any other history
   (ops1 = [] is the fresh object).  layout_ok: registers in ascending, non-overlapping byte ranges. *)
Theorem export_parse_id :
  forall g0 ops ops1, wf_regs g0 -> layout_ok g0 ->
  let g := run g0 g0 ops in let g1 := run g0 g0 ops1 in
  exists bin g', export g = Ok bin /\ parse g1 bin = Ok g' /\
    forall i r, nth_error (g_regs g) i = Some r ->
      (* every non-hidden register, with all its sub-registers and bit-fields, is restored exactly *)
      (s_hidden (r_base r) = false -> nth_error (g_regs g') i = Some r) /\
      (* hidden (reserved) registers are exported but not parsed: they keep the parsing object's value *)
      (s_hidden (r_base r) = true -> nth_error (g_regs g') i = nth_error (g_regs g1) i).
Proof. intros g0 ops ops1 H0 L0 g g1; destruct (reachable_wf g0 ops H0) as [Hw Hs]; destruct (reachable_wf g0 ops1 H0) as [Hw1 Hs1]; apply export_parse_lemma; [exact Hw | exact Hw1 | exact (eq_trans (eq_sym Hs) Hs1) | exact (layout_ok_same g0 g Hs L0)]. Qed.
Print Assumptions export_parse_id.
