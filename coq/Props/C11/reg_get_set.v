From Coq Require Import ZArith NArith List Bool Lia.
Require Import Value Bytes GenMisc MiscModel GenRegs RegsModel RegsProofs.
Import ListNotations.
Local Open Scope Z_scope.

(* C11 property theorem -- statement only; the proof is one lemma application.
   g ranges over every state reachable from a well-formed register file g0 by any finite operation sequence. *)
Theorem reg_get_set :
  forall g0 ops t s v x raw, wf_regs g0 -> let g := run g0 g0 ops in
  t_sreg g t = Some s -> to_int v = Ok x -> in_range (s_width s) x ->
  exists g', step g0 g (OSetReg t v raw) = (g', VList []) /\ wf_regs g' /\ same_layout g g' /\
    t_get g' t raw = Ok x /\
    (forall u r', top_of u <> top_of t -> t_get g' u r' = t_get g u r') /\
    (forall i j j' r', t = Sub i j -> j' <> j -> t_get g' (Sub i j') r' = t_get g (Sub i j') r').
Proof. intros g0 ops t s v x raw H0 g Hs Hv Hx; destruct (reachable_wf g0 ops H0) as [Hw _]; exact (step_set_reg_ok g0 g t s v x raw Hw Hs Hv Hx). Qed.
Print Assumptions reg_get_set.
