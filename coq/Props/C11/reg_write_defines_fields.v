From Coq Require Import ZArith NArith List Bool Lia.
Require Import Value Bytes GenMisc MiscModel GenRegs RegsModel RegsProofs.
Import ListNotations.
Local Open Scope Z_scope.

(* C11 property theorem -- statement only; the proof is one lemma application.
   g ranges over every state reachable from a well-formed register file g0 by any finite operation sequence. *)
Theorem reg_write_defines_fields :
  forall g0 ops t s v x, wf_regs g0 -> let g := run g0 g0 ops in
  t_sreg g t = Some s -> to_int v = Ok x -> in_range (s_width s) x ->
  exists g', step g0 g (OSetReg t v false) = (g', VList []) /\ wf_regs g' /\
    forall k f, t_field g t k = Some f -> f_get g' t k = Ok (post_of f (getbits x (f_off f) (f_width f))).
Proof. intros g0 ops t s v x H0 g Hs Hv Hx; destruct (reachable_wf g0 ops H0) as [Hw _]; exact (step_set_reg_fields g0 g t s v x Hw Hs Hv Hx). Qed.
Print Assumptions reg_write_defines_fields.
