From Coq Require Import ZArith NArith List Bool Lia.
Require Import Value Bytes GenMisc MiscModel GenRegs RegsModel RegsProofs.
Import ListNotations.
Local Open Scope Z_scope.

(* C11 property theorem -- statement only; the proof is one lemma application.
   g ranges over every state reachable from a well-formed register file g0 by any finite operation sequence. *)
Theorem run_preserves_wf :
  forall init ops g, wf_regs g -> wf_regs (run init g ops) /\ same_layout g (run init g ops).
Proof. intros init ops g H; exact (run_keeps init ops g H). Qed.
Print Assumptions run_preserves_wf.
