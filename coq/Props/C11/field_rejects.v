From Coq Require Import ZArith NArith List Bool Lia.
Require Import Value Bytes GenMisc MiscModel GenRegs RegsModel RegsProofs.
Import ListNotations.
Local Open Scope Z_scope.

(* C11 property theorem -- statement only; the proof is one lemma application.
   g ranges over every state reachable from a well-formed register file g0 by any finite operation sequence. *)
Theorem field_rejects :
  forall g0 ops t k f s v raw nopre, wf_regs g0 -> let g := run g0 g0 ops in
  t_sreg g t = Some s -> t_field g t k = Some f ->
  (forall x, to_int v = Ok x -> ~ in_range (f_width f) (pre_of f x nopre) ->
     step g0 g (OSetField t k v raw nopre) = (g, VErr 1%N)) /\
  (forall e, to_int v = Err e -> step g0 g (OSetField t k v raw nopre) = (g, VErr e)).
Proof. intros g0 ops t k f s v raw nopre H0 g Hs Hf; destruct (reachable_wf g0 ops H0) as [Hw _]; split; [intros x Hv Hp; exact (step_set_field_rejects g0 g t k f s v x raw nopre Hw Hs Hf Hv Hp) | intros e Hv; exact (step_set_field_unparsable g0 g t k f v e raw nopre Hf Hv)]. Qed.
Print Assumptions field_rejects.
