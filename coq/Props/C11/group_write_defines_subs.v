From Coq Require Import ZArith NArith List Bool Lia.
Require Import Value Bytes GenMisc MiscModel GenRegs RegsModel RegsProofs.
Import ListNotations.
Local Open Scope Z_scope.

(* C11 property theorem -- statement only; the proof is one lemma application.
   g ranges over every state reachable from a well-formed register file g0 by any finite operation sequence. *)
Theorem group_write_defines_subs :
  forall g0 ops i r s0 tl v x raw, wf_regs g0 -> let g := run g0 g0 ops in
  nth_error (g_regs g) i = Some r -> r_subs r = s0 :: tl -> to_int v = Ok x -> in_range (s_width (r_base r)) x ->
  exists g', step g0 g (OSetReg (Top i) v raw) = (g', VList []) /\ wf_regs g' /\ t_get g' (Top i) raw = Ok x /\
    forall j, (j < length (r_subs r))%nat ->
      t_get g' (Sub i j) raw =
        Ok (getbits (view (s_reverse (r_base r)) raw (s_width (r_base r)) x)
                    (sub_pos (s_width (r_base r)) (1 + Z.of_nat j) (s_width s0) (r_rev_sub r)) (s_width s0)).
Proof. intros g0 ops i r s0 tl v x raw H0 g E Es Hv Hx; destruct (reachable_wf g0 ops H0) as [Hw _]; exact (group_write_lemma g0 g i r s0 tl v x raw Hw E Es Hv Hx). Qed.
Print Assumptions group_write_defines_subs.
