From Coq Require Import ZArith NArith List Bool Lia.
Require Import Value Bytes GenMisc MiscModel GenRegs RegsModel RegsProofs.
Import ListNotations.
Local Open Scope Z_scope.

(* C11 property theorem -- statement only; the proof is one lemma application.
   g ranges over every state reachable from a well-formed register file g0 by any finite operation sequence. *)
(* finding C11-F4: big-endian export of a register with alternative widths does not parse back *)
Theorem alt_width_big_endian_export_refuted :
  exists g0 g b g', wf_regs_b true g0 = true /\ same_layout g0 g /\ wf_regs_b true g = true /\
                    export g = Ok b /\ parse g0 b = Ok g' /\ t_get g' (Top 0) true <> t_get g (Top 0) true.
Proof. exact alt_big_endian_export_refuted_lemma. Qed.
Print Assumptions alt_width_big_endian_export_refuted.
