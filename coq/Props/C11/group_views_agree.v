From Coq Require Import ZArith NArith List Bool Lia.
Require Import Value Bytes GenMisc MiscModel GenRegs RegsModel RegsProofs.
Import ListNotations.
Local Open Scope Z_scope.

(* C11 property theorem -- statement only; the proof is one lemma application.
   g ranges over every state reachable from a well-formed register file g0 by any finite operation sequence. *)
Theorem group_views_agree :
  forall g0 ops i r s0 tl raw V, wf_regs g0 -> let g := run g0 g0 ops in
  nth_error (g_regs g) i = Some r -> r_subs r = s0 :: tl -> t_get g (Top i) raw = Ok V ->
  let b := r_base r in
  (* C: the group value with the group's own byte reversal undone *)
  let C := view (s_reverse b) raw (s_width b) V in
  in_range (s_width b) V /\
  forall j s, nth_error (r_subs r) j = Some s ->
    t_get g (Sub i j) raw = Ok (view (s_reverse s) raw (s_width s0) (s_value s)) /\
    getbits C (sub_pos (s_width b) (1 + Z.of_nat j) (s_width s0) (r_rev_sub r)) (s_width s0)
      = view (s_reverse s) raw (s_width s0) (s_value s).
Proof. intros g0 ops i r s0 tl raw V H0 g E Es HV; destruct (reachable_wf g0 ops H0) as [Hw _]; exact (group_views_lemma g i r s0 tl raw V Hw E Es HV). Qed.
Print Assumptions group_views_agree.
