From Coq Require Import ZArith NArith List Bool Lia.
Require Import Value Bytes GenMisc MiscModel GenRegs RegsModel RegsProofs.
Import ListNotations.
Local Open Scope Z_scope.

(* C11 property theorem -- statement only; the proof is one lemma application.
   g ranges over every state reachable from a well-formed register file g0 by any finite operation sequence. *)
Theorem rejected_write_keeps_state :
  forall init g o k, (forall c, o <> OLoadCfg c) -> snd (step init g o) = VErr k -> fst (step init g o) = g.
Proof. exact rejected_keeps_state_lemma. Qed.
Print Assumptions rejected_write_keeps_state.
