From Coq Require Import ZArith NArith List Bool Lia.
Require Import Value Bytes GenMisc MiscModel GenRegs RegsModel RegsProofs.
Import ListNotations.
Local Open Scope Z_scope.

(* C11 property theorem -- statement only; the proof is one lemma application.
   g ranges over every state reachable from a well-formed register file g0 by any finite operation sequence. *)
Theorem register_rejects :
  forall g0 ops t s v x raw, wf_regs g0 -> let g := run g0 g0 ops in
  t_sreg g t = Some s -> to_int v = Ok x -> ~ in_range (s_width s) x ->
  step g0 g (OSetReg t v raw) = (g, VErr 1%N).
Proof. intros g0 ops t s v x raw H0 g Hs Hv Hx; destruct (reachable_wf g0 ops H0) as [Hw _]; exact (step_set_reg_rejects g0 g t s v x raw Hw Hs Hv Hx). Qed.
Print Assumptions register_rejects.
