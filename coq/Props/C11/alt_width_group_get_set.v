From Coq Require Import ZArith NArith List Bool Lia.
Require Import Value Bytes GenMisc MiscModel GenRegs RegsModel RegsProofs.
Import ListNotations.
Local Open Scope Z_scope.

(* C11 property theorem -- statement only; the proof is one lemma application.
   Replaces alt_width_group_stale_refuted after the repair of finding C11-F2: a non-reversed group in normal sub-register
   order whose alternative widths are multiples of the sub-register width (wf_alt_group; e.g. mimxrt798s CUST_MK_SK).
   The class is closed under the write, so the statement holds after any number of whole-group writes. *)
Theorem alt_width_group_get_set :
  forall init g i r v raw, nth_error (g_regs g) i = Some r -> wf_alt_group r -> in_range (s_width (r_base r)) v ->
  (exists g' r', step init g (OSetReg (Top i) (VInt v) raw) = (g', VList []) /\ nth_error (g_regs g') i = Some r' /\
                 wf_alt_group r' /\ t_get g' (Top i) raw = Ok v) /\
  (exists r' aw, alt_width (s_width (r_base r)) (s_alt (r_base r)) v = Ok aw /\ reg_set r v raw = Ok r' /\
     length (r_subs r') = length (r_subs r) /\
     (* no stale contents: every sub-register above the selected width reads 0 *)
     forall j s s0, nth_error (r_subs r') j = Some s -> nth_error (r_subs r) 0 = Some s0 ->
                    aw <= Z.of_nat j * s_width s0 -> sreg_get (g_big g) s raw = Ok 0).
Proof. intros init g i r v raw E Hr Hv; split; [exact (alt_group_step_lemma init g i r v raw E Hr Hv) | destruct (alt_group_get_set_lemma (g_big g) r v raw Hr Hv) as (r' & aw & A & B & _ & _ & C & D); exists r', aw; repeat split; assumption]. Qed.
Print Assumptions alt_width_group_get_set.
