From Coq Require Import ZArith NArith List Bool Lia.
Require Import Value Bytes GenMisc MiscModel GenRegs RegsModel RegsProofs.
Import ListNotations.
Local Open Scope Z_scope.

(* C11 property theorem -- statement only; the proof is one lemma application.
   PARTIAL: the configuration is taken as numbers (bit-field k -> the value bitfield.get_value() returns); the rendering of
   get_config (enum names, hex strings, hidden/diff filtering) and its re-parsing are differentially tested, not proved.
   g: the object the configuration comes from; g1: any object of the same layout it is loaded into;
   tiles: every bit of the register belongs to some bit-field. *)
Theorem config_roundtrip_partial :
  forall g0 ops ops1 t s V, wf_regs g0 -> let g := run g0 g0 ops in let g1 := run g0 g0 ops1 in
  t_sreg g t = Some s -> tiles (s_fields s) (s_width s) -> t_get g t false = Ok V ->
  (forall k f, t_field g t k = Some f -> f_get g t k = Ok (post_of f (getbits V (f_off f) (f_width f)))) /\
  exists g2, load_entry g1 t (CFields (numeric_cfg 0 (s_fields s) V)) = (g2, Ok tt) /\ wf_regs g2 /\ same_layout g g2 /\
             t_get g2 t false = Ok V /\
             (forall k f, t_field g t k = Some f -> f_get g2 t k = f_get g t k).
Proof. intros g0 ops ops1 t s V H0 g g1 Hs Ht HV; destruct (reachable_wf g0 ops H0) as [Hw Hl]; destruct (reachable_wf g0 ops1 H0) as [Hw1 Hl1]; exact (config_roundtrip_lemma g g1 t s V Hw Hw1 (eq_trans (eq_sym Hl) Hl1) Hs Ht HV). Qed.
Print Assumptions config_roundtrip_partial.
