From Coq Require Import ZArith NArith List Bool Lia.
Require Import Value Bytes GenMisc MiscModel GenRegs RegsModel RegsProofs.
Import ListNotations.
Local Open Scope Z_scope.

(* C11 property theorem -- statement only; the proof is one lemma application.
   g ranges over every state reachable from a well-formed register file g0 by any finite operation sequence. *)
(* finding C11-F3: reversed sub-register order with alternative widths *)
Theorem alt_width_revsub_refuted :
  exists g t s v g', wf_regs_b true g = true /\ t_sreg g t = Some s /\ in_range (s_width s) v /\
                     t_set g t v false = Ok g' /\ t_get g' t false <> Ok v.
Proof. exact alt_revsub_refuted_lemma. Qed.
Print Assumptions alt_width_revsub_refuted.
