From Coq Require Import ZArith NArith List Bool Lia.
Require Import Value Bytes GenMisc MiscModel GenRegs RegsModel RegsProofs.
Import ListNotations.
Local Open Scope Z_scope.

(* C11 property theorem -- statement only; the proof is one lemma application.
   g ranges over every state reachable from a well-formed register file g0 by any finite operation sequence. *)
Theorem queries_pure :
  forall init g o, is_query o = true -> fst (step init g o) = g.
Proof. exact queries_pure_lemma. Qed.
Print Assumptions queries_pure.
