From Coq Require Import ZArith NArith List Bool Lia Sorted Permutation.
Require Import Value Bytes GenMisc MiscModel ImageModel ImageProofs.
Import ListNotations.
Local Open Scope Z_scope.

(* C16 known finding C16-F1: a sub-image without a pattern inside a parent with a pattern.  The HEX / S19 write
   list leaves the parent's pattern (0xFF) where export() holds the sub-image's zero fill. *)
Theorem hex_view_is_export_refuted :
  exists (i : img) (k : Z) (b : list N),
    wf i /\ validate i = true /\ 0 <= k < ilen i /\ export i = Ok b /\
    mem_at (writes 0 i) (0 + ioff i + k) None <> getz b k.
Proof. exact hex_view_is_export_refuted_full. Qed.
Print Assumptions hex_view_is_export_refuted.
