From Coq Require Import ZArith NArith List Bool Lia Sorted Permutation.
Require Import Value Bytes GenMisc MiscModel ImageModel ImageProofs.
Import ListNotations.
Local Open Scope Z_scope.

(* C16: every position of the export that is not covered by a sub-image holds the image's own binary
   (positions below its length) or else the fill pattern byte of that position (fill_block; zeros when no
   pattern is given; for zeros / ones / inc the byte is 0 / 255 / k mod 256). *)
Theorem export_fill :
  forall (i : img) (k : Z), wf i -> validate i = true -> 0 <= k < ilen i ->
  (forall c, In c (isubs i) -> ~ (ioff c <= k < ioff c + ilen c)) ->
  (exists b, export i = Ok b /\
             getz b k = (if k <? zlen (ibin i) then getz (ibin i) k else getz (fill_block i) k)) /\
  match ipat i with
  | None | Some PZeros => getz (fill_block i) k = Some 0%N
  | Some POnes => getz (fill_block i) k = Some 255%N
  | Some PInc => getz (fill_block i) k = Some (Z.to_N (k mod 256))
  | Some (PNum _) => True
  end.
Proof. exact export_fill_full. Qed.
Print Assumptions export_fill.
