From Coq Require Import ZArith NArith List Bool Lia Sorted Permutation.
Require Import Value Bytes GenMisc MiscModel ImageModel ImageProofs.
Import ListNotations.
Local Open Scope Z_scope.

(* C16: load_binary_image turns address-sorted segments (what bincopy delivers for BIN / HEX / S19) into an image
   whose offset is the lowest address (+ the caller's offset), which validates, and whose export holds every
   segment's bytes at (segment address - lowest address): the same bytes at the same absolute addresses. *)
Theorem load_places_segments :
  forall offset segs i,
  segs_sorted segs -> 0 <= offset + seg_base segs -> load_segments offset segs = Ok i ->
  ioff i = offset + seg_base segs /\ wf i /\ validate i = true /\
  exists b, export i = Ok b /\
            forall s d, In (s, d) segs ->
                        slice b (Z.to_nat (s - seg_base segs)) (Z.to_nat (s - seg_base segs + zlen d)) = d.
Proof. exact load_places_segments_lemma. Qed.
Print Assumptions load_places_segments.
