From Coq Require Import ZArith NArith List Bool Lia Sorted Permutation.
Require Import Value Bytes GenMisc MiscModel ImageModel ImageProofs.
Import ListNotations.
Local Open Scope Z_scope.

(* C16: append_image places the new sub-image at the parent's current length; for a parent with derived size
   the result is again a valid layout (nothing overlaps, nothing sticks out). *)
Theorem append_image_at_end :
  forall (p c : img), wf p -> wf c -> isz p = 0 -> validate p = true -> validate c = true ->
  validate (append_image p c) = true /\
  In (set_off c (ilen p)) (isubs (append_image p c)) /\ ioff (set_off c (ilen p)) = ilen p.
Proof. exact append_image_valid_lemma. Qed.
Print Assumptions append_image_at_end.
