From Coq Require Import ZArith NArith List Bool Lia Sorted Permutation.
Require Import Value Bytes GenMisc MiscModel ImageModel ImageProofs.
Import ListNotations.
Local Open Scope Z_scope.

(* C16: exporting a valid image tree yields a buffer of exactly the reported length.
   wf = what the BinaryImage constructor guarantees (alignment >= 1, _size >= 0 and aligned, pattern not negative);
   every image built by ImageModel.build is wf (ImageProofs.build_wf). *)
Theorem export_length :
  forall i : img, wf i -> validate i = true ->
  exists b, export i = Ok b /\ zlen b = ilen i.
Proof. exact export_length_lemma. Qed.
Print Assumptions export_length.
