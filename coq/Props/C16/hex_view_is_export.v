From Coq Require Import ZArith NArith List Bool Lia Sorted Permutation.
Require Import Value Bytes GenMisc MiscModel ImageModel ImageProofs.
Import ListNotations.
Local Open Scope Z_scope.

(* C16: the ordered add_binary(..., overwrite=True) calls of save_binary_image HEX / S19 (writes; f = "an ancestor has
   already written data", false at the root) describe the exported bytes at the image's absolute addresses:
   every position the writer covers holds the export() byte, every position it leaves out is a zero in export()
   (so the zero fill of a loaded image's gaps agrees), and nothing outside the image's extent is touched.
   No premise on patterns is needed any more (the former finding C16-F1 is repaired in /repo). *)
Theorem hex_view_is_export :
  forall (i : img) (f : bool) (base : Z), wf i -> validate i = true ->
  (forall k cur, 0 <= k < ilen i ->
     exists b, export i = Ok b /\
               mem_at (writes f base i) (base + ioff i + k) cur = (if covered f i k then getz b k else cur) /\
               (covered f i k = false -> getz b k = Some 0%N)) /\
  (forall x cur, ~ (base + ioff i <= x < base + ioff i + ilen i) -> mem_at (writes f base i) x cur = cur).
Proof. exact hex_view_is_export_full. Qed.
Print Assumptions hex_view_is_export.
