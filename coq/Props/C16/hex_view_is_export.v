From Coq Require Import ZArith NArith List Bool Lia Sorted Permutation.
Require Import Value Bytes GenMisc MiscModel ImageModel ImageProofs.
Import ListNotations.
Local Open Scope Z_scope.

(* C16: the ordered add_binary(..., overwrite=True) calls of save_binary_image HEX / S19 describe exactly the
   exported bytes at the image's absolute addresses, and nothing outside -- when every node has a pattern
   (what nxpimage's config loader produces).  Without that premise the statement is false: hex_view_is_export_refuted. *)
Theorem hex_view_is_export :
  forall (i : img) (base : Z), wf i -> validate i = true -> all_pat i ->
  (forall k cur, 0 <= k < ilen i ->
     exists b, export i = Ok b /\ mem_at (writes base i) (base + ioff i + k) cur = getz b k) /\
  (forall x cur, ~ (base + ioff i <= x < base + ioff i + ilen i) -> mem_at (writes base i) x cur = cur).
Proof. exact hex_view_is_export_full. Qed.
Print Assumptions hex_view_is_export.
