From Coq Require Import ZArith NArith List Bool Lia Sorted Permutation.
Require Import Value Bytes GenMisc MiscModel ImageModel ImageProofs.
Import ListNotations.
Local Open Scope Z_scope.

(* C16: in the export of a valid tree the bytes of every sub-image appear at its offset. *)
Theorem export_places_children :
  forall (i c : img), wf i -> validate i = true -> In c (isubs i) ->
  exists b d, export i = Ok b /\ export c = Ok d /\ zlen d = ilen c /\
              slice b (Z.to_nat (ioff c)) (Z.to_nat (ioff c + ilen c)) = d.
Proof. exact export_places_children_lemma. Qed.
Print Assumptions export_places_children.
