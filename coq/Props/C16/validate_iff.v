From Coq Require Import ZArith NArith List Bool Lia Sorted Permutation.
Require Import Value Bytes GenMisc MiscModel ImageModel ImageProofs.
Import ListNotations.
Local Open Scope Z_scope.

(* C16: validate() succeeds exactly for valid layouts (layout_ok: offset not negative, own binary fits, every
   sub-image valid and inside its parent, two distinct sub-images never overlap); otherwise it raises an SPSDK error
   (the model's validate is a boolean because every raise in validate() is an SPSDKError subclass). *)
Theorem validate_iff : forall i : img, validate i = true <-> layout_ok i.
Proof. exact validate_iff_lemma. Qed.
Print Assumptions validate_iff.
