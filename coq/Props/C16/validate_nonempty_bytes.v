From Coq Require Import ZArith NArith List Bool Lia Sorted Permutation.
Require Import Value Bytes GenMisc MiscModel ImageModel ImageProofs.
Import ListNotations.
Local Open Scope Z_scope.

(* C16: for non-empty extents the two interval tests of validate() mean "no byte in common" and
   "every byte inside the parent". *)
Theorem validate_nonempty_bytes :
  forall b1 l1 b2 l2 L, 0 < l1 -> 0 < l2 ->
  (no_overlap (b1, l1) (b2, l2) = true <-> ~ exists x, (b1 <= x < b1 + l1) /\ (b2 <= x < b2 + l2)) /\
  (fits_in L (b1, l1) = true <-> forall x, b1 <= x < b1 + l1 -> x < L).
Proof. exact validate_nonempty_bytes_full. Qed.
Print Assumptions validate_nonempty_bytes.
