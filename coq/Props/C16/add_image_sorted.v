From Coq Require Import ZArith NArith List Bool Lia Sorted Permutation.
Require Import Value Bytes GenMisc MiscModel ImageModel ImageProofs.
Import ListNotations.
Local Open Scope Z_scope.

(* C16: add_image keeps sub_images sorted by offset, adds exactly the new image, and is stable
   (the new image goes behind every sub-image with a smaller or equal offset). *)
Theorem add_image_sorted :
  forall (p c : img), Sorted off_le (isubs p) ->
  Sorted off_le (isubs (add_image p c)) /\ Permutation (c :: isubs p) (isubs (add_image p c)) /\
  exists l1 l2, isubs p = l1 ++ l2 /\ isubs (add_image p c) = l1 ++ c :: l2 /\
                Forall (fun x => ioff x <= ioff c) l1 /\
                match l2 with x :: _ => ioff c < ioff x | [] => True end.
Proof. exact add_image_sorted_full. Qed.
Print Assumptions add_image_sorted.
