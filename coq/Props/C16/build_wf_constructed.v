From Coq Require Import ZArith NArith List Bool Lia Sorted Permutation.
Require Import Value Bytes GenMisc MiscModel ImageModel ImageProofs.
Import ListNotations.
Local Open Scope Z_scope.

(* C16: every image built through the constructor + add_image / append_image (ImageModel.build) satisfies wf,
   the premise of the export theorems: alignment >= 1, _size >= 0 and a multiple of the alignment. *)
Theorem build_wf_constructed : forall (s : spec) (i : img), spec_ok s -> build s = Ok i -> wf i.
Proof. exact build_wf. Qed.
Print Assumptions build_wf_constructed.
