From Coq Require Import ZArith NArith List Bool Lia Sorted Permutation.
Require Import Value Bytes GenMisc MiscModel ImageModel ImageProofs.
Import ListNotations.
Local Open Scope Z_scope.

(* C16: an image whose root has a pattern (what `nxpimage utils binary-image merge` builds) is written completely:
   together with hex_view_is_export the HEX / S19 content is exactly export() on the whole extent. *)
Theorem hex_view_total_with_root_pattern :
  forall (f : bool) (i : img) (k : Z), ipat i <> None -> covered f i k = true.
Proof. exact covered_root_pattern. Qed.
Print Assumptions hex_view_total_with_root_pattern.
