From Coq Require Import ZArith NArith List Bool Lia Sorted Permutation.
Require Import Value Bytes GenMisc MiscModel ImageModel ImageProofs.
Import ListNotations.
Local Open Scope Z_scope.

(* C16: every descendant (any depth; o = sum of the offsets along the path, i.e. its absolute offset in the
   exported buffer) appears with its own exported bytes at that absolute offset. *)
Theorem export_places_descendants :
  forall (i d : img) (o : Z), wf i -> validate i = true -> desc_at i d o ->
  exists b x, export i = Ok b /\ export d = Ok x /\ zlen x = ilen d /\ 0 <= o /\ o + ilen d <= zlen b /\
              slice b (Z.to_nat o) (Z.to_nat (o + ilen d)) = x.
Proof. exact export_places_descendants_lemma. Qed.
Print Assumptions export_places_descendants.
