From Coq Require Import ZArith NArith List Bool Lia Sorted Permutation.
Require Import Value Bytes GenMisc MiscModel ImageModel ImageProofs.
Import ListNotations.
Local Open Scope Z_scope.

(* C16: alignment padding only ever extends the end.  The same valid image built with alignment a instead of 1
   (the constructor aligns the explicit size: _size = align(size, a)) is still valid and exports the unaligned
   export followed by padding, and every padding byte is the fill-pattern byte of its position. *)
Theorem align_only_extends :
  forall size a off bin pat subs,
  1 <= a -> 0 <= size -> pat_ok pat -> (forall c, In c subs -> wf c) ->
  validate (Img size 1 off bin pat subs) = true ->
  exists b1 pad,
    export (Img size 1 off bin pat subs) = Ok b1 /\
    export (Img (zalign size a) a off bin pat subs) = Ok (b1 ++ pad) /\
    validate (Img (zalign size a) a off bin pat subs) = true /\
    forall j, 0 <= j < zlen pad ->
              getz pad j = getz (fill_block (Img (zalign size a) a off bin pat subs)) (zlen b1 + j).
Proof. exact align_only_extends_lemma. Qed.
Print Assumptions align_only_extends.
