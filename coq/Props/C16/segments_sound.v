From Coq Require Import ZArith NArith List Bool Lia Sorted Permutation.
Require Import Value Bytes GenMisc MiscModel ImageModel ImageProofs.
Import ListNotations.
Local Open Scope Z_scope.

(* C16: the memory -> segment step (maximal runs of written addresses, as bincopy keeps them): segments come out
   sorted and separated, every segment byte is the last value written to its address, and every written address
   lies in a segment. *)
Theorem segments_sound :
  forall ws : list (Z * list N),
  segs_sorted (segments ws) /\
  (forall s d, In (s, d) (segments ws) ->
     d <> [] /\ forall j, 0 <= j < zlen d -> mem_at ws (s + j) None = getz d j /\ getz d j <> None) /\
  (forall x b, mem_at ws x None = Some b -> exists s d, In (s, d) (segments ws) /\ s <= x < s + zlen d).
Proof. exact segments_sound_full. Qed.
Print Assumptions segments_sound.
