(* Model/DatV2Model.v -- C15 extension: EdgeLock container version 2 debug credentials.  Definitions only.

   DebugCredentialEdgeLockEnclaveV2 (spsdk/dat/debug_credential.py) is an AHAB certificate
   (spsdk/image/ahab/ahab_certificate.py) holding: header, signature offset, permissions, 96-bit permission data
   (SoC class | SoC usage | beacon), fuse version, uuid, ONE public key = SRK record v2 (hash of the SRK data) + SRK data
   (the key numbers) (spsdk/image/ahab/ahab_srk.py), and a signature container (spsdk/image/ahab/ahab_signature.py) with the
   signature of the SRK key over everything in front of it.  Written the way the code computes it; the second key set
   (public_key_1 / signature_1, PQC hybrid) is not modelled (E_NOTMODELLED).
   Constants and struct formats come from Gen/GenDatV2.v (regenerated on every run); the layouts used here are compared with
   them by the `*_from_source` Examples. *)
From Coq Require Import ZArith NArith List Bool.
Require Import Value Bytes Sha2 GenRot RotModel GenDat DatModel GenDatV2.
Import ListNotations.
Local Open Scope N_scope.

(* ------------------------------------------------------------------ parts *)
Record srk2 := { k_len : N; k_alg : N; k_hash : N; k_ksid : N; k_flags : N; k_params : list N }.
Record srkdata := { sd_len : N; sd_id : N; sd_data : list N }.
Record cert := { c_len : N; c_sigoff : N; c_perm : N; c_permdata : list N; c_fuse : N; c_uuid : list N;
                 c_pk : srk2; c_pkd : srkdata; c_siglen : N; c_sig : list N }.

Definition u8 (v : N) : res (list N) := if v <? 256 then Ok [v] else Err 2.          (* struct.error *)
(* extend_block(data, n, 0): SPSDKError when longer *)
Definition extend_block (n : nat) (d : list N) : res (list N) :=
  if (n <? length d)%nat then Err 1 else Ok (d ++ zeros (n - length d)).

(* SRKRecordV2.export: "<BHBBBBB4s" + crypto_params *)
Definition srk2_export (r : srk2) : res (list N) :=
  match lookup2 g_v2_key_sizes (k_ksid r) with
  | None => Err 1
  | Some (l1, l2) =>
      bind (u16 (k_len r)) (fun lb => bind (u8 (k_alg r)) (fun ab => bind (u8 (k_hash r)) (fun hb =>
      bind (u8 (k_ksid r)) (fun kb => bind (u8 (k_flags r)) (fun fb =>
        Ok ([g_v2_rec_tag] ++ lb ++ ab ++ hb ++ kb ++ [0] ++ fb ++ le_enc 2 l1 ++ le_enc 2 l2 ++ k_params r))))))
  end.
(* SRKData.export: "<BHBHBB" + data *)
Definition srkdata_export (d : srkdata) : res (list N) :=
  bind (u16 (sd_len d)) (fun lb => bind (u16 (sd_id d)) (fun ib =>
    Ok ([g_v2_data_version] ++ lb ++ [g_v2_data_tag] ++ ib ++ [0; 0] ++ sd_data d))).
(* ContainerSignature.export: nothing when there is no signature data *)
Definition sigc_export (len : N) (sig : list N) : res (list N) :=
  match sig with
  | [] => Ok []
  | _ => bind (u16 len) (fun lb => Ok ([g_v2_sig_version] ++ lb ++ [g_v2_sig_tag] ++ [0; 0; 0; 0] ++ sig))
  end.
(* the fixed part of AhabCertificate.get_signature_data: "<BHBHBB12sBBH16s" *)
Definition cert_header (c : cert) : res (list N) :=
  bind (u16 (c_len c)) (fun lb => bind (u16 (c_sigoff c)) (fun sb => bind (u8 (c_perm c)) (fun pb =>
  bind (extend_block 12 (c_permdata c)) (fun pd => bind (u8 (c_fuse c)) (fun fb => bind (extend_block 16 (c_uuid c)) (fun ub =>
    Ok ([g_v2_cert_version] ++ lb ++ [g_v2_cert_tag] ++ sb ++ [N.land (N.lxor (c_perm c) 255) 255] ++ pb ++ pd ++ fb ++ [0] ++ [0; 0] ++ ub))))))).
(* get_signature_data: what the SRK key signs *)
Definition cert_tbs (c : cert) : res (list N) :=
  bind (cert_header c) (fun h => bind (srk2_export (c_pk c)) (fun p => bind (srkdata_export (c_pkd c)) (fun d => Ok (h ++ p ++ d)))).
(* export *)
Definition cert_export (c : cert) : res (list N) :=
  bind (cert_tbs c) (fun t => bind (sigc_export (c_siglen c) (c_sig c)) (fun s =>
    if nlen (t ++ s) =? c_len c then Ok (t ++ s) else Err 1)).

(* ------------------------------------------------------------------ parse *)
(* check_container_head of a container whose first byte is the version and fourth the tag *)
Definition head_ok (fixed tag ver : N) (d : list N) : bool :=
  (fixed <=? nlen d) && (nth 3 d 0 =? tag) && (nth 0 d 0 =? ver) && (le_dec (firstn 2 (skipn 1 d)) <=? nlen d).
(* SRKRecordV2.parse *)
Definition srk2_parse (x : list N) : res srk2 :=
  if nlen x <? g_v2_rec_size then Err 1 else
  let tag := nth 0 x 0 in let len := le_dec (firstn 2 (skipn 1 x)) in let alg := nth 3 x 0 in
  if negb (tag =? g_v2_rec_tag) || negb (mem_n alg g_v2_rec_versions) || (nlen x <? len) then Err 1 else
  if len <? g_v2_params_len + g_v2_rec_size then Err 1 else
  if negb (mem_n alg g_v2_algs) || negb (mem_n (nth 4 x 0) g_v2_hashes) then Err 1 else
  Ok {| k_len := len; k_alg := alg; k_hash := nth 4 x 0; k_ksid := nth 5 x 0; k_flags := nth 7 x 0;
        k_params := firstn (N.to_nat g_v2_params_len) (skipn (N.to_nat g_v2_rec_size) x) |}.
(* SRKData.parse (the header of the INNER data is decoded once more, as coded: it needs four bytes) *)
Definition srkdata_parse (x : list N) : res srkdata :=
  if negb (head_ok g_v2_data_size g_v2_data_tag g_v2_data_version x) then Err 1 else
  let len := le_dec (firstn 2 (skipn 1 x)) in
  let inner := if len <? g_v2_data_size then [] else firstn (N.to_nat (len - g_v2_data_size)) (skipn (N.to_nat g_v2_data_size) x) in
  if nlen inner <? 4 then Err 1 else
  Ok {| sd_len := len; sd_id := le_dec (firstn 2 (skipn 4 x)); sd_data := inner |}.
(* AhabCertificate.parse *)
Definition cert_parse (d : list N) : res cert :=
  if negb (head_ok g_v2_cert_size g_v2_cert_tag g_v2_cert_version d) then Err 1 else
  let len := le_dec (firstn 2 (skipn 1 d)) in
  let sigoff := le_dec (firstn 2 (skipn 4 d)) in
  let iperm := nth 6 d 0 in let perm := nth 7 d 0 in
  if negb (iperm =? N.land (N.lxor perm 255) 255) then Err 1 else
  bind (srk2_parse (skipn 40 d)) (fun pk =>
    let o1 := (40 + 12 + length (k_params pk))%nat in
    bind (srkdata_parse (skipn o1 d)) (fun pkd =>
      let o2 := (o1 + 8 + length (sd_data pkd))%nat in
      if (N.of_nat o2 <? sigoff) then Err E_NOTMODELLED else            (* a second key set follows *)
      let sc := skipn (N.to_nat sigoff) d in
      if negb (head_ok g_v2_sig_size g_v2_sig_tag g_v2_sig_version sc) then Err 1 else
      let sl := le_dec (firstn 2 (skipn 1 sc)) in
      Ok {| c_len := len; c_sigoff := sigoff; c_perm := perm; c_permdata := firstn 12 (skipn 8 d); c_fuse := nth 20 d 0;
            c_uuid := firstn 16 (skipn 24 d); c_pk := pk; c_pkd := pkd; c_siglen := sl;
            c_sig := if sl <? 8 then [] else firstn (N.to_nat (sl - 8)) (skipn 8 sc) |})).

(* SRKRecordV2.get_public_key (from the SRK data) *)
Definition cert_key (c : cert) : res key :=
  match lookup2 g_v2_key_sizes (k_ksid (c_pk c)) with
  | None => Err 2                                           (* KeyError *)
  | Some (l1, _) =>
      let data := sd_data (c_pkd c) in
      let p1 := be_dec (firstn (N.to_nat l1) data) in let p2 := be_dec (skipn (N.to_nat l1) data) in
      let alg := k_alg (c_pk c) in
      if (alg =? 33) || (alg =? 34) then (if rsa_numbers_ok p1 p2 then Ok (KRsa p1 p2) else Err 2)
      else if alg =? 39 then
        match find (fun p => snd p =? k_ksid (c_pk c)) g_v2_ecc_type with
        | Some (cv, _) => if on_curve cv p1 p2 then Ok (KEcc cv p1 p2) else Err 1
        | None => Err 1
        end
      else Err 1
  end.

(* the credential object: DebugCredentialEdgeLockEnclaveV2(certificate) -- SoC class / usage / beacon are read from the
   permission data and written back through the property setter (12 bytes, zero filled) *)
Definition permdata_norm (pd : list N) : list N := firstn 12 (pd ++ zeros 12).
Definition dcv2_of_cert (c : cert) : res cert :=
  bind (cert_key c) (fun _ =>
    Ok {| c_len := c_len c; c_sigoff := c_sigoff c; c_perm := c_perm c; c_permdata := permdata_norm (c_permdata c); c_fuse := c_fuse c;
          c_uuid := c_uuid c; c_pk := c_pk c; c_pkd := c_pkd c; c_siglen := c_siglen c; c_sig := c_sig c |}).
Definition dcv2_socc (c : cert) : N := le_dec (firstn 4 (c_permdata c)).
Definition dcv2_socu (c : cert) : N := le_dec (firstn 4 (skipn 4 (c_permdata c))).
Definition dcv2_beacon (c : cert) : N := le_dec (firstn 4 (skipn 8 (c_permdata c))).
(* DebugCredentialEdgeLockEnclaveV2.parse *)
Definition dcv2_parse (d : list N) : res cert := bind (cert_parse d) dcv2_of_cert.

(* create_from_yaml_config + sign(): uuid bytes as value_to_bytes delivers them, signature as the provider returned it *)
Definition dcv2_create (socc socu : N) (uuid : list N) (fuse : N) (dck : key) (sig : list N) : res cert :=
  bind (u32 socc) (fun b1 => bind (u32 socu) (fun b2 =>
  bind (srk_of_key ahab2 dck) (fun si =>
    let data := si_data si in
    let pkd := {| sd_len := 8 + nlen data; sd_id := 0; sd_data := data |} in
    let pk := {| k_len := g_v2_rec_size + g_v2_params_len; k_alg := si_alg si; k_hash := hash_tag ahab2 (si_hash si);
                 k_ksid := si_ksid si; k_flags := 0; k_params := srk_params ahab2 si 0 |} in
    let sigoff := g_v2_cert_size + (g_v2_rec_size + g_v2_params_len) + (8 + nlen data) in
    dcv2_of_cert {| c_len := sigoff + 8 + nlen sig; c_sigoff := sigoff; c_perm := g_v2_perm_debug;
                    c_permdata := b1 ++ b2 ++ le_enc 4 0; c_fuse := fuse; c_uuid := uuid; c_pk := pk; c_pkd := pkd;
                    c_siglen := 8 + nlen sig; c_sig := sig |}))).

Definition srk2_eqb (a b : srk2) : bool :=
  (k_len a =? k_len b) && (k_alg a =? k_alg b) && (k_hash a =? k_hash b) && (k_ksid a =? k_ksid b) && (k_flags a =? k_flags b)
  && eqb_list (k_params a) (k_params b).
Definition cert_eqb (a b : cert) : bool :=
  (c_len a =? c_len b) && (c_sigoff a =? c_sigoff b) && (c_perm a =? c_perm b) && eqb_list (c_permdata a) (c_permdata b)
  && eqb_list (c_uuid a) (c_uuid b) && srk2_eqb (c_pk a) (c_pk b)
  && (c_siglen a =? c_siglen b) && eqb_list (c_sig a) (c_sig b).

(* DebugCredentialCertificate.parse: the container-v2 parser first; an SPSDK error hands over to the classic path
   (DatModel.dc_parse without its "not modelled" guard), any other exception escapes *)
Definition dc_parse_classic (d : list N) : res (klass * dc) :=
  bind (unpack_from [FU16; FU16] d 0) (fun v =>
  bind (unpack_from [FU32] d 4) (fun s =>
    let maj := xi (nth 0 v (XI 0)) in let mi := xi (nth 1 v (XI 0)) in let socc := xi (nth 0 s (XI 0)) in
    match find (fun r => fst r =? socc) g_socc_table with
    | None => Err 1
    | Some (_, (ele, cnt, _, _)) =>
        if negb (version_ok maj mi) then Err 1 else
        bind (class_of ele cnt maj mi) (fun oc =>
          match oc with
          | None => bind (dc_parse_class CEle d) (fun x => Ok (CEle, x))
          | Some c => bind (dc_parse_class c d) (fun x => Ok (c, x))
          end)
    end)).
Definition dc_parse_any (d : list N) : res (cert + klass * dc) :=
  match dcv2_parse d with
  | Ok c => Ok (inl c)
  | Err 1 => res_map inr (dc_parse_classic d)
  | Err k => Err k
  end.

(* ------------------------------------------------------------------ (T1) layouts = what the source computes *)
Example v2_layouts_from_source :
  g_v2_cert_fmt = [(4, 0); (0, 0); (4, 0); (0, 0); (4, 0); (4, 0); (2, 12); (4, 0); (4, 0); (0, 0); (2, 16)] /\ g_v2_cert_size = 40
  /\ g_v2_rec_fmt = [(4, 0); (0, 0); (4, 0); (4, 0); (4, 0); (4, 0); (4, 0); (2, 4)] /\ g_v2_rec_size = 12
  /\ g_v2_data_fmt = [(4, 0); (0, 0); (4, 0); (0, 0); (4, 0); (4, 0)] /\ g_v2_data_size = 8
  /\ g_v2_sig_fmt = [(4, 0); (0, 0); (4, 0); (1, 0)] /\ g_v2_sig_size = 8
  /\ g_v2_perm_data_size = 12 /\ g_v2_uuid_size = 16 /\ g_v2_params_len = 64
  /\ g_v2_key_sizes = g_ahab2_key_sizes /\ g_v2_ecc_type = g_ahab2_ecc_type /\ g_v2_rsa_type = g_ahab2_rsa_type
  /\ g_v2_rec_tag = g_ahab2_rec_tag /\ g_v2_data_tag = g_ahab_data_tag /\ g_v2_data_version = g_ahab_data_version.
Proof. repeat split; reflexivity. Qed.

(* ------------------------------------------------------------------ run_case *)
Definition val_of_cert (c : cert) : value :=
  VList [vN (c_len c); vN (c_sigoff c); vN (c_perm c); VBytes (c_permdata c); vN (c_fuse c); VBytes (c_uuid c);
         vN (dcv2_socc c); vN (dcv2_socu c); vN (dcv2_beacon c);
         VList [vN (k_len (c_pk c)); vN (k_alg (c_pk c)); vN (k_hash (c_pk c)); vN (k_ksid (c_pk c)); vN (k_flags (c_pk c));
                VBytes (k_params (c_pk c))];
         VList [vN (sd_len (c_pkd c)); vN (sd_id (c_pkd c)); VBytes (sd_data (c_pkd c))];
         vN (c_siglen c); VBytes (c_sig c); vres val_of_key (cert_key c)].

Definition run_case_v2 (fn : Z) (args : list value) : value :=
  match fn, args with
  (* 1: create + sign + export + parse: socc, socu, uuid bytes, fuse, dck, signature
        -> [object; export; signed message is a prefix of it (1); parsed object; parsed = created; re-export (1 = same)] *)
  | 1%Z, [VInt socc; VInt socu; VBytes uuid; VInt fuse; dckv; VBytes sig] =>
      match key_of_val dckv with
      | None => VErr E_BADCASE
      | Some dck =>
          match dcv2_create (Z.to_N socc) (Z.to_N socu) uuid (Z.to_N fuse) dck sig with
          | Err k => VErr k
          | Ok c =>
              let ex := cert_export c in
              VList [val_of_cert c; vbr ex;
                     match ex, cert_tbs c with
                     | Ok b, Ok t => vbool (is_prefix t b && (nlen t =? c_sigoff c))
                     | _, Ok _ => VInt 1
                     | _, Err k => VErr k
                     end;
                     match ex with
                     | Err k => VErr k
                     | Ok b => match dc_parse_any b with
                               | Ok (inl p) => VList [val_of_cert p; vbool (cert_eqb p c); cmp_res ex (cert_export p)]
                               | Ok (inr _) => VErr 98
                               | Err k => VErr k
                               end
                     end]
          end
      end
  (* 2: DebugCredentialCertificate.parse of arbitrary bytes, container-v2 first -> [0; object; re-export] | [1] (classic) *)
  | 2%Z, [VBytes b] =>
      match dc_parse_any b with
      | Err k => VErr k
      | Ok (inl p) => VList [VInt 0; val_of_cert p; match cert_export p with Err k => VErr k | Ok r => if is_prefix r b then VInt 1 else VBytes r end]
      | Ok (inr (c, _)) => VList [VInt 1; VInt (klass_id c)]
      end
  | _, _ => VErr E_BADCASE
  end.

Example u8_runs : cert_header {| c_len := 260; c_sigoff := 188; c_perm := 2; c_permdata := [1]; c_fuse := 0; c_uuid := [];
                                 c_pk := {| k_len := 0; k_alg := 0; k_hash := 0; k_ksid := 0; k_flags := 0; k_params := [] |};
                                 c_pkd := {| sd_len := 0; sd_id := 0; sd_data := [] |}; c_siglen := 0; c_sig := [] |}
  = Ok ([2; 4; 1; 175; 188; 0; 253; 2; 1] ++ zeros 11 ++ [0; 0; 0; 0] ++ zeros 16).
Proof. vm_compute. reflexivity. Qed.
