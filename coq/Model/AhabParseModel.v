(* Model/AhabParseModel.v -- C06 extension: AHABContainer.parse for container version 1 (header, image array, signature block
   with SRK table / signature / blob), assembled from the record parsers of the frozen Model/AhabModel.v. Definitions only.
   Not modelled: certificates (offset must be 0), which exception classes SignatureBlock.parse swallows (any failing sub-parser
   rejects here), the image bytes (they lie outside the container; see entry_points_at_image). *)
From Coq Require Import ZArith NArith List Bool.
Require Import Value Bytes Sha2 Aes Modes GenMisc GenAhab AhabModel.
Import ListNotations.
Local Open Scope Z_scope.

(* SignatureBlock.parse *)
Definition sigblock_parse (l : list N) : res sigblock :=
  if negb (head_ok gen_tag_sigblock [gen_version_sigblock false] l 16) then Err E_REJECT
  else
    let cert := rd l 4 2 in let srk := rd l 6 2 in let sig := rd l 8 2 in let blob_ := rd l 10 2 in let kid := rd l 12 4 in
    if negb (cert =? 0) then Err E_BADCASE
    else
      bind (if srk =? 0 then Ok (0, []) else srk_table_parse (skipn (Z.to_nat srk) l)) (fun t =>
      bind (if sig =? 0 then Ok None else res_map Some (signature_parse (skipn (Z.to_nat sig) l))) (fun sg =>
      bind (if blob_ =? 0 then Ok None else res_map Some (blob_parse (skipn (Z.to_nat blob_) l) kid)) (fun bl =>
      Ok {| sb_length := rd l 1 2; sb_srk_off := srk; sb_sig_off := sig; sb_cert_off := cert; sb_blob_off := blob_;
            sb_srk := snd t; sb_srk_length := fst t;
            sb_sig := option_map snd sg; sb_sig_length := match sg with Some x => fst x | None => 0 end; sb_blob := bl |}))).

(* ImageArrayEntry.parse builds the object through the constructor: the IV field of a non-encrypted entry is not kept *)
Definition iae_parse_obj (l : list N) : iae :=
  let e := iae_parse l in
  if flags_enc false (i_flags e) then e
  else {| i_raw_off := i_raw_off e; i_size := i_size e; i_load := i_load e; i_entry := i_entry e; i_flags := i_flags e;
          i_meta := i_meta e; i_hash := i_hash e; i_iv := repeat 0%N 32; i_image := []; i_plain := []; i_gap := 0;
          i_size_align := 0; i_ele := false |}.
Fixpoint iaes_parse (n : nat) (l : list N) : list iae :=
  match n with O => [] | S n' => iae_parse_obj l :: iaes_parse n' (skipn 128 l) end.

(* AHABContainer.parse (container number ix of size csize): the image entries are read for their fields only *)
Definition container_parse (coff : Z) (l : list N) : res container :=
  bind (header_parse false l) (fun h =>
  let '(length, flags, sw, fuse, nimg, sbo_) := h in
  bind (sigblock_parse (skipn (Z.to_nat sbo_) l)) (fun sb =>
  Ok {| c_version := gen_version_container false; c_flags := flags; c_fuse := fuse; c_sw := sw; c_length := length; c_coff := coff;
        c_images := iaes_parse (Z.to_nat nimg) (skipn 16 l); c_sb := sb |})).

(* what travels in the binary *)
Definition blob_wire (b : blob) : blob :=
  {| b_size := b_size b; b_flags := b_flags b; b_alg := b_alg b; b_mode := b_mode b; b_keyblob := b_keyblob b; b_dek := [];
     b_keyid := b_keyid b; b_length := b_length b |}.
Definition sigblock_wire (sb : sigblock) : sigblock :=
  {| sb_length := sb_length sb; sb_srk_off := sb_srk_off sb; sb_sig_off := sb_sig_off sb; sb_cert_off := sb_cert_off sb;
     sb_blob_off := sb_blob_off sb; sb_srk := sb_srk sb; sb_srk_length := sb_srk_length sb; sb_sig := sb_sig sb;
     sb_sig_length := sb_sig_length sb; sb_blob := option_map blob_wire (sb_blob sb) |}.
Definition iae_wire' (e : iae) : iae :=
  {| i_raw_off := i_raw_off e; i_size := i_size e; i_load := i_load e; i_entry := i_entry e; i_flags := i_flags e;
     i_meta := i_meta e; i_hash := i_hash e; i_iv := i_iv e; i_image := []; i_plain := []; i_gap := 0; i_size_align := 0;
     i_ele := false |}.
Definition container_wire (c : container) : container :=
  {| c_version := c_version c; c_flags := c_flags c; c_fuse := c_fuse c; c_sw := c_sw c; c_length := c_length c; c_coff := c_coff c;
     c_images := map iae_wire' (c_images c); c_sb := sigblock_wire (c_sb c) |}.

Definition v_sigblock (sb : sigblock) : value :=
  VList [VInt (sb_length sb); VInt (sb_srk_off sb); VInt (sb_sig_off sb); VInt (sb_blob_off sb); VInt (sb_srk_length sb);
         VList (map (fun r => VList [VInt (sr_alg r); VInt (sr_hash r); VInt (sr_ksize r); VInt (sr_flags r); VInt (sr_length r);
                                     VBytes (sr_params r)]) (sb_srk sb));
         VBytes (match sb_sig sb with Some s => s | None => [] end); VInt (sb_sig_length sb);
         match sb_blob sb with
         | Some b => VList [VInt (b_size b); VInt (b_flags b); VInt (b_alg b); VInt (b_mode b); VBytes (b_keyblob b); VInt (b_keyid b); VInt (b_length b)]
         | None => VList []
         end].
Definition run_case_parse (fn : Z) (args : list value) : value :=
  match fn, args with
  | 1, [VInt coff; VBytes l] =>
      vres (fun c => VList [VInt (c_flags c); VInt (c_fuse c); VInt (c_sw c); VInt (c_length c);
                            VList (map (fun e => VList [VInt (i_raw_off e); VInt (i_size e); VInt (i_load e); VInt (i_entry e);
                                                        VInt (i_flags e); VInt (i_meta e); VBytes (i_hash e); VBytes (i_iv e)]) (c_images c));
                            v_sigblock (c_sb c)]) (container_parse coff l)
  | _, _ => VErr E_BADCASE
  end.
