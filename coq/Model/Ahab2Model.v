(* Model/Ahab2Model.v -- C06 extension: AHAB container version 2 (mimx943 / mimx9596 b0) as coded in
   spsdk/image/ahab/ahab_sign_block.py (SignatureBlockV2) and ahab_srk.py (SRKRecordV2, SRKData, SRKTableV2, SRKTableArray),
   on top of the frozen Model/AhabModel.v (container header, image array entries with the version-2 flag layout, offset
   assignment, BinaryImage placement, verifier conditions are reused unchanged).  Executable definitions only.

   What is new in version 2:
     * an SRK record carries the 512-bit (zero padded) hash of an SRK DATA container instead of the key itself;
     * the SRK data container (header, record number, key bytes) of the SELECTED record is exported after the table;
     * table (version 0x43) and SRK data sit inside an SRK TABLE ARRAY container (tag 0x5A, #tables);
     * the signature block has no 8-byte alignment between its parts;
     * the SRK hash (fuses) is SHA-512 of the exported table.
   One SRK table (no second, post-quantum table / signature: that needs the optional dilithium back end). *)
From Coq Require Import ZArith NArith List Bool.
Require Import Value Bytes Sha2 Aes Modes GenMisc GenAhab AhabModel.
Import ListNotations.
Local Open Scope Z_scope.

(* ------------------------------------------------------------------ SRK data container *)
(* SRKData.create_from_key: modulus ++ exponent / x ++ y, big endian, KEY_SIZES wide *)
Definition key_data (k : pubkey) : res (list N) :=
  match k with
  | KRsa bits n e =>
      match lookup bits gen_rsa_key_type with
      | None => Err E_CRASH
      | Some ks => let '(l1, l2) := key_sizes ks in
          if (n <? 2 ^ (8 * l1)) && (e <? 2 ^ (8 * l2)) then Ok (be (Z.to_nat l1) n ++ be (Z.to_nat l2) e) else Err E_CRASH
      end
  | KEcc bits x y =>
      match lookup bits gen_ecc_key_type with
      | None => Err E_CRASH
      | Some ks => let '(l1, l2) := key_sizes ks in
          if (x <? 2 ^ (8 * l1)) && (y <? 2 ^ (8 * l2)) then Ok (be (Z.to_nat l1) x ++ be (Z.to_nat l2) y) else Err E_CRASH
      end
  end.
(* SRKData.export after update_fields: version, length, tag, record number (16 bit), two reserved bytes, key data *)
Definition srk_data_bytes (id : Z) (data : list N) : list N :=
  le 1 gen_version_SRKData ++ le 2 (8 + zlen' data) ++ le 1 gen_tag_srk_data ++ le 2 id ++ le 1 0 ++ le 1 0 ++ data.
Definition srk_data_len (data : list N) : Z := 8 + zlen' data.

(* SRKRecordV2.create_from_key + update_fields: the record of key number ix *)
Definition key_hash_tag (k : pubkey) : Z :=
  match k with
  | KRsa _ _ _ => gen_hash_sha256
  | KEcc bits _ _ => if bits =? 256 then gen_hash_sha256 else if bits =? 384 then gen_hash_sha384 else gen_hash_sha512
  end.
Definition key_alg (k : pubkey) : Z := match k with KRsa _ _ _ => gen_sign_rsa_pss | KEcc _ _ _ => gen_sign_ecdsa end.
Definition key_size_code (k : pubkey) : option Z :=
  match k with KRsa bits _ _ => lookup bits gen_rsa_key_type | KEcc bits _ _ => lookup bits gen_ecc_key_type end.
Definition srk2_of_key (flags ix : Z) (k : pubkey) : res (srk_rec * list N) :=
  match key_size_code k with
  | None => Err E_CRASH
  | Some ks =>
      bind (key_data k) (fun d =>
      bind (hash_of (key_hash_tag k) (srk_data_bytes ix d)) (fun h =>
      let hp := h ++ repeat 0%N (64 - length h) in
      Ok ({| sr_alg := key_alg k; sr_hash := key_hash_tag k; sr_ksize := ks; sr_flags := flags; sr_params := hp;
             sr_length := 12 + zlen' hp |}, d)))
  end.
Fixpoint srk2_of_keys (flags ix : Z) (ks : list pubkey) : res (list (srk_rec * list N)) :=
  match ks with
  | [] => Ok []
  | k :: t => bind (srk2_of_key flags ix k) (fun r => bind (srk2_of_keys flags (ix + 1) t) (fun rs => Ok (r :: rs)))
  end.

(* ------------------------------------------------------------------ SRK table array *)
(* what SRKTableArray needs besides the records: the key data of every record and the selected record number *)
Record srk_array := { a_recs : list srk_rec; a_data : list (list N); a_used : Z }.
Definition used_data (a : srk_array) : list N := nth (Z.to_nat (a_used a)) (a_data a) [].
(* SRKTableArray.__len__ *)
Definition srk_array_len (a : srk_array) : Z := 8 + srk_table_len (a_recs a) + srk_data_len (used_data a).
(* SRKTableArray.export: version, length, tag, #tables, reserved (16 bit), reserved; table; SRK data of the selected record *)
Definition srk_array_bytes (a : srk_array) : list N :=
  le 1 gen_version_SRKTableArray ++ le 2 (srk_array_len a) ++ le 1 gen_tag_srk_array ++ le 1 1 ++ le 2 0 ++ le 1 0
  ++ srk_table_bytes true (srk_table_len (a_recs a)) (a_recs a)
  ++ srk_data_bytes (a_used a) (used_data a).
(* SRKTableArray.compute_srk_hash(0): SHA-512 of the exported table *)
Definition srk_hash2 (a : srk_array) : list N := sha512 (srk_table_bytes true (srk_table_len (a_recs a)) (a_recs a)).

(* ------------------------------------------------------------------ signature block, version 2 *)
(* SignatureBlockV2.update_fields: the parts follow each other without alignment. The numeric result is kept in the sigblock
   record of AhabModel (so that header_length, sigblock_header, the verifier conditions are the reused definitions). *)
Definition sigblock2_update (a : option srk_array) (sig : option (list N)) (bl : option blob) : sigblock :=
  let off0 := 0 in
  let size0 := 16 in
  let '(srk_off, off1, size1) :=
    match a with None => (0, off0, size0) | Some ar => let o := off0 + size0 in (o, o, srk_array_len ar) end in
  let '(sig_off, off2, size2) :=
    match sig with None => (0, off1, size1) | Some s => let o := off1 + size1 in (o, o, 8 + zlen' s) end in
  let '(blob_off, off3, size3) :=
    match bl with None => (0, off2, size2) | Some b => let o := off2 + size2 in (o, o, b_length b) end in
  {| sb_length := off3 + size3; sb_srk_off := srk_off; sb_sig_off := sig_off; sb_cert_off := 0; sb_blob_off := blob_off;
     sb_srk := match a with Some ar => a_recs ar | None => [] end;
     sb_srk_length := match a with Some ar => srk_table_len (a_recs ar) | None => 0 end;
     sb_sig := sig; sb_sig_length := match sig with Some s => 8 + zlen' s | None => 0 end; sb_blob := bl |}.

(* SignatureBlockV2.export *)
Definition sigblock2_bytes (sb : sigblock) (a : option srk_array) : list N :=
  let b0 := repeat 0%N (Z.to_nat (sb_length sb)) in
  let b1 := py_set b0 0 16 (sigblock_header true sb) in
  let b2 := match a with None => b1 | Some ar => place b1 (sb_srk_off sb) (srk_array_len ar) (srk_array_bytes ar) end in
  let b3 := match sb_sig sb with None => b2
            | Some s => place b2 (sb_sig_off sb) (8 + zlen' s) (signature_bytes (sb_sig_length sb) s) end in
  match sb_blob sb with None => b3 | Some b => place b3 (sb_blob_off sb) (b_length b) (blob_bytes b) end.

(* ------------------------------------------------------------------ container, version 2 *)
Record container2 := { k_c : container; k_arr : option srk_array }.

(* AHABContainer.export with the version-2 signature block *)
Definition container2_bytes (k : container2) : list N :=
  let c := k_c k in
  let n := Z.to_nat (zalign (header_length c) gen_container_alignment) in
  let b0 := repeat 0%N n in
  let b1 := py_set b0 0 (Z.to_nat (sbo c)) (header_bytes c ++ concat (map iae_bytes (c_images c))) in
  py_set b1 (Z.to_nat (sbo c)) (Z.to_nat (sbo c + zalign (sb_length (c_sb c)) gen_container_alignment))
         (sigblock2_bytes (c_sb c) (k_arr k)).
(* get_signature_data *)
Definition signed_data2 (k : container2) : list N :=
  match sb_sig (c_sb (k_c k)), k_arr k with
  | Some _, Some _ => firstn (Z.to_nat (sbo (k_c k) + sb_sig_off (c_sb (k_c k)))) (container2_bytes k)
  | _, _ => []
  end.

(* load_from_config + AHABContainerV2.update_fields for container number ix *)
Definition container2_build (p : params) (ix : Z) (cc : container_cfg) : res container2 :=
  let coff := p_csize p * ix in
  let flags := container_flags cc in
  bind (srk2_of_keys (if cc_flag_ca cc then gen_srk_flags_ca else 0) 0 (cc_keys cc)) (fun rds =>
  let arr := match rds with
             | [] => None
             | _ => Some {| a_recs := map fst rds; a_data := map snd rds; a_used := cc_used cc |}
             end in
  let sig := if cc_sigmode cc =? 0 then None
             else if cc_sigmode cc =? 1 then Some (cc_sig cc)
             else Some (inc_block (Z.to_nat (match cc_keys cc with k :: _ => sig_size k | [] => 0 end))) in
  let bl := option_map blob_of_cfg (cc_blob cc) in
  let imgs0 := map (fun ic => iae_encrypt true bl (build_iae p coff ic)) (cc_images cc) in
  let sb := sigblock2_update arr sig bl in
  bind (map_res (iae_update true) imgs0) (fun imgs =>
  let c0 := {| c_version := gen_version_container true; c_flags := flags; c_fuse := cc_fuse cc; c_sw := cc_sw cc;
               c_length := 0; c_coff := coff; c_images := imgs; c_sb := sb |} in
  Ok {| k_c := {| c_version := c_version c0; c_flags := flags; c_fuse := cc_fuse cc; c_sw := cc_sw cc;
                  c_length := header_length c0; c_coff := coff; c_images := imgs; c_sb := sb |};
        k_arr := arr |})).

Fixpoint build_all2 (p : params) (ix : Z) (l : list container_cfg) : res (list container2) :=
  match l with
  | [] => Ok []
  | cc :: t => bind (container2_build p ix cc) (fun c => bind (build_all2 p (ix + 1) t) (fun cs => Ok (c :: cs)))
  end.

(* the offset loop works on the container part only; the arrays ride along *)
Definition reattach (ks : list container2) (cs : list container) : list container2 :=
  map (fun x => {| k_c := snd x; k_arr := k_arr (fst x) |}) (combine ks cs).
Definition ahab2_update (p : params) (l : list container_cfg) : res (list container2) :=
  bind (build_all2 p 0 l) (fun ks => Ok (reattach ks (assign_offsets p (p_start p) (map k_c ks)))).

(* BinaryImage export of the tree (as AhabModel.ahab_bytes, with the version-2 container bytes) *)
Definition containers_block2 (p : params) (ks : list container2) : list N :=
  place_all (repeat 0%N (Z.to_nat (start_real p (map k_c ks))))
            (map (fun k => (c_coff (k_c k), zlen' (container2_bytes k), container2_bytes k)) ks).
Definition ahab2_bytes (p : params) (ks : list container2) : list N :=
  let blk := containers_block2 p ks in
  place_all (repeat 0%N (Z.to_nat (ahab_len p (map k_c ks)))) ((0, zlen' blk, blk) :: all_images (map k_c ks)).

(* the selected record must exist and carry SRK data (SRKTableArray: IndexError otherwise -- outside the modelled domain) *)
Definition used_in_range (cc : container_cfg) : bool :=
  match cc_keys cc with [] => true | ks => (0 <=? cc_used cc) && (cc_used cc <? zlen' ks) end.

Definition ahab2_export_of (p : params) (l : list container_cfg) (ks : list container2) : res (list N) :=
  let cs := map k_c ks in
  if negb (forallb container_fmt_ok cs) then Err E_CRASH
  else if forallb (fun x => container_verify_ok p (fst x) (snd x)) (combine l cs) && layout_ok p cs
  then Ok (ahab2_bytes p ks) else Err E_REJECT.
Definition ahab2_export (p : params) (l : list container_cfg) : res (list N) :=
  if p_max_cnt p <? zlen' l then Err E_REJECT
  else if negb (forallb used_in_range l) then Err E_BADCASE
  else bind (ahab2_update p l) (ahab2_export_of p l).

(* ------------------------------------------------------------------ parsing the new records *)
(* SRKData.parse: check_container_head (tag, version, length <= available), record number, data = bytes up to the length *)
Definition srk_data_parse (l : list N) : res (Z * list N) :=
  if head_ok gen_tag_srk_data [gen_version_SRKData] l 8 then Ok (rd l 4 2, slice l 8 (Z.to_nat (rd l 1 2))) else Err E_REJECT.
(* SRKTableArray.parse, the array header: (length, number of tables) *)
Definition srk_array_head_parse (l : list N) : res (Z * Z) :=
  if head_ok gen_tag_srk_array [gen_version_SRKTableArray] l 8 then Ok (rd l 1 2, rd l 4 1) else Err E_REJECT.
(* SRKRecordV2.parse: inverted header (tag, length, signing algorithm), 64 bytes of SRK data hash whatever the length words say *)
Definition srk_rec2_parse (l : list N) : res srk_rec :=
  if negb (Nat.leb 12 (length l) && (rd l 0 1 =? gen_tag_srk_record)
           && existsb (Z.eqb (rd l 3 1)) [33; 34; 39; 40; 209; 210] && (rd l 1 2 <=? zlen' l)) then Err E_REJECT
  else if rd l 1 2 <? 64 + 12 then Err E_REJECT
  else if negb (existsb (Z.eqb (rd l 4 1)) [0; 1; 2; 3; 4; 5; 6; 8; 9]) then Err E_REJECT      (* AHABSignHashAlgorithmV2.from_tag *)
  else Ok {| sr_alg := rd l 3 1; sr_hash := rd l 4 1; sr_ksize := rd l 5 1; sr_flags := rd l 7 1;
             sr_params := slice l 12 76; sr_length := rd l 1 2 |}.

(* ------------------------------------------------------------------ harness interface *)
Definition v_container2 (k : container2) : value :=
  let c := k_c k in
  VList [VInt (c_flags c); VInt (c_length c); VInt (sbo c); VInt (sb_length (c_sb c)); VInt (sb_srk_off (c_sb c));
         VInt (sb_sig_off (c_sb c)); VInt (sb_blob_off (c_sb c));
         VBytes (match k_arr k with Some a => srk_hash2 a | None => [] end); VBytes (signed_data2 k);
         VList (map (v_iae c) (c_images c))].

Definition run_case2 (fn : Z) (args : list value) : value :=
  match fn, args with
  | 1, [fam; tm; VList cs] =>
      (* [export bytes or error; per container (flags, length, offsets, SRK hash, signed data, entries)] *)
      let p := dec_params fam tm (VInt 1) in
      let l := map dec_container cs in
      if p_max_cnt p <? zlen' l then VList [VErr E_REJECT; VList []]
      else if negb (forallb used_in_range l) then VList [VErr E_BADCASE; VList []]
      else match ahab2_update p l with
           | Err k => VList [VErr k; VList []]
           | Ok ks => VList [vres rle (ahab2_export_of p l ks); VList (map v_container2 ks)]
           end
  | 2, [VBytes l] => vres (fun x => VList [VInt (fst x); VBytes (snd x)]) (srk_data_parse l)
  | 3, [VBytes l] => vres (fun r => VList [VInt (sr_alg r); VInt (sr_hash r); VInt (sr_ksize r); VInt (sr_flags r);
                                           VInt (sr_length r); VBytes (sr_params r)]) (srk_rec2_parse l)
  | _, _ => VErr E_BADCASE
  end.
