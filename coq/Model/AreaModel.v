(* Model/AreaModel.v -- executable model of the register-backed configuration areas
     spsdk/pfr/pfr.py (BaseConfigArea: CMPA, CFPA, ROMCFG, CMACTABLE), spsdk/image/segments_base.py + bca.py / fcf.py / fcb.py,
     spsdk/image/xmcd/xmcd.py, spsdk/fuses/fuses.py (configuration part), spsdk/memcfg/memcfg.py, spsdk/image/trustzone.py
   on top of the register algebra of Model/RegsModel.v (C11).  Definitions only.

   The per-device data (register layouts, binary sizes, fill patterns, computed fields, seal settings, option word rules,
   TrustZone presets) is Gen/GenAreas.v, regenerated from the device database on every run; the computed-field functions
   (the pfr_reg_inverse methods) are Gen/GenAreaFns.v, translated from spsdk/pfr/pfr.py on every run.  The control skeleton below is
   hand-written, faithful to the code (defects included) and tied by the correspondence run of tools/props/c12.py. *)
From Coq Require Import ZArith NArith List Bool.
Require Import Value Bytes GenMisc MiscModel GenRegs RegsModel GenAreaFns GenAreas Crc.
Import ListNotations.
Local Open Scope Z_scope.

(* ------------------------------------------------------------------ BinaryImage.export of Registers.image_info(size, pattern) *)
(* children are written in the order of the sub-image list; a child that does not fit into the parent makes the
   memoryview slice assignment fail (ValueError) *)
Fixpoint place_all (buf : list N) (ims : list (Z * list N)) : res (list N) :=
  match ims with
  | [] => Ok buf
  | im :: t => if (fst im <? 0) || (zlen buf <? fst im + zlen (snd im)) then Err 2%N
               else place_all (splice buf (Z.to_nat (fst im)) (snd im)) t
  end.

Definition sort_images (ims : list (Z * list N)) : list (Z * list N) := fold_left (fun l x => insert_img x l) ims [].

(* size = 0: automatic minimal size *)
Definition export_with (g : regs) (size : Z) (fill : N) : res (list N) :=
  bind (images_from g 0 (g_regs g)) (fun ims =>
  let total := if size =? 0 then image_size ims else size in
  place_all (repeat fill (Z.to_nat total)) (sort_images ims)).

(* ------------------------------------------------------------------ XMCD: the merged register view *)
Definition drop_nth {A} (n : nat) (l : list A) : list A := firstn n l ++ skipn (S n) l.

(* XMCDConfigBlock.registers: configOption1 exists only while configOption0.optionSize is not 0 *)
Definition effective (A : area) (g : regs) : res regs :=
  match a_opt A with
  | None => Ok g
  | Some (i0, k, i1) => bind (f_get g (Top i0) k) (fun v => Ok (if v =? 0 then set_regs g (drop_nth i1 (g_regs g)) else g))
  end.

(* ------------------------------------------------------------------ export *)
Definition SEAL : list N := [83; 69; 65; 76]%N.

Definition area_export (A : area) (g : regs) (add_seal : bool) : res (list N) :=
  if a_sized A then
    (* BaseConfigArea.export *)
    bind (export_with g (a_size A) (a_fill A)) (fun data =>
    let data := match add_seal, a_seal A with
                | true, Some (start, count) => splice data (Z.to_nat start) (concat (repeat SEAL (Z.to_nat count)))
                | _, _ => data
                end in
    if zlen data =? a_size A then Ok data else Err 1%N)
  else
    (* SegmentBase.export / MemoryConfig.export / Registers.export *)
    bind (effective A g) (fun g' => export_with g' 0 0%N).

(* export(rotkh=...): the bytes go into the ROTKH register through set_value(bytes, raw=False) *)
Definition area_export_rotkh (A : area) (g : regs) (rotkh : list N) : res (list N) :=
  match rotkh with
  | [] => area_export A g false
  | _ => match a_rotkh A with
         | None => Err 1%N
         | Some i => bind (t_set g (Top i) (Z.of_N (be_dec rotkh)) false) (fun g' => area_export A g' false)
         end
  end.

(* ------------------------------------------------------------------ configuration *)
(* one entry of the settings dictionary: the addressed register, the value, the shape of the value
   (0 scalar, 1 {"value": v}, 2 {"bitfields": {...}}, 3 {bit-field: v ...}) and whether the key is the register's name *)
Record centry_a := mkCe { ce_ref : ref; ce_val : centry; ce_flavour : Z; ce_by_name : bool }.

Definition ref_eqb (a b : ref) : bool :=
  match a, b with
  | Top i, Top j => Nat.eqb i j
  | Sub i j, Sub i' j' => Nat.eqb i i' && Nat.eqb j j'
  | _, _ => false
  end.

(* cfg[reg_name] of a python dictionary built from the entries in order: the last entry with this key wins; entries keyed
   by uid or alias are other keys *)
Fixpoint cfg_lookup (cfg : list centry_a) (t : ref) (acc : option centry_a) : option centry_a :=
  match cfg with
  | [] => acc
  | e :: rest => cfg_lookup rest t (if ce_by_name e && ref_eqb (ce_ref e) t then Some e else acc)
  end.

(* isinstance(cfg[reg_name], dict) and bitfield_name not in cfg[reg_name] *)
Definition needs_compute (e : centry_a) (k : nat) : bool :=
  match ce_flavour e, ce_val e with
  | 0, _ => false
  | 3, CFields l => negb (existsb (fun p => Nat.eqb (fst p) k) l)
  | _, _ => true
  end.

(* BaseConfigArea.set_config, the part after load_yml_config *)
Fixpoint recompute (g : regs) (cfg : list centry_a) (comps : list (nat * nat * Z)) : res regs :=
  match comps with
  | [] => Ok g
  | (i, k, m) :: rest =>
      match cfg_lookup cfg (Top i) None with
      | Some e =>
          if needs_compute e k
          then bind (t_get g (Top i) true) (fun v => bind (py_compute m v) (fun v' =>
               bind (t_set g (Top i) v' true) (fun g' => recompute g' cfg rest)))
          else recompute g cfg rest
      | None => recompute g cfg rest
      end
  end.

Definition plain_cfg (cfg : list centry_a) : list (ref * centry) := map (fun e => (ce_ref e, ce_val e)) cfg.

Fixpoint find_field (fs : list field) (name : list N) (k : nat) : option nat :=
  match fs with
  | [] => None
  | f :: t => if eqb_list (f_name f) name then Some k else find_field t name (S k)
  end.

(* XMCD header bit-fields are addressed by name, as the code does *)
Definition CFG_BLOCK_SIZE : list N := [99; 111; 110; 102; 105; 103; 117; 114; 97; 116; 105; 111; 110; 66; 108; 111; 99; 107; 83; 105; 122; 101]%N.
Definition CFG_BLOCK_TYPE : list N := [99; 111; 110; 102; 105; 103; 117; 114; 97; 116; 105; 111; 110; 66; 108; 111; 99; 107; 84; 121; 112; 101]%N.
Definition MEMORY_INTERFACE : list N := [109; 101; 109; 111; 114; 121; 73; 110; 116; 101; 114; 102; 97; 99; 101]%N.
Definition hdr_field (g : regs) (name : list N) : res nat :=
  match nth_error (g_regs g) 0 with
  | Some r => match find_field (s_fields (r_base r)) name 0 with Some k => Ok k | None => Err 1%N end
  | None => Err 1%N
  end.
Definition hdr_get (g : regs) (name : list N) : res Z := bind (hdr_field g name) (fun k => f_get g (Top 0) k).

(* XMCD.load_from_config: configurationBlockSize is corrected to the size of the merged image *)
Definition fix_size (A : area) (g : regs) : res regs :=
  if a_kind A =? 7 then
    bind (effective A g) (fun g' =>
    bind (images_from g' 0 (g_regs g')) (fun ims =>
    bind (hdr_field g CFG_BLOCK_SIZE) (fun k => bind (f_get g (Top 0) k) (fun cur =>
    if cur =? image_size ims then Ok g else f_set_int g (Top 0) k (image_size ims) false false))))
  else Ok g.

(* <Area>.load_from_config on a fresh object g0 *)
Definition area_load (A : area) (g0 : regs) (cfg : list centry_a) : res regs :=
  match load_cfg g0 (plain_cfg cfg) with
  | (g, Ok _) => bind (if a_sized A then recompute g cfg (a_computed A) else Ok g) (fun g' => fix_size A g')
  | (_, Err k) => Err k
  end.

(* ------------------------------------------------------------------ parse *)
Definition check_tag (A : area) (g : regs) : res regs :=
  match a_tag A with
  | None => Ok g
  | Some (i, tag) => bind (t_bytes g (Top i) false) (fun b => if eqb_list b tag then Ok g else Err 1%N)
  end.

Definition FCB_TAG_SWAPPED : list N := [67; 70; 66; 70]%N.    (* swap_bytes(b"FCFB") *)
Definition E_OTHER_LAYOUT : N := 98%N.                          (* the binary describes an area of another type: not modelled *)

Definition area_parse (A : area) (g0 : regs) (bin : list N) : res regs :=
  let k := a_kind A in
  if k =? 5 then (if zlen bin <? a_size A then Err 1%N else parse g0 bin)
  else if k =? 6 then
    (if zlen bin <? a_size A then Err 1%N
     else bind (if eqb_list (firstn 4 bin) FCB_TAG_SWAPPED then swap_bytes bin else Ok bin) (fun bin' =>
          bind (parse g0 bin') (check_tag A)))
  else if k =? 4 then bind (parse g0 bin) (check_tag A)
  else if k =? 7 then
    (* the header selects the memory type and the block type of the object that is built *)
    bind (parse g0 (firstn (Z.to_nat (s_offset (r_base (nth (a_hdr A) (g_regs g0) (mkReg (mkSreg [] 0 0 false [] false false 0 [] 0) false []))))) bin))
         (fun gh =>
    bind (hdr_get gh CFG_BLOCK_TYPE) (fun bt => bind (hdr_get gh MEMORY_INTERFACE) (fun mi =>
    bind (hdr_get g0 CFG_BLOCK_TYPE) (fun bt0 => bind (hdr_get g0 MEMORY_INTERFACE) (fun mi0 =>
    if (bt =? bt0) && (mi =? mi0) then parse g0 bin else Err E_OTHER_LAYOUT)))))
  else parse g0 bin.

(* ------------------------------------------------------------------ get_config *)
Fixpoint visible_tops (l : list reg) (i : nat) : list nat :=
  match l with
  | [] => []
  | r :: t => (if s_hidden (r_base r) then [] else [i]) ++ visible_tops t (S i)
  end.

Definition OPTION_SIZE : list N := [79; 112; 116; 105; 111; 110; 83; 105; 122; 101]%N.                    (* "OptionSize" *)
Definition AC_TIMING_MODE : list N := [65; 99; 84; 105; 109; 105; 110; 103; 77; 111; 100; 101]%N.          (* "AcTimingMode" *)
Definition USER_DEFINED : list N := [85; 115; 101; 114; 68; 101; 102; 105; 110; 101; 100]%N.               (* "UserDefined" *)

(* MemoryConfig.option_words_count *)
Definition ow_count (A : area) (g : regs) : res Z :=
  let vis := visible_tops (g_regs g) 0 in
  let n := Z.of_nat (length vis) in
  let first_field (name : list N) : res (nat * nat) :=
    match vis with
    | [] => Err 2%N
    | i :: _ => match nth_error (g_regs g) i with
                | Some r => match find_field (s_fields (r_base r)) name 0 with Some k => Ok (i, k) | None => Err 1%N end
                | None => Err 2%N
                end
    end in
  if a_rule A =? 1 then Ok n
  else if a_rule A =? 2 then bind (first_field OPTION_SIZE) (fun p => bind (f_get g (Top (fst p)) (snd p)) (fun v => Ok (1 + v)))
  else if a_rule A =? 3 then bind (first_field AC_TIMING_MODE) (fun p => bind (f_enum g (Top (fst p)) (snd p)) (fun s =>
                             Ok (if eqb_list s USER_DEFINED then n else 1)))
  else Err 1%N.

Fixpoint traverse_res {A B} (f : A -> res B) (l : list A) : res (list B) :=
  match l with
  | [] => Ok []
  | x :: t => bind (f x) (fun y => bind (traverse_res f t) (fun r => Ok (y :: r)))
  end.

Definition option_words (A : area) (g : regs) : res (list Z) :=
  bind (ow_count A g) (fun c =>
  traverse_res (fun i => t_get g (Top i) false) (firstn (Z.to_nat c) (visible_tops (g_regs g) 0))).

(* the settings part of <Area>.get_config() *)
Definition area_get_config (A : area) (g : regs) : res (list (nat * cout * list (nat * value))) :=
  if a_kind A =? 9 then
    bind (get_cfg g false) (fun all =>
    bind (ow_count A g) (fun c =>
    let keep := firstn (Z.to_nat c) (visible_tops (g_regs g) 0) in
    Ok (filter (fun x => existsb (Nat.eqb (fst (fst x))) keep) all)))
  else bind (effective A g) (fun g' => get_cfg g' false).

(* the configuration as the loader consumes it; register indices of the merged XMCD view are mapped back *)
Definition undrop (A : area) (g : regs) (i : nat) : res nat :=
  match a_opt A with
  | None => Ok i
  | Some (i0, k, i1) => bind (f_get g (Top i0) k) (fun v => Ok (if (v =? 0) && Nat.leb i1 i then S i else i))
  end.

Definition cfg_entries (A : area) (g : regs) (c : list (nat * cout * list (nat * value))) : res (list centry_a) :=
  traverse_res (fun x =>
    bind (undrop A g (fst (fst x))) (fun i =>
    Ok (match snd (fst x) with
        | CoHex _ s => mkCe (Top i) (CVal (VStr s)) 0 true
        | CoFields _ _ => mkCe (Top i) (CFields (snd x)) 3 true
        end))) c.

(* ------------------------------------------------------------------ XMCD extras *)
Definition xmcd_crc (A : area) (g : regs) : res (list N) :=
  bind (area_export A g false) (fun b => Ok (be_enc 4 (crc CRC32_MPEG2 b))).

(* ------------------------------------------------------------------ TrustZone (not register backed: a table of 32-bit presets) *)
Definition tz_value (v : value) : res Z :=
  match v with VInt z => Ok z | VStr s => value_to_int_str s | _ => Err 2%N end.

Fixpoint tz_custom (customs : list (nat * value)) (i : nat) (acc : option value) : option value :=
  match customs with
  | [] => acc
  | (j, v) :: t => tz_custom t i (if Nat.eqb i j then Some v else acc)
  end.

(* struct.pack("<NI", ...): a value outside 0 .. 2^32-1 is a struct.error *)
Fixpoint tz_words (presets : list (list N * list N)) (customs : list (nat * value)) (i : nat) : res (list Z) :=
  match presets with
  | [] => Ok []
  | (_, dflt) :: t =>
      bind (tz_value (match tz_custom customs i None with Some v => v | None => VStr dflt end)) (fun w =>
      bind (tz_words t customs (S i)) (fun ws => Ok (w :: ws)))
  end.

Definition tz_export (presets : list (list N * list N)) (customs : list (nat * value)) : res (list N) :=
  bind (tz_words presets customs 0) (fun ws =>
  if forallb (fun w => (0 <=? w) && (w <? 2 ^ 32)) ws then Ok (flat_map (fun w => le_enc 4 (Z.to_N w)) ws) else Err 2%N).

(* TrustZone.from_binary: the first len(presets) little-endian words *)
Fixpoint tz_unpack (n : nat) (raw : list N) : list Z :=
  match n with
  | O => []
  | S k => Z.of_N (le_dec (firstn 4 raw)) :: tz_unpack k (skipn 4 raw)
  end.

Definition tz_parse (presets : list (list N * list N)) (raw : list N) : res (list Z) :=
  if Z.of_nat (length presets) >? zlen raw / 4 then Err 1%N else Ok (tz_unpack (length presets) raw).

Definition tz_customs_of (ws : list Z) : list (nat * value) := combine (seq 0 (length ws)) (map VInt ws).

(* ------------------------------------------------------------------ observables *)
Definition snap_raw (g : regs) : value :=
  VList (map (fun ir =>
    VList (vz (t_get g (Top (fst ir)) true) ::
           map (fun j => vz (t_get g (Sub (fst ir) j) true)) (seq 0 (length (r_subs (snd ir))))))
    (combine (seq 0 (length (g_regs g))) (g_regs g))).

Definition vcfg (r : res (list (nat * cout * list (nat * value)))) : value :=
  vres (fun c => VList (map (fun x => cout_value (snd (fst x))) c)) r.

Definition vbytes (r : res (list N)) : value := vres VBytes r.

(* ------------------------------------------------------------------ decoding of harness input *)
Definition dec_ce (v : value) : option centry_a :=
  match v with
  | VList [t; VInt fl; body; VInt byname] =>
      match dec_ref t with
      | None => None
      | Some t =>
          if (fl =? 0) || (fl =? 1) then Some (mkCe t (CVal body) fl (zb byname))
          else match body with
               | VList l => option_map (fun l => mkCe t (CFields l) fl (zb byname)) (traverse dec_fv l)
               | _ => None
               end
      end
  | _ => None
  end.

Definition dec_custom (v : value) : option (nat * value) :=
  match v with VList [VInt i; x] => Some (Z.to_nat i, x) | _ => None end.

Definition dflt_area : area := mkArea 0 (mkRegs false []) 0 false 0%N [] None None None 0 0%nat None.

(* run_case 1 [area index; configuration; VInt seal?; VBytes rotkh]:
     load_from_config -> [raw values; export; parse(export) ok; export of the parsed object; its raw values;
                          get_config; export of load(get_config); its raw values; option words (memcfg);
                          option words after the configuration round trip; sealed export; export with ROTKH; XMCD CRC]
   run_case 2 [area index; binary]: the area's parser on an arbitrary binary
     -> [parse ok; export; raw values; get_config; export of load(get_config)]
   run_case 3 [tz index; customisations]: [export; words parsed back; export of from_binary(export)] *)
Definition run_case (fn : Z) (args : list value) : value :=
  match fn, args with
  | 1, [VInt ai; VList cfg; VInt seal; VBytes rotkh] =>
      let A := nth (Z.to_nat ai) all_areas dflt_area in
      let g0 := a_regs A in
      match traverse dec_ce cfg with
      | None => VErr E_BADCASE
      | Some cfg =>
          match area_load A g0 cfg with
          | Err k => VList [VErr k]
          | Ok g =>
              let e1 := area_export A g false in
              let p := bind e1 (fun b => area_parse A g0 b) in
              let c := area_get_config A g in
              let g3 := bind c (fun c => bind (cfg_entries A g c) (fun ce => area_load A g0 ce)) in
              VList [VList []; snap_raw g; vbytes e1;
                     vres (fun _ => VList []) p; vbytes (bind p (fun g2 => area_export A g2 false)); vres snap_raw p;
                     vcfg c; vbytes (bind g3 (fun g3 => area_export A g3 false)); vres snap_raw g3;
                     (if a_kind A =? 9 then vres (fun l => VList (map VInt l)) (option_words A g) else VList []);
                     (if a_kind A =? 9 then vres (fun l => VList (map VInt l)) (bind g3 (option_words A)) else VList []);
                     (if zb seal then vbytes (area_export A g true) else VList []);
                     (match rotkh with [] => VList [] | _ => vbytes (area_export_rotkh A g rotkh) end);
                     (if a_kind A =? 7 then vbytes (xmcd_crc A g) else VList [])]
          end
      end
  | 2, [VInt ai; VBytes bin] =>
      let A := nth (Z.to_nat ai) all_areas dflt_area in
      let g0 := a_regs A in
      match area_parse A g0 bin with
      | Err k => VList [VErr k]
      | Ok g =>
          let c := area_get_config A g in
          let g3 := bind c (fun c => bind (cfg_entries A g c) (fun ce => area_load A g0 ce)) in
          VList [VList []; vbytes (area_export A g false); snap_raw g; vcfg c; vbytes (bind g3 (fun g3 => area_export A g3 false))]
      end
  | 3, [VInt ti; VList customs] =>
      let P := nth (Z.to_nat ti) all_tz [] in
      match traverse dec_custom customs with
      | None => VErr E_BADCASE
      | Some cu =>
          let e1 := tz_export P cu in
          let ws := bind e1 (tz_parse P) in
          VList [vbytes e1; vres (fun l => VList (map VInt l)) ws; vbytes (bind ws (fun l => tz_export P (tz_customs_of l)))]
      end
  | _, _ => VErr E_BADCASE
  end.
