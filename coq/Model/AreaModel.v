(* Model/AreaModel.v -- executable model of the register-backed configuration areas
     spsdk/pfr/pfr.py (BaseConfigArea: CMPA, CFPA, ROMCFG, CMACTABLE), spsdk/image/segments_base.py + bca.py / fcf.py / fcb.py,
     spsdk/image/xmcd/xmcd.py, spsdk/fuses/fuses.py (configuration part), spsdk/memcfg/memcfg.py, spsdk/image/trustzone.py
   on top of the register algebra of Model/RegsModel.v (C11).  Definitions only.

   The per-device data (register layouts, binary sizes, fill patterns, computed fields, seal settings, option word rules,
   TrustZone presets) is Gen/GenAreas.v, regenerated from the device database on every run; the computed-field functions
   (the pfr_reg_inverse methods) are Gen/GenAreaFns.v, translated from spsdk/pfr/pfr.py on every run.  The control skeleton below is
   hand-written, faithful to the code (defects included) and tied by the correspondence run of tools/props/c12.py. *)
From Coq Require Import ZArith NArith List Bool.
Require Import Value Bytes GenMisc MiscModel GenRegs RegsModel GenAreaFns GenAreas Crc.
Import ListNotations.
Local Open Scope Z_scope.

(* ------------------------------------------------------------------ BinaryImage.export of Registers.image_info(size, pattern) *)
(* children are written in the order of the sub-image list; a child that does not fit into the parent makes the
   memoryview slice assignment fail (ValueError) *)
Fixpoint place_all (buf : list N) (ims : list (Z * list N)) : res (list N) :=
  match ims with
  | [] => Ok buf
  | im :: t => if (fst im <? 0) || (zlen buf <? fst im + zlen (snd im)) then Err 2%N
               else place_all (splice buf (Z.to_nat (fst im)) (snd im)) t
  end.

Definition sort_images (ims : list (Z * list N)) : list (Z * list N) := fold_left (fun l x => insert_img x l) ims [].

(* size = 0: automatic minimal size *)
Definition export_with (g : regs) (size : Z) (fill : N) : res (list N) :=
  bind (images_from g 0 (g_regs g)) (fun ims =>
  let total := if size =? 0 then image_size ims else size in
  place_all (repeat fill (Z.to_nat total)) (sort_images ims)).

(* ------------------------------------------------------------------ XMCD: the merged register view *)
Definition drop_nth {A} (n : nat) (l : list A) : list A := firstn n l ++ skipn (S n) l.

(* XMCDConfigBlock.registers: configOption1 exists only while configOption0.optionSize is not 0 *)
Definition effective (A : area) (g : regs) : res regs :=
  match a_opt A with
  | None => Ok g
  | Some (i0, k, i1) => bind (f_get g (Top i0) k) (fun v => Ok (if v =? 0 then set_regs g (drop_nth i1 (g_regs g)) else g))
  end.

Fixpoint traverse_res {A B} (f : A -> res B) (l : list A) : res (list B) :=
  match l with
  | [] => Ok []
  | x :: t => bind (f x) (fun y => bind (traverse_res f t) (fun r => Ok (y :: r)))
  end.

Definition dflt_reg : reg := mkReg (mkSreg [] 0 0 false [] false false 0 [] 0) false [].

(* ------------------------------------------------------------------ export *)
Definition SEAL : list N := [83; 69; 65; 76]%N.

Definition area_export (A : area) (g : regs) (add_seal : bool) : res (list N) :=
  if a_sized A then
    (* BaseConfigArea.export *)
    bind (export_with g (a_size A) (a_fill A)) (fun data =>
    let data := match add_seal, a_seal A with
                | true, Some (start, count) => splice data (Z.to_nat start) (concat (repeat SEAL (Z.to_nat count)))
                | _, _ => data
                end in
    if zlen data =? a_size A then Ok data else Err 1%N)
  else if a_kind A =? 8 then
    (* the fuse map has no binary form (every fuse register sits at offset 0): the observable is the raw value of every
       top-level fuse register, width/8 bytes big endian each, in register order *)
    bind (traverse_res (fun i => bind (t_get g (Top i) true) (fun v =>
            Ok (be_enc (Z.to_nat (s_width (r_base (nth i (g_regs g) dflt_reg)) / 8)) (Z.to_N v))))
          (seq 0 (length (g_regs g)))) (fun l => Ok (concat l))
  else
    (* SegmentBase.export / MemoryConfig.export / Registers.export *)
    bind (effective A g) (fun g' => export_with g' 0 0%N).

(* export(rotkh=...): the bytes go into the ROTKH register through set_value(bytes, raw=False) *)
Definition area_export_rotkh (A : area) (g : regs) (rotkh : list N) : res (list N) :=
  match rotkh with
  | [] => area_export A g false
  | _ => match a_rotkh A with
         | None => Err 1%N
         | Some i => bind (t_set g (Top i) (Z.of_N (be_dec rotkh)) false) (fun g' => area_export A g' false)
         end
  end.

(* ------------------------------------------------------------------ configuration *)
(* one entry of the settings dictionary: the addressed register, the value, the shape of the value
   (0 scalar, 1 {"value": v}, 2 {"bitfields": {...}}, 3 {bit-field: v ...}) and whether the key is the register's name *)
Record centry_a := mkCe { ce_ref : ref; ce_val : centry; ce_flavour : Z; ce_by_name : bool }.

Definition ref_eqb (a b : ref) : bool :=
  match a, b with
  | Top i, Top j => Nat.eqb i j
  | Sub i j, Sub i' j' => Nat.eqb i i' && Nat.eqb j j'
  | _, _ => false
  end.

(* cfg[reg_name] of a python dictionary built from the entries in order: the last entry with this key wins; entries keyed
   by uid or alias are other keys *)
Fixpoint cfg_lookup (cfg : list centry_a) (t : ref) (acc : option centry_a) : option centry_a :=
  match cfg with
  | [] => acc
  | e :: rest => cfg_lookup rest t (if ce_by_name e && ref_eqb (ce_ref e) t then Some e else acc)
  end.

(* isinstance(cfg[reg_name], dict) and bitfield_name not in cfg[reg_name] *)
Definition needs_compute (e : centry_a) (k : nat) : bool :=
  match ce_flavour e, ce_val e with
  | 0, _ => false
  | 3, CFields l => negb (existsb (fun p => Nat.eqb (fst p) k) l)
  | _, _ => true
  end.

(* BaseConfigArea.set_config, the part after load_yml_config *)
Fixpoint recompute (g : regs) (cfg : list centry_a) (comps : list (nat * nat * Z)) : res regs :=
  match comps with
  | [] => Ok g
  | (i, k, m) :: rest =>
      match cfg_lookup cfg (Top i) None with
      | Some e =>
          if needs_compute e k
          then bind (t_get g (Top i) true) (fun v => bind (py_compute m v) (fun v' =>
               bind (t_set g (Top i) v' true) (fun g' => recompute g' cfg rest)))
          else recompute g cfg rest
      | None => recompute g cfg rest
      end
  end.

Definition plain_cfg (cfg : list centry_a) : list (ref * centry) := map (fun e => (ce_ref e, ce_val e)) cfg.

Fixpoint find_field (fs : list field) (name : list N) (k : nat) : option nat :=
  match fs with
  | [] => None
  | f :: t => if eqb_list (f_name f) name then Some k else find_field t name (S k)
  end.

(* XMCD header bit-fields are addressed by name, as the code does *)
Definition CFG_BLOCK_SIZE : list N := [99; 111; 110; 102; 105; 103; 117; 114; 97; 116; 105; 111; 110; 66; 108; 111; 99; 107; 83; 105; 122; 101]%N.
Definition CFG_BLOCK_TYPE : list N := [99; 111; 110; 102; 105; 103; 117; 114; 97; 116; 105; 111; 110; 66; 108; 111; 99; 107; 84; 121; 112; 101]%N.
Definition MEMORY_INTERFACE : list N := [109; 101; 109; 111; 114; 121; 73; 110; 116; 101; 114; 102; 97; 99; 101]%N.
Definition hdr_field (g : regs) (name : list N) : res nat :=
  match nth_error (g_regs g) 0 with
  | Some r => match find_field (s_fields (r_base r)) name 0 with Some k => Ok k | None => Err 1%N end
  | None => Err 1%N
  end.
Definition hdr_get (g : regs) (name : list N) : res Z := bind (hdr_field g name) (fun k => f_get g (Top 0) k).

(* XMCD.load_from_config: configurationBlockSize is corrected to the size of the merged image *)
Definition fix_size (A : area) (g : regs) : res regs :=
  if a_kind A =? 7 then
    bind (effective A g) (fun g' =>
    bind (images_from g' 0 (g_regs g')) (fun ims =>
    bind (hdr_field g CFG_BLOCK_SIZE) (fun k => bind (f_get g (Top 0) k) (fun cur =>
    if cur =? image_size ims then Ok g else f_set_int g (Top 0) k (image_size ims) false false))))
  else Ok g.

(* <Area>.load_from_config on a fresh object g0 *)
Definition area_load (A : area) (g0 : regs) (cfg : list centry_a) : res regs :=
  match load_cfg g0 (plain_cfg cfg) with
  | (g, Ok _) => bind (if a_sized A then recompute g cfg (a_computed A) else Ok g) (fun g' => fix_size A g')
  | (_, Err k) => Err k
  end.

(* XMCD.export keeps header.configurationBlockSize in step with the configuration block before it exports
   (the other classes export their registers as they are) *)
Definition area_export_now (A : area) (g : regs) (add_seal : bool) : res (list N) :=
  if a_kind A =? 7 then bind (fix_size A g) (fun g1 => area_export A g1 add_seal) else area_export A g add_seal.

(* ------------------------------------------------------------------ parse *)
Definition check_tag (A : area) (g : regs) : res regs :=
  match a_tag A with
  | None => Ok g
  | Some (i, tag) => bind (t_bytes g (Top i) false) (fun b => if eqb_list b tag then Ok g else Err 1%N)
  end.

Definition FCB_TAG_SWAPPED : list N := [67; 70; 66; 70]%N.    (* swap_bytes(b"FCFB") *)
Definition E_OTHER_LAYOUT : N := 98%N.                          (* the binary describes an area of another type: not modelled *)

Definition area_parse (A : area) (g0 : regs) (bin : list N) : res regs :=
  let k := a_kind A in
  if k =? 5 then (if zlen bin <? a_size A then Err 1%N else parse g0 bin)
  else if k =? 6 then
    (if zlen bin <? a_size A then Err 1%N
     else bind (if eqb_list (firstn 4 bin) FCB_TAG_SWAPPED then swap_bytes bin else Ok bin) (fun bin' =>
          bind (parse g0 bin') (check_tag A)))
  else if k =? 4 then bind (parse g0 bin) (check_tag A)
  else if k =? 7 then
    (* the header selects the memory type and the block type of the object that is built *)
    bind (parse g0 (firstn (Z.to_nat (s_offset (r_base (nth (a_hdr A) (g_regs g0) dflt_reg)))) bin))
         (fun gh =>
    bind (hdr_get gh CFG_BLOCK_TYPE) (fun bt => bind (hdr_get gh MEMORY_INTERFACE) (fun mi =>
    bind (hdr_get g0 CFG_BLOCK_TYPE) (fun bt0 => bind (hdr_get g0 MEMORY_INTERFACE) (fun mi0 =>
    if (bt =? bt0) && (mi =? mi0) then parse g0 bin else Err E_OTHER_LAYOUT)))))
  else parse g0 bin.

(* ------------------------------------------------------------------ get_config *)
Fixpoint visible_tops (l : list reg) (i : nat) : list nat :=
  match l with
  | [] => []
  | r :: t => (if s_hidden (r_base r) then [] else [i]) ++ visible_tops t (S i)
  end.

Definition OPTION_SIZE : list N := [79; 112; 116; 105; 111; 110; 83; 105; 122; 101]%N.                    (* "OptionSize" *)
Definition AC_TIMING_MODE : list N := [65; 99; 84; 105; 109; 105; 110; 103; 77; 111; 100; 101]%N.          (* "AcTimingMode" *)
Definition USER_DEFINED : list N := [85; 115; 101; 114; 68; 101; 102; 105; 110; 101; 100]%N.               (* "UserDefined" *)

(* MemoryConfig.option_words_count *)
Definition ow_count (A : area) (g : regs) : res Z :=
  let vis := visible_tops (g_regs g) 0 in
  let n := Z.of_nat (length vis) in
  let first_field (name : list N) : res (nat * nat) :=
    match vis with
    | [] => Err 2%N
    | i :: _ => match nth_error (g_regs g) i with
                | Some r => match find_field (s_fields (r_base r)) name 0 with Some k => Ok (i, k) | None => Err 1%N end
                | None => Err 2%N
                end
    end in
  if a_rule A =? 1 then Ok n
  else if a_rule A =? 2 then bind (first_field OPTION_SIZE) (fun p => bind (f_get g (Top (fst p)) (snd p)) (fun v => Ok (1 + v)))
  else if a_rule A =? 3 then bind (first_field AC_TIMING_MODE) (fun p => bind (f_enum g (Top (fst p)) (snd p)) (fun s =>
                             Ok (if eqb_list s USER_DEFINED then n else 1)))
  else Err 1%N.

Definition option_words (A : area) (g : regs) : res (list Z) :=
  bind (ow_count A g) (fun c =>
  traverse_res (fun i => t_get g (Top i) false) (firstn (Z.to_nat c) (visible_tops (g_regs g) 0))).

(* ---- python dictionaries: ret[name] = value keeps the position of the first insertion and the value of the last *)
Fixpoint dict_set {V} (d : list (list N * V)) (k : list N) (v : V) : list (list N * V) :=
  match d with
  | [] => [(k, v)]
  | kv :: t => if eqb_list (fst kv) k then (fst kv, v) :: t else kv :: dict_set t k v
  end.
Definition dict_of {V} (l : list (list N * V)) : list (list N * V) := fold_left (fun d kv => dict_set d (fst kv) (snd kv)) l [].

(* the value of one register in the configuration dictionary *)
Inductive cpay := PHex (s : list N) | PFields (l : list (list N * list N)).

Definition cout_entry (c : cout) : list N * cpay :=
  match c with
  | CoHex n s => (n, PHex s)
  | CoFields n l => (n, PFields (dict_of l))
  end.

(* the settings part of <Area>.get_config(): a dictionary keyed by register name *)
Definition area_get_config (A : area) (g : regs) : res (list (list N * cpay)) :=
  if a_kind A =? 9 then
    bind (get_cfg g false) (fun all =>
    bind (ow_count A g) (fun c =>
    let keep := firstn (Z.to_nat c) (visible_tops (g_regs g) 0) in
    let d := dict_of (map (fun x => cout_entry (snd (fst x))) all) in
    (* settings[reg.name] = settings_all[reg.name] for the first option words *)
    Ok (dict_of (flat_map (fun i => match nth_error (g_regs g) i with
                                    | Some r => filter (fun kv => eqb_list (fst kv) (s_name (r_base r))) d
                                    | None => []
                                    end) keep))))
  else bind (effective A g) (fun g' => bind (get_cfg g' false) (fun all =>
       Ok (dict_of (map (fun x => cout_entry (snd (fst x))) all)))).

(* Registers.find_reg(name, include_group_regs=True) on names *)
Fixpoint find_sub (subs : list sreg) (name : list N) (j : nat) : option nat :=
  match subs with
  | [] => None
  | x :: t => if eqb_list (s_name x) name then Some j else find_sub t name (S j)
  end.
Fixpoint find_reg_name (l : list reg) (name : list N) (i : nat) : option ref :=
  match l with
  | [] => None
  | r :: t => if eqb_list (s_name (r_base r)) name then Some (Top i)
              else match find_sub (r_subs r) name 0 with
                   | Some j => Some (Sub i j)
                   | None => find_reg_name t name (S i)
                   end
  end.

(* the dictionary as the loader of a fresh object g0 consumes it: names are looked up again *)
Definition cfg_entries (g0 : regs) (c : list (list N * cpay)) : res (list centry_a) :=
  traverse_res (fun kv =>
    match find_reg_name (g_regs g0) (fst kv) 0 with
    | None => Err 1%N
    | Some t =>
        match snd kv with
        | PHex s => Ok (mkCe t (CVal (VStr s)) 0 true)
        | PFields l =>
            match t_sreg g0 t with
            | None => Err 1%N
            | Some sr =>
                bind (traverse_res (fun fv => match find_field (s_fields sr) (fst fv) 0 with
                                              | Some k => Ok (k, VStr (snd fv))
                                              | None => Err 1%N
                                              end) l) (fun fl => Ok (mkCe t (CFields fl) 3 true))
            end
        end
    end) c.

(* ------------------------------------------------------------------ XMCD extras *)
Definition xmcd_crc (A : area) (g : regs) : res (list N) :=
  bind (area_export_now A g false) (fun b => Ok (be_enc 4 (crc CRC32_MPEG2 b))).

(* ------------------------------------------------------------------ TrustZone (not register backed: a table of 32-bit presets) *)
Definition tz_value (v : value) : res Z :=
  match v with VInt z => Ok z | VStr s => value_to_int_str s | _ => Err 2%N end.

(* positions are binary numbers: the tables have several hundred entries *)
Fixpoint tz_custom (customs : list (Z * value)) (i : Z) (acc : option value) : option value :=
  match customs with
  | [] => acc
  | (j, v) :: t => tz_custom t i (if i =? j then Some v else acc)
  end.

(* struct.pack("<NI", ...): a value outside 0 .. 2^32-1 is a struct.error *)
Fixpoint tz_words (presets : list (list N * list N)) (customs : list (Z * value)) (i : Z) : res (list Z) :=
  match presets with
  | [] => Ok []
  | (_, dflt) :: t =>
      bind (tz_value (match tz_custom customs i None with Some v => v | None => VStr dflt end)) (fun w =>
      bind (tz_words t customs (i + 1)) (fun ws => Ok (w :: ws)))
  end.

Definition tz_export (presets : list (list N * list N)) (customs : list (Z * value)) : res (list N) :=
  bind (tz_words presets customs 0) (fun ws =>
  if forallb (fun w => (0 <=? w) && (w <? 2 ^ 32)) ws then Ok (flat_map (fun w => le_enc 4 (Z.to_N w)) ws) else Err 2%N).

(* TrustZone.from_binary: the first len(presets) little-endian words *)
Fixpoint tz_unpack (n : nat) (raw : list N) : list Z :=
  match n with
  | O => []
  | S k => Z.of_N (le_dec (firstn 4 raw)) :: tz_unpack k (skipn 4 raw)
  end.

Definition tz_parse (presets : list (list N * list N)) (raw : list N) : res (list Z) :=
  if Z.of_nat (length presets) >? zlen raw / 4 then Err 1%N else Ok (tz_unpack (length presets) raw).

Fixpoint zseq (start : Z) (len : nat) : list Z :=
  match len with O => [] | S k => start :: zseq (start + 1) k end.
Definition tz_customs_of (ws : list Z) : list (Z * value) := combine (zseq 0 (length ws)) (map VInt ws).

(* digits by masking and shifting (no division: the numbers are thousands of bits long) *)
Fixpoint digits_le (bits : N) (len : nat) (n : N) : list N :=
  match len with
  | O => []
  | S k => N.land n (N.ones bits) :: digits_le bits k (N.shiftr n bits)
  end.
Definition undigits_be (bits : N) (l : list N) : N := fold_left (fun acc d => N.lor (N.shiftl acc bits) d) l 0%N.
Definition CPB : N := 21%N.

(* ------------------------------------------------------------------ observables *)
(* raw value of every top-level register followed by the raw values of its sub-registers, width/8 bytes big endian each *)
Definition raw_bytes (w v : Z) : list N := rev (digits_le 8 (Z.to_nat (w / 8)) (Z.to_N v)).
Definition snap_raw (g : regs) : value :=
  vres VBytes (bind (traverse_res (fun ir =>
      let r := snd ir in
      bind (t_get g (Top (fst ir)) true) (fun v =>
      bind (traverse_res (fun js => bind (t_get g (Sub (fst ir) (fst js)) true) (fun x => Ok (raw_bytes (s_width (snd js)) x)))
             (combine (seq 0 (length (r_subs r))) (r_subs r))) (fun subs =>
      Ok (raw_bytes (s_width (r_base r)) v ++ concat subs))))
    (combine (seq 0 (length (g_regs g))) (g_regs g))) (fun l => Ok (concat l))).

Definition cpay_value (kv : list N * cpay) : value :=
  match snd kv with
  | PHex s => VList [VStr (fst kv); VInt 0; VStr s]
  | PFields l => VList [VStr (fst kv); VInt 1; VList (map (fun p => VList [VStr (fst p); VStr (snd p)]) l)]
  end.
Definition vcfg (r : res (list (list N * cpay))) : value := vres (fun c => VList (map cpay_value c)) r.

Definition vbytes (r : res (list N)) : value := vres VBytes r.

(* ------------------------------------------------------------------ compact wire format
   strings and byte strings travel as numbers (Coq reads and prints long lists of small numerals slowly):
     VList [VInt (-1); VInt len; VInt n]  a string of len code points, n in base 2^21, most significant first
     VList [VInt (-2); VInt len; VInt n]  len bytes, n big endian
     VList [VInt (-6); VInt len; VInt n]  a string of len code points below 256, n big endian in base 256 *)
Fixpoint unpack (v : value) {struct v} : value :=
  match v with
  | VList [VInt (-1); VInt len; VInt n] => VStr (rev (digits_le CPB (Z.to_nat len) (Z.to_N n)))
  | VList [VInt (-2); VInt len; VInt n] => VBytes (rev (digits_le 8 (Z.to_nat len) (Z.to_N n)))
  | VList [VInt (-6); VInt len; VInt n] => VStr (rev (digits_le 8 (Z.to_nat len) (Z.to_N n)))
  | VList l => VList ((fix go (l : list value) : list value := match l with [] => [] | x :: t => unpack x :: go t end) l)
  | _ => v
  end.

(* results that have to be printed go out in groups of seven bytes / characters (Coq prints long numerals slowly):
     VList [VInt (-7); VInt len; VList groups]  bytes;  VList [VInt (-8); VInt len; VList groups]  a string below 256;
     VList [VInt (-9); VList code points]  any other string *)
Fixpoint groups7 (fuel : nat) (l : list N) : list value :=
  match fuel with
  | O => []
  | S k => match l with
           | [] => []
           | _ => VInt (Z.of_N (undigits_be 8 (firstn 7 l))) :: groups7 k (skipn 7 l)
           end
  end.

Fixpoint pack (v : value) {struct v} : value :=
  match v with
  | VStr s => if forallb (fun c => (c <? 256)%N) s then VList [VInt (-8); vnat (length s); VList (groups7 (length s) s)]
              else VList [VInt (-9); VList (map (fun c => VInt (Z.of_N c)) s)]
  | VBytes b => VList [VInt (-7); vnat (length b); VList (groups7 (length b) b)]
  | VList l => VList ((fix go (l : list value) : list value := match l with [] => [] | x :: t => pack x :: go t end) l)
  | _ => v
  end.

(* ------------------------------------------------------------------ decoding of harness input *)
Definition dec_ce (v : value) : option centry_a :=
  match v with
  | VList [t; VInt fl; body; VInt byname] =>
      match dec_ref t with
      | None => None
      | Some t =>
          if (fl =? 0) || (fl =? 1) then Some (mkCe t (CVal body) fl (zb byname))
          else match body with
               | VList l => option_map (fun l => mkCe t (CFields l) fl (zb byname)) (traverse dec_fv l)
               | _ => None
               end
      end
  | _ => None
  end.

Definition dec_custom (v : value) : option (Z * value) :=
  match v with VList [VInt i; x] => Some (i, x) | _ => None end.

Definition dflt_area : area := mkArea 0 (mkRegs false []) 0 false 0%N [] None None None 0 0%nat None.
Definition E_NA : N := 97%N.        (* the area has no such operation *)

(* run_area A 1 [configuration; VInt seal?; VBytes rotkh]:
     load_from_config -> [(); raw values; export; parse(export) ok; export of the parsed object; its raw values;
                          get_config; export of load(get_config); its raw values; option words (memcfg);
                          option words after the configuration round trip; sealed export; export with ROTKH; XMCD CRC]
   run_area A 2 [binary]: the area's parser on an arbitrary binary
     -> [(); export; raw values; get_config; export of load(get_config)]
   (inputs and outputs in the compact wire format) *)
Definition run_area_raw (A : area) (fn : Z) (args : list value) : value :=
  let g0 := a_regs A in
  let roundtrip (g : regs) := bind (area_get_config A g) (fun c => bind (cfg_entries g0 c) (fun ce => area_load A g0 ce)) in
  match fn, args with
  | 1, [VList cfg; VInt seal; VBytes rotkh] =>
      match traverse dec_ce cfg with
      | None => VErr E_BADCASE
      | Some cfg =>
          match area_load A g0 cfg with
          | Err k => VList [VErr k]
          | Ok g =>
              let e1 := area_export_now A g false in
              let p := if a_kind A =? 8 then Err E_NA else bind e1 (fun b => area_parse A g0 b) in
              let g3 := roundtrip g in
              VList [VList []; snap_raw g; vbytes e1;
                     vres (fun _ => VList []) p; vbytes (bind p (fun g2 => area_export_now A g2 false)); vres snap_raw p;
                     vcfg (area_get_config A g); vbytes (bind g3 (fun g3 => area_export_now A g3 false)); vres snap_raw g3;
                     (if a_kind A =? 9 then vres (fun l => VList (map VInt l)) (option_words A g) else VList []);
                     (if a_kind A =? 9 then vres (fun l => VList (map VInt l)) (bind g3 (option_words A)) else VList []);
                     (if zb seal then vbytes (area_export_now A g true) else VList []);
                     (match rotkh with [] => VList [] | _ => vbytes (area_export_rotkh A g rotkh) end);
                     (if a_kind A =? 7 then vbytes (xmcd_crc A g) else VList [])]
          end
      end
  | 2, [VBytes bin] =>
      match area_parse A g0 bin with
      | Err k => VList [VErr k]
      | Ok g =>
          let g3 := roundtrip g in
          VList [VList []; vbytes (area_export_now A g false); snap_raw g; vcfg (area_get_config A g);
                 vbytes (bind g3 (fun g3 => area_export_now A g3 false))]
      end
  | _, _ => VErr E_BADCASE
  end.

(* printing long results is slow: the harness hands over what the implementation produced; a slot that agrees is
   answered by a mark, a slot that differs (or for which nothing is expected: VList [VInt (-3)]) is printed *)
Definition MARK_SAME : value := VList [VInt (-4)].
Definition check_slot (all : list value) (out exp : value) : value :=
  match exp with
  | VList [VInt (-3)] => pack out
  | VList [VInt (-5); VInt k] => if value_eqb out (nth (Z.to_nat k) all (VErr 0%N)) then MARK_SAME else pack out
  | _ => if value_eqb out exp then MARK_SAME else pack out
  end.
Fixpoint check_slots (all : list value) (outs exps : list value) : list value :=
  match outs, exps with
  | [], _ => []
  | o :: t, [] => pack o :: check_slots all t []
  | o :: t, e :: t' => check_slot all o e :: check_slots all t t'
  end.
(* expected slots arrive packed; VList [VInt (-5); VInt k] stands for "the same as expected slot k" *)
Definition answer (out : value) (exps : list value) : value :=
  match out with
  | VList l => let all := map unpack exps in VList (check_slots all l all)
  | _ => pack out
  end.

(* the last argument is the list of expected slots *)
Definition split_last (args : list value) : list value * list value :=
  match rev args with
  | VList exps :: front => (rev front, exps)
  | _ => (args, [])
  end.

Definition run_area (A : area) (fn : Z) (args : list value) : value :=
  let (front, exps) := split_last args in
  answer (run_area_raw A fn (map unpack front)) exps.

(* run_tz P [customisations; expected]: [export; words parsed back; export of from_binary(export)] *)
Definition run_tz (P : list (list N * list N)) (args : list value) : value :=
  let (front, exps) := split_last args in
  match map unpack front with
  | [VList customs] =>
      match traverse dec_custom customs with
      | None => VErr E_BADCASE
      | Some cu =>
          let e1 := tz_export P cu in
          let ws := bind e1 (tz_parse P) in
          answer (VList [vbytes e1; vres (fun l => VList (map VInt l)) ws; vbytes (bind ws (fun l => tz_export P (tz_customs_of l)))]) exps
      end
  | _ => VErr E_BADCASE
  end.

(* the common entry point: the first argument is the index of the area (fn 1, 2) or of the preset table (fn 3).
   The check refers to the constants area_k / tz_k directly (evaluating the whole database for one case is slow). *)
Definition run_case (fn : Z) (args : list value) : value :=
  match fn, args with
  | 3, VInt ti :: rest => run_tz (nth (Z.to_nat ti) all_tz []) rest
  | _, VInt ai :: rest => run_area (nth (Z.to_nat ai) all_areas dflt_area) fn rest
  | _, _ => VErr E_BADCASE
  end.
