(* Model/Sb31Model.v -- Secure Binary 3.1 (spsdk/sbfile/sb31/{commands,images,functions}.py).  Definitions only.

   Faithful side (what SPSDK does):
     export_cmd / parse_command       the 14 command classes, CmdSectionHeader
     sb_stream / data_chunks          SecureBinary31Commands.get_cmd_blocks_to_export
     process_blocks                   process_cmd_blocks_to_export / _process_block (last-to-first, mutable final_hash)
     sb_derive / sb_kdk / sb_block_key   functions.py (_derive_key, _get_key_derivation_data)
     sb_header, build31, exports      SecureBinary31Header.update/export, SecureBinary31.export; the mutable fields
                                      (final_hash, block_count, image_total_length) are an explicit state so that
                                      export histories are expressible
   Specification side (what the property demands, written from the format description):
     rom_cmd / rom_cmds               command decoder of the loader
     rom31_g                          the loader: header checks, H(block 1), forward walk of the hash chain, block keys,
                                      AES-CBC decryption, section header, commands, zero padding, exact file length
     kdf_counter_mode                 the documented CMAC counter-mode KDF

   Everything is parametric in the primitives (hash Hf with digest length hl, block cipher E / D, MAC) inside a Section;
   the concrete instances (SHA-256/384, AES, AES-CMAC from Crypto/) are used by run_case. The certificate block v2.1 and
   the ECDSA signature are opaque byte strings (obligations): the model places them and the loader returns them. *)
From Coq Require Import ZArith NArith List Bool.
Require Import Value Bytes Sha2 Aes Modes Cmac.
Import ListNotations.
Local Open Scope N_scope.

Definition U16 : N := 65536.
Definition U32 : N := 4294967296.
Definition U64 : N := 18446744073709551616.
Definition SB_TAG : N := 1437248085.          (* BaseCmd.TAG = 0x55AAAA55 *)

(* ------------------------------------------------------------------ commands *)
Inductive cmd : Type :=
| CErase (addr len mem : N)
| CLoad (addr mem : N) (data : list N)
| CExecute (addr : N)
| CCall (addr : N)
| CProgFuses (addr : N) (data : list N)
| CProgIfr (addr : N) (data : list N)
| CLoadCmac (addr mem : N) (data : list N)
| CCopy (addr len dest memfrom memto : N)
| CLoadHashLocking (addr mem : N) (data : list N)
| CLoadKeyBlob (offset keywrap : N) (data : list N)
| CConfigureMemory (addr mem : N)
| CFillMemory (addr len pattern : N)
| CFwVersionCheck (value counter : N)
| CReset.

Definition cmd_tag (c : cmd) : N :=
  match c with
  | CErase _ _ _ => 1 | CLoad _ _ _ => 2 | CExecute _ => 3 | CCall _ => 4 | CProgFuses _ _ => 5 | CProgIfr _ _ => 6
  | CLoadCmac _ _ _ => 7 | CCopy _ _ _ _ _ => 8 | CLoadHashLocking _ _ _ => 9 | CLoadKeyBlob _ _ _ => 10
  | CConfigureMemory _ _ => 11 | CFillMemory _ _ _ => 12 | CFwVersionCheck _ _ => 13 | CReset => 14
  end.

Definition cmd_data (c : cmd) : list N :=
  match c with
  | CLoad _ _ d | CProgFuses _ d | CProgIfr _ d | CLoadCmac _ _ d | CLoadHashLocking _ _ d | CLoadKeyBlob _ _ d => d
  | _ => []
  end.

Definition w32 (v : N) : list N := le_enc 4 v.
Definition hdr4 (a b c d : N) : list N := w32 a ++ w32 b ++ w32 c ++ w32 d.      (* pack("<4L", a, b, c, d) *)
Definition padlen (k n : nat) : nat := Nat.modulo (k - Nat.modulo n k) k.
(* align_block(l, alignment=k) with the default zero padding *)
Definition sb_align (k : nat) (l : list N) : list N := l ++ zeros (padlen k (length l)).

Definition export_cmd (c : cmd) : list N :=
  match c with
  | CErase a l m => hdr4 SB_TAG a l 1 ++ hdr4 m 0 0 0
  | CLoad a m d => sb_align 16 (hdr4 SB_TAG a (nlen d) 2 ++ hdr4 m 0 0 0 ++ d)
  | CExecute a => hdr4 SB_TAG a 0 3
  | CCall a => hdr4 SB_TAG a 0 4
  | CProgFuses a d => sb_align 16 (hdr4 SB_TAG a (nlen d / 4) 5 ++ d)          (* self.length //= 4 *)
  | CProgIfr a d => sb_align 16 (hdr4 SB_TAG a (nlen d) 6 ++ d)
  | CLoadCmac a m d => sb_align 16 (hdr4 SB_TAG a (nlen d) 7 ++ hdr4 m 0 0 0 ++ d)
  | CCopy a l dst mf mt => hdr4 SB_TAG a l 8 ++ hdr4 dst mf mt 0
  | CLoadHashLocking a m d => sb_align 16 (hdr4 SB_TAG a (nlen d) 9 ++ hdr4 m 0 0 0 ++ d) ++ zeros 64
  | CLoadKeyBlob off kw d =>                                                     (* FORMAT "<L2H2L" *)
      sb_align 16 (w32 SB_TAG ++ le_enc 2 off ++ le_enc 2 kw ++ w32 (nlen d) ++ w32 10 ++ d)
  | CConfigureMemory a m => hdr4 SB_TAG m a 11
  | CFillMemory a l p => hdr4 SB_TAG a l 12 ++ hdr4 p 0 0 0
  | CFwVersionCheck v cid => hdr4 SB_TAG v cid 13
  | CReset => hdr4 SB_TAG 0 0 14
  end.

Definition u32b (v : N) : bool := v <? U32.
Definition u16b (v : N) : bool := v <? U16.
(* struct.pack succeeds *)
Definition cmd_in_range (c : cmd) : bool :=
  match c with
  | CErase a l m => u32b a && u32b l && u32b m
  | CLoad a m d | CLoadCmac a m d | CLoadHashLocking a m d => u32b a && u32b m && u32b (nlen d)
  | CExecute a | CCall a => u32b a
  | CProgFuses a d | CProgIfr a d => u32b a && u32b (nlen d)
  | CCopy a l dst mf mt => u32b a && u32b l && u32b dst && u32b mf && u32b mt
  | CLoadKeyBlob off kw d => u16b off && u16b kw && u32b (nlen d)
  | CConfigureMemory a m => u32b a && u32b m
  | CFillMemory a l p => u32b a && u32b l && u32b p
  | CFwVersionCheck v cid => u32b v && (cid <? 6)
  | CReset => true
  end.
(* the constructor accepts the arguments: CmdProgFuses.__init__ raises SPSDKError unless the data is whole 32-bit words *)
Definition cmd_constructible (c : cmd) : bool :=
  match c with CProgFuses _ d => nlen d mod 4 =? 0 | _ => true end.
(* commands the property quantifies over: constructible, fields in range, data made of bytes *)
Definition wf_cmdb (c : cmd) : bool :=
  cmd_in_range c && wf_bytesb (cmd_data c) && cmd_constructible c.
Definition wf_cmd (c : cmd) : Prop := wf_cmdb c = true.

(* ---- spsdk.sbfile.sb31.commands.parse_command (faithful: which fields are read, which checks exist, which exception) ---- *)
(* data[:len] with the length given as a (possibly huge) field value: clamp before converting to nat *)
Definition take_n (len : N) (l : list N) : list N := firstn (N.to_nat (N.min len (nlen l))) l.

(* four little-endian words and what follows them *)
Definition split4 (l : list N) : N * N * N * N * list N :=
  let b1 := skipn 4 l in let b2 := skipn 4 b1 in let b3 := skipn 4 b2 in
  (le_dec (firstn 4 l), le_dec (firstn 4 b1), le_dec (firstn 4 b2), le_dec (firstn 4 b3), skipn 4 b3).

(* the per-class parse() after the common 16-byte header: f1b = bytes 4..8, f2 = word 2, t = command tag, body = data[16:] *)
Definition parse_body (f1b : list N) (f2 t : N) (body : list N) : res cmd :=
  let f1 := le_dec f1b in
  let ext := Nat.leb 16 (length body) in                            (* unpack_from("<4L", data, offset=16) possible *)
  let '(e0, e1, e2, e3, rest) := split4 body in                     (* rest = data[32:] *)
  let pads0 := (e1 =? 0) && (e2 =? 0) && (e3 =? 0) in
  let load (mk : N -> N -> list N -> cmd) :=
    if negb ext then Err 2 else if negb pads0 then Err 1 else Ok (mk f1 e0 (take_n f2 rest)) in
  if (t =? 0) || (14 <? t) then Err 1                              (* NONE not in TAG_TO_CLASS / SPSDKKeyError *)
  else if t =? 1 then (if negb ext then Err 2 else if negb pads0 then Err 1 else Ok (CErase f1 f2 e0))
  else if t =? 2 then load CLoad
  else if t =? 3 then Ok (CExecute f1)
  else if t =? 4 then Ok (CCall f1)
  else if t =? 5 then                                               (* cls(address, data): the constructor checks the length *)
    (let d := take_n (4 * f2) body in if nlen d mod 4 =? 0 then Ok (CProgFuses f1 d) else Err 1)
  else if t =? 6 then Ok (CProgIfr f1 (take_n f2 body))
  else if t =? 7 then load CLoadCmac
  else if t =? 8 then (if negb ext then Err 2 else if negb (e3 =? 0) then Err 1 else Ok (CCopy f1 f2 e0 e1 e2))
  else if t =? 9 then load CLoadHashLocking
  else if t =? 10 then                                              (* FORMAT "<L2H2L": offset and key wrap id are 16 bit *)
    (if nlen body <? f2 then Err 2
     else Ok (CLoadKeyBlob (le_dec (firstn 2 f1b)) (le_dec (skipn 2 f1b)) (take_n f2 body)))
  else if t =? 11 then Ok (CConfigureMemory f2 f1)
  else if t =? 12 then
    (if negb ext then Err 2
     else if negb (e1 =? e2) && negb (e2 =? e3) && negb (e3 =? 0) then Err 1       (* pad0 != pad1 != pad2 != 0 *)
     else Ok (CFillMemory f1 f2 e0))
  else if t =? 13 then (if f2 <? 6 then Ok (CFwVersionCheck f1 f2) else Err 1)
  else Ok CReset.

Definition parse_command (d : list N) : res cmd :=
  if Nat.ltb (length d) 4 then Err 2                                  (* struct.error *)
  else if negb (le_dec (firstn 4 d) =? SB_TAG) then Err 1
  else if Nat.ltb (length d) 16 then Err 2
  else
    let d1 := skipn 4 d in let d2 := skipn 4 d1 in let d3 := skipn 4 d2 in
    parse_body (firstn 4 d1) (le_dec (firstn 4 d2)) (le_dec (firstn 4 d3)) (skipn 4 d3).

(* ------------------------------------------------------------------ command stream and 256-byte chunks *)
Definition section_header (len : N) : list N := hdr4 1 1 len 0.     (* CmdSectionHeader(length).export() *)
Definition cmds_bytes (cs : list cmd) : list N := concat (map export_cmd cs).
Definition sb_stream (cs : list cmd) : list N := section_header (nlen (cmds_bytes cs)) ++ cmds_bytes cs.

(* total[i:i+256] for i in range(0, len, 256); the last chunk aligned to 256 with zeros *)
Fixpoint chunk_pad (fuel : nat) (l : list N) : list (list N) :=
  match fuel with
  | O => []
  | S f => if Nat.leb (length l) 256 then [sb_align 256 l] else firstn 256 l :: chunk_pad f (skipn 256 l)
  end.
Definition data_chunks (total : list N) : list (list N) := chunk_pad (S (Nat.div (length total) 256)) total.

(* ------------------------------------------------------------------ option monad for the loader *)
Definition obind {A B} (o : option A) (f : A -> option B) : option B := match o with Some a => f a | None => None end.
Notation "'do' x <- a ; b" := (obind a (fun x => b)) (at level 200, x pattern, a at level 100, b at level 200).
Definition guard (b : bool) : option unit := if b then Some tt else None.

Definition rd (n : nat) (l : list N) : option (list N * list N) :=
  if Nat.ltb (length l) n then None else Some (firstn n l, skipn n l).
(* the same with a length taken from a field: compared before it is converted *)
Definition rdn (n : N) (l : list N) : option (list N * list N) :=
  if nlen l <? n then None else rd (N.to_nat n) l.
Definition rdw (l : list N) : option (N * list N) := do (a, r) <- rd 4 l; Some (le_dec a, r).
Definition all_zero (l : list N) : bool := forallb (N.eqb 0) l.
(* `len` bytes followed by zero padding up to a multiple of 16 *)
Definition rd_padded (len : N) (l : list N) : option (list N * list N) :=
  do (d, r) <- rdn len l; do (p, r') <- rd (padlen 16 (length d)) r; do _ <- guard (all_zero p); Some (d, r').
Definition rd_ext (l : list N) : option (N * N * N * N * list N) :=
  do (a, r) <- rdw l; do (b, r) <- rdw r; do (c, r) <- rdw r; do (d, r) <- rdw r; Some (a, b, c, d, r).

(* one command of the loader's command set; returns the rest of the stream *)
Definition rom_cmd (s : list N) : option (cmd * list N) :=
  do (tag, r) <- rdw s;
  do _ <- guard (tag =? SB_TAG);
  do (f1b, r) <- rd 4 r;
  do (f2, r) <- rdw r;
  do (t, r) <- rdw r;
  let f1 := le_dec f1b in
  let ranged (mk : N -> N -> N -> cmd) :=
    do (e0, e1, e2, e3, r') <- rd_ext r; do _ <- guard ((e1 =? 0) && (e2 =? 0) && (e3 =? 0)); Some (mk f1 f2 e0, r') in
  let load (mk : N -> N -> list N -> cmd) (trailer : nat) :=
    do (e0, e1, e2, e3, r') <- rd_ext r; do _ <- guard ((e1 =? 0) && (e2 =? 0) && (e3 =? 0));
    do (d, r'') <- rd_padded f2 r';
    do (z, r''') <- rd trailer r''; do _ <- guard (all_zero z); Some (mk f1 e0 d, r''') in
  if t =? 1 then ranged CErase
  else if t =? 2 then load CLoad 0%nat
  else if t =? 3 then do _ <- guard (f2 =? 0); Some (CExecute f1, r)
  else if t =? 4 then do _ <- guard (f2 =? 0); Some (CCall f1, r)
  else if t =? 5 then do (d, r') <- rd_padded (4 * f2) r; Some (CProgFuses f1 d, r')
  else if t =? 6 then do (d, r') <- rd_padded f2 r; Some (CProgIfr f1 d, r')
  else if t =? 7 then load CLoadCmac 0%nat
  else if t =? 8 then
    do (e0, e1, e2, e3, r') <- rd_ext r; do _ <- guard (e3 =? 0); Some (CCopy f1 f2 e0 e1 e2, r')
  else if t =? 9 then load CLoadHashLocking 64%nat
  else if t =? 10 then
    do (d, r') <- rd_padded f2 r; Some (CLoadKeyBlob (le_dec (firstn 2 f1b)) (le_dec (skipn 2 f1b)) d, r')
  else if t =? 11 then Some (CConfigureMemory f2 f1, r)
  else if t =? 12 then ranged (fun a l p => CFillMemory a l p)
  else if t =? 13 then do _ <- guard (f2 <? 6); Some (CFwVersionCheck f1 f2, r)
  else if t =? 14 then do _ <- guard ((f1 =? 0) && (f2 =? 0)); Some (CReset, r)
  else None.

Fixpoint rom_cmds (fuel : nat) (s : list N) : option (list cmd) :=
  match s with
  | [] => Some []
  | _ => match fuel with
         | O => None
         | S f => do (c, r) <- rom_cmd s; do cs <- rom_cmds f r; Some (c :: cs)
         end
  end.

(* ------------------------------------------------------------------ container input, state, decoded output *)
Record sb_input : Type := mk_input {
  i_encrypted : bool;
  i_pck : list N;                  (* part common key *)
  i_rights : N;                    (* kdk access rights *)
  i_timestamp : N;
  i_fwver : N;
  i_flags : N;
  i_nxp : bool;                    (* image type 7 / 6 *)
  i_descr : list N;                (* description, code points ([] = None) *)
  i_cmds : list cmd;
  i_cert : list N;                 (* exported certificate block v2.1 (obligation) *)
  i_cert_expected : N              (* CertBlockV21.expected_size *)
}.

Record sb_state : Type := mk_state { s_final_hash : list N; s_block_count : N; s_total_len : N }.

Record rom_out : Type := mk_out {
  o_fwver : N; o_timestamp : N; o_flags : N; o_image_type : N; o_descr : list N;
  o_block_count : N; o_total_len : N;
  o_cmds : list cmd;
  o_signed : list N;               (* the message the signature must verify: header || H(block 1) || cert block *)
  o_cert : list N;
  o_sig : list N
}.

Definition descr16 (s : list N) : list N := let d := firstn 16 s in d ++ zeros (16 - length d).
Definition SB_MAGIC : list N := [115; 98; 118; 51].                 (* b"sbv3" *)

(* the documented KDF: counter mode, PRF = CMAC, fixed input = label || context || [L]_32 || [i]_32 *)
Fixpoint n_range (start : N) (count : nat) : list N :=
  match count with O => [] | S c => start :: n_range (start + 1) c end.

Section Sb31.
Variable Hf : list N -> list N.        (* block hash *)
Variable hl : nat.                     (* its length: 32 / 48 *)
Variable k256 : bool.                  (* derived keys have 256 bits (SHA-384 containers) / 128 bits *)
Variable E D : list N -> blk -> blk.   (* keyed 16-byte block cipher *)
Variable Mac : list N -> list N -> list N.

Definition kdf_counter_mode (key label context : list N) (lbits : N) : list N :=
  concat (map (fun i => Mac key (label ++ context ++ be_enc 4 lbits ++ be_enc 4 i)) (n_range 1 (N.to_nat (lbits / 128)))).
Definition kdf_context (rights : N) (mode_kdk : bool) : list N :=
  zeros 8 ++ [64 * rights; if mode_kdk then 1 else 16; 0; if k256 then 33 else 32].

(* functions.py, as written: _get_key_derivation_data + _derive_key *)
Definition key_bits : N := if k256 then 256 else 128.
Definition kdf_data (const rights : N) (mode_kdk : bool) (iteration : N) : list N :=
  let label := le_enc 12 const in
  let context := zeros 8 ++ be_enc 1 (N.shiftl rights 6) ++ (if mode_kdk then [1] else [16]) ++ zeros 1
                 ++ be_enc 1 (if key_bits =? 128 then 32 else 33) in
  label ++ context ++ be_enc 4 key_bits ++ be_enc 4 iteration.
Definition sb_derive (key : list N) (const rights : N) (mode_kdk : bool) : list N :=
  let r := Mac key (kdf_data const rights mode_kdk 1) in
  if key_bits =? 256 then r ++ Mac key (kdf_data const rights mode_kdk 2) else r.
Definition sb_kdk (pck : list N) (ts rights : N) : list N := sb_derive pck ts rights true.
Definition sb_block_key (kdk : list N) (n rights : N) : list N := sb_derive kdk n rights false.

(* _process_block: returns the full block; the caller replaces final_hash by its hash *)
Definition process_block (enc : bool) (kdk : list N) (rights : N) (final_hash : list N) (n : N) (chunk : list N) : list N :=
  let body := if enc then cbc_enc (E (sb_block_key kdk n rights)) (zeros 16) (sb_align 16 chunk) else chunk in
  le_enc 4 n ++ final_hash ++ body.

(* process_cmd_blocks_to_export: final_hash := zeros; blocks taken last to first; output joined first to last *)
Definition process_blocks (enc : bool) (kdk : list N) (rights : N) (chunks : list (list N)) : list N * list (list N) :=
  let numbered := combine (n_range 1 (length chunks)) chunks in
  fold_left (fun (acc : list N * list (list N)) (nc : N * list N) =>
               let b := process_block enc kdk rights (fst acc) (fst nc) (snd nc) in (Hf b, b :: snd acc))
            (rev numbered) (zeros hl, []).

Definition block_size : N := 4 + 256 + N.of_nat hl.
Definition cert_offset : N := 60 + N.of_nat hl.

Definition sb_header (x : sb_input) (block_count total_len : N) : list N :=
  SB_MAGIC ++ le_enc 2 1 ++ le_enc 2 3 ++ le_enc 4 (i_flags x) ++ le_enc 4 block_count ++ le_enc 4 block_size
  ++ le_enc 8 (i_timestamp x) ++ le_enc 4 (i_fwver x) ++ le_enc 4 total_len ++ le_enc 4 (if i_nxp x then 7 else 6)
  ++ le_enc 4 cert_offset ++ descr16 (i_descr x).

Definition init_state : sb_state := mk_state (zeros hl) 0 60.

(* SecureBinary31(...) constructor checks that can fail *)
Definition construct_check (x : sb_input) : res unit :=
  if negb (forallb (fun c => c <? 128) (i_descr x)) then Err 2                    (* UnicodeEncodeError *)
  else if negb (i_encrypted x) then Ok tt
  else if negb (i_rights x <? 4) then Err 1                                       (* Invalid kdk access rights *)
  else if negb (i_timestamp x <? 2 ^ 96) then Err 2                               (* int.to_bytes OverflowError *)
  else if negb (aes_key_ok (i_pck x)) then Err 2                                  (* ValueError: invalid AES key size *)
  else Ok tt.

(* SecureBinary31.export(): state in, state out.  `sig` is what the signature provider returns for this call. *)
Definition build31 (s : sb_state) (x : sb_input) (sig : list N) : res (sb_state * list N) :=
  if s_total_len s <? 60 then Err 1                                               (* sb_header.validate() *)
  else if negb (forallb cmd_in_range (i_cmds x)) then Err 2                       (* struct.error in command.export() *)
  else
    let chunks := data_chunks (sb_stream (i_cmds x)) in
    let kdk := sb_kdk (i_pck x) (i_timestamp x) (i_rights x) in
    let '(fh, blocks) := process_blocks (i_encrypted x) kdk (i_rights x) chunks in
    let bc := nlen chunks in
    let tl := 60 + N.of_nat hl + i_cert_expected x + 2 * N.of_nat hl in
    if negb (u32b (i_flags x) && u32b bc && (i_timestamp x <? U64) && u32b (i_fwver x) && u32b tl) then Err 2
    else Ok (mk_state fh bc tl, sb_header x bc tl ++ fh ++ i_cert x ++ sig ++ concat blocks).

(* several export() calls on one object, one signature per call *)
Fixpoint exports (s : sb_state) (x : sb_input) (sigs : list (list N)) : res (sb_state * list (list N)) :=
  match sigs with
  | [] => Ok (s, [])
  | sg :: more =>
      match build31 s x sg with
      | Err k => Err k
      | Ok (s', f) => match exports s' x more with
                      | Err k => Err k
                      | Ok (s'', fs) => Ok (s'', f :: fs)
                      end
      end
  end.

(* ------------------------------------------------------------------ the loader (specification) *)
(* forward walk: block n must hash to `expected`, carry number n and the hash of block n+1; the last one carries zeros *)
Fixpoint rom_walk (enc : bool) (kdk : list N) (rights : N) (count : nat) (n : N) (expected : list N) (rest : list N)
  : option (list (list N)) :=
  match count with
  | O => do _ <- guard (eqb_list expected (zeros hl)); do _ <- guard (Nat.eqb (length rest) 0); Some []
  | S c =>
      do (b, rest') <- rd (N.to_nat block_size) rest;
      do _ <- guard (eqb_list (Hf b) expected);
      do (num, r1) <- rdw b;
      do _ <- guard (num =? n);
      do (next, payload) <- rd hl r1;
      let plain := if enc then cbc_dec (D (kdf_counter_mode kdk (le_enc 12 n) (kdf_context rights false) key_bits))
                                       (zeros 16) payload else payload in
      do more <- rom_walk enc kdk rights c (n + 1) next rest';
      Some (plain :: more)
  end.

(* the fixed-size front: header (60 bytes) and H(block 1) *)
Record rom_hdr : Type := mk_hdr { h_flags : N; h_bcount : N; h_ts : N; h_fw : N; h_tl : N; h_itype : N; h_descr : list N;
                                  h_hash1 : list N }.
Definition rom_header (pre : list N) : option rom_hdr :=
  do (magic, r) <- rd 4 pre;
  do _ <- guard (eqb_list magic SB_MAGIC);
  do (minor, r) <- rd 2 r; do (major, r) <- rd 2 r;
  do _ <- guard ((le_dec minor =? 1) && (le_dec major =? 3));
  do (flags, r) <- rdw r; do (bcount, r) <- rdw r; do (bsize, r) <- rdw r;
  do (tsb, r) <- rd 8 r; do (fw, r) <- rdw r; do (tl, r) <- rdw r; do (itype, r) <- rdw r; do (coff, r) <- rdw r;
  do (descr, r) <- rd 16 r;
  do _ <- guard ((bsize =? block_size) && (coff =? cert_offset) && ((itype =? 6) || (itype =? 7)) && (1 <=? bcount));
  do (hash1, r) <- rd hl r;
  do _ <- guard (Nat.eqb (length r) 0);
  Some (mk_hdr flags bcount (le_dec tsb) fw tl itype descr hash1).

Definition rom31_g (enc : bool) (pck : list N) (rights : N) (f : list N) : option rom_out :=
  do (pre, r) <- rd (60 + hl) f;
  do h <- rom_header pre;
  let siglen := (2 * hl)%nat in
  let tl := h_tl h in
  (* block 0 = header, hash, certificate block, signature; then exactly block_count blocks: no byte is left over *)
  do _ <- guard ((N.of_nat (60 + hl + siglen) <=? tl) && (nlen f =? tl + h_bcount h * block_size));
  let tln := N.to_nat tl in
  do (cert, r) <- rd (tln - siglen - 60 - hl) r;
  do (sig, blocks) <- rd siglen r;
  let kdk := kdf_counter_mode pck (le_enc 12 (h_ts h)) (kdf_context rights true) key_bits in
  do plains <- rom_walk enc kdk rights (N.to_nat (h_bcount h)) 1 (h_hash1 h) blocks;
  let stream := concat plains in
  do (uid, s1) <- rdw stream; do (stype, s1) <- rdw s1; do (slen, s1) <- rdw s1; do (spad, s1) <- rdw s1;
  do _ <- guard ((uid =? 1) && (stype =? 1) && (spad =? 0));
  do (body, padding) <- rdn slen s1;
  do _ <- guard (all_zero padding && Nat.ltb (length padding) 256);
  do cmds <- rom_cmds (length body) body;
  Some (mk_out (h_fw h) (h_ts h) (h_flags h) (h_itype h) (h_descr h) (h_bcount h) tl cmds (firstn (tln - siglen) f) cert sig).
End Sb31.

(* ------------------------------------------------------------------ concrete instances *)
Definition aes_E (key : list N) : blk -> blk := let rks := key_expansion key in cipher_rks rks.
Definition aes_D (key : list N) : blk -> blk := let rks := key_expansion key in inv_cipher_rks rks.
Definition sha_of (b384 : bool) : list N -> list N := if b384 then sha384 else sha256.
Definition hl_of (b384 : bool) : nat := if b384 then 48%nat else 32%nat.

Definition build31_c (b384 : bool) := build31 (sha_of b384) (hl_of b384) b384 aes_E aes_cmac.
Definition exports_c (b384 : bool) := exports (sha_of b384) (hl_of b384) b384 aes_E aes_cmac.
Definition init_state_c (b384 : bool) := init_state (hl_of b384).
(* the loader picks the hash from the block size field *)
Definition rom31 (enc : bool) (pck : list N) (rights : N) (f : list N) : option rom_out :=
  let bsize := le_dec (slice f 16 20) in
  if bsize =? 292 then rom31_g sha256 32 false aes_D aes_cmac enc pck rights f
  else if bsize =? 308 then rom31_g sha384 48 true aes_D aes_cmac enc pck rights f
  else None.

(* ------------------------------------------------------------------ run_case *)
Definition zN (z : Z) : N := if (z <? 0)%Z then U64 * U64 else Z.to_N z.      (* negative = out of every field range *)
Definition zb (z : Z) : bool := negb (z =? 0)%Z.

Definition cmd_of_value (v : value) : option cmd :=
  match v with
  | VList [VInt 1; VInt a; VInt l; VInt m] => Some (CErase (zN a) (zN l) (zN m))
  | VList [VInt 2; VInt a; VInt m; VBytes d] => Some (CLoad (zN a) (zN m) d)
  | VList [VInt 3; VInt a] => Some (CExecute (zN a))
  | VList [VInt 4; VInt a] => Some (CCall (zN a))
  | VList [VInt 5; VInt a; VBytes d] => Some (CProgFuses (zN a) d)
  | VList [VInt 6; VInt a; VBytes d] => Some (CProgIfr (zN a) d)
  | VList [VInt 7; VInt a; VInt m; VBytes d] => Some (CLoadCmac (zN a) (zN m) d)
  | VList [VInt 8; VInt a; VInt l; VInt dst; VInt mf; VInt mt] => Some (CCopy (zN a) (zN l) (zN dst) (zN mf) (zN mt))
  | VList [VInt 9; VInt a; VInt m; VBytes d] => Some (CLoadHashLocking (zN a) (zN m) d)
  | VList [VInt 10; VInt o; VInt k; VBytes d] => Some (CLoadKeyBlob (zN o) (zN k) d)
  | VList [VInt 11; VInt a; VInt m] => Some (CConfigureMemory (zN a) (zN m))
  | VList [VInt 12; VInt a; VInt l; VInt p] => Some (CFillMemory (zN a) (zN l) (zN p))
  | VList [VInt 13; VInt v; VInt c] => Some (CFwVersionCheck (zN v) (zN c))
  | VList [VInt 14] => Some CReset
  | _ => None
  end%Z.

Definition vn (n : N) : value := VInt (Z.of_N n).
Definition value_of_cmd (c : cmd) : value :=
  match c with
  | CErase a l m => VList [VInt 1; vn a; vn l; vn m]
  | CLoad a m d => VList [VInt 2; vn a; vn m; VBytes d]
  | CExecute a => VList [VInt 3; vn a]
  | CCall a => VList [VInt 4; vn a]
  | CProgFuses a d => VList [VInt 5; vn a; VBytes d]
  | CProgIfr a d => VList [VInt 6; vn a; VBytes d]
  | CLoadCmac a m d => VList [VInt 7; vn a; vn m; VBytes d]
  | CCopy a l dst mf mt => VList [VInt 8; vn a; vn l; vn dst; vn mf; vn mt]
  | CLoadHashLocking a m d => VList [VInt 9; vn a; vn m; VBytes d]
  | CLoadKeyBlob o k d => VList [VInt 10; vn o; vn k; VBytes d]
  | CConfigureMemory a m => VList [VInt 11; vn a; vn m]
  | CFillMemory a l p => VList [VInt 12; vn a; vn l; vn p]
  | CFwVersionCheck v c => VList [VInt 13; vn v; vn c]
  | CReset => VList [VInt 14]
  end%Z.

Fixpoint cmds_of_values (l : list value) : option (list cmd) :=
  match l with
  | [] => Some []
  | v :: t => match cmd_of_value v, cmds_of_values t with Some c, Some cs => Some (c :: cs) | _, _ => None end
  end.
Fixpoint bytes_list_of_values (l : list value) : option (list (list N)) :=
  match l with
  | [] => Some []
  | VBytes b :: t => match bytes_list_of_values t with Some bs => Some (b :: bs) | None => None end
  | _ => None
  end.

Definition value_of_out (o : rom_out) : value :=
  VList [vn (o_fwver o); vn (o_timestamp o); vn (o_flags o); vn (o_image_type o); VBytes (o_descr o); vn (o_block_count o);
         vn (o_total_len o); VList (map value_of_cmd (o_cmds o)); vnat (length (o_signed o)); VBytes (o_cert o); VBytes (o_sig o)].

(* run_case:
   1 [cmd]                         construction and export of one command
   2 [bytes]                       parse_command
   3 [cmds]                        get_cmd_blocks_to_export (list of 256-byte chunks)
   4 [sha384; enc; pck; rights; ts; fw; flags; nxp; descr; cmds; cert; cert_expected; sigs]
                                   constructor + one export() per signature on one object: list of files
   5 [enc; pck; rights; file]      the loader model on a file
   6 [k256; pck; ts; rights; n]    KeyDerivator(pck, ts, key_length, rights).get_block_key(n) *)
Definition run_case (fn : Z) (args : list value) : value :=
  match fn, args with
  | 1%Z, [v] => match cmd_of_value v with
                | Some c => if negb (cmd_constructible c) then VErr 1
                            else if cmd_in_range c then VBytes (export_cmd c) else VErr 2
                | None => VErr E_BADCASE
                end
  | 2%Z, [VBytes d] => vres value_of_cmd (parse_command d)
  | 3%Z, [VList cs] => match cmds_of_values cs with
                       | Some cmds => if negb (forallb cmd_constructible cmds) then VErr 1
                                      else if forallb cmd_in_range cmds then VList (map VBytes (data_chunks (sb_stream cmds)))
                                      else VErr 2
                       | None => VErr E_BADCASE
                       end
  | 4%Z, [VInt b384; VInt enc; VBytes pck; VInt rights; VInt ts; VInt fw; VInt flags; VInt nxp; VStr descr; VList cs;
          VBytes cert; VInt cexp; VList sigs] =>
      match cmds_of_values cs, bytes_list_of_values sigs with
      | Some cmds, Some sgs =>
          let x := mk_input (zb enc) pck (zN rights) (zN ts) (zN fw) (zN flags) (zb nxp) descr cmds cert (zN cexp) in
          match construct_check x with
          | Err k => VErr k
          | Ok _ => if negb (forallb cmd_constructible cmds) then VErr 1 else       (* add_command(Cmd...(...)) *)
                    match exports_c (zb b384) (init_state_c (zb b384)) x sgs with
                    | Ok (_, fs) => VList (map VBytes fs)
                    | Err k => VErr k
                    end
          end
      | _, _ => VErr E_BADCASE
      end
  | 5%Z, [VInt enc; VBytes pck; VInt rights; VBytes f] => vopt value_of_out (rom31 (zb enc) pck (zN rights) f)
  | 6%Z, [VInt k256; VBytes pck; VInt ts; VInt rights; VInt n] =>
      VBytes (sb_block_key (zb k256) aes_cmac (sb_kdk (zb k256) aes_cmac pck (zN ts) (zN rights)) (zN n) (zN rights))
  | _, _ => VErr E_BADCASE
  end.

(* ------------------------------------------------------------------ sanity checks against SPSDK's own test vectors *)
(* tests/sbfile/sb31/test_functions.py::test_key_derivator *)
Example kdf_vector :
  let pck := unhex [50;52;101;53;49;55;100;52;97;99;52;49;55;55;51;55;50;51;53;98;54;101;102;99;57;97;102;99;101;100;56;50;
                    50;52;101;53;49;55;100;52;97;99;52;49;55;55;51;55;50;51;53;98;54;101;102;99;57;97;102;99;101;100;56;50] in
  let kdk := sb_kdk false aes_cmac pck 666954108 3 in
  kdk = [117;29;8;2;188;158;185;173;180;43;104;212;8;128;170;110] /\
  sb_block_key false aes_cmac kdk 10 3 = [64;144;47;121;221;14;195;113;48;127;112;105;89;10;208;122].
Proof. vm_compute. split; reflexivity. Qed.
(* test_get_key_derivation_data, first vector *)
Example kdf_data_vector :
  kdf_data true 15 3 false 1 = [15;0;0;0;0;0;0;0;0;0;0;0; 0;0;0;0;0;0;0;0;192;16;0;33; 0;0;1;0; 0;0;0;1].
Proof. vm_compute. reflexivity. Qed.
