(* Model/MiscModel.v -- hand-written faithful models of spsdk.utils.misc string/bytes helpers
   and spsdk.sbfile.misc.BcdVersion3 (C20).  Integer helpers (align, check_range, swap16,
   get_bytes_cnt_of_int) are NOT here: they are translated from source into Gen/GenMisc.v.
   Domain: strings are lists of code points < 128 (ASCII); see DESIGN.md C20. *)
From Coq Require Import ZArith NArith List Bool.
Require Import Value Bytes GenMisc.
Import ListNotations.
Local Open Scope Z_scope.

(* ---------- characters (code points as N) ---------- *)
Definition nle (a b : N) : bool := N.leb a b.
Definition is_space (c : N) : bool :=   (* str.strip() on ASCII: \t\n\v\f\r, 0x1c-0x1f, space *)
  (nle 9 c && nle c 13) || (nle 28 c && nle c 32).
Definition lower_ch (c : N) : N := if nle 65 c && nle c 90 then (c + 32)%N else c.
Definition is_digit (c : N) : bool := nle 48 c && nle c 57.
Definition is_hexlow (c : N) : bool := nle 97 c && nle c 102.
Definition is_numch (c : N) : bool := is_digit c || is_hexlow c || N.eqb c 95.
Definition is_sufch (c : N) : bool := N.eqb c 117 || N.eqb c 108.      (* u l *)

Fixpoint lstrip (s : list N) : list N :=
  match s with
  | c :: t => if is_space c then lstrip t else s
  | [] => []
  end.
Definition strip (s : list N) : list N := rev (lstrip (rev (lstrip s))).
Definition lower (s : list N) : list N := map lower_ch s.

(* ---------- Python int(text, base) restricted to text over [0-9a-f_] ---------- *)
Definition digit_val (c : N) : option Z :=
  if is_digit c then Some (Z.of_N c - 48)
  else if is_hexlow c then Some (Z.of_N c - 87)
  else None.

Fixpoint int_digits (base : Z) (s : list N) (acc : Z) (prev_digit : bool) : option Z :=
  match s with
  | [] => if prev_digit then Some acc else None
  | c :: t =>
      if N.eqb c 95 then (if prev_digit then int_digits base t acc false else None)
      else match digit_val c with
           | Some d => if d <? base then int_digits base t (acc * base + d) true else None
           | None => None
           end
  end.

(* CPython PyLong_FromString: a "0b" prefix is consumed when base = 2 (the only base prefix that can
   occur inside [0-9a-f_]), then one underscore is allowed. *)
Definition py_int (base : Z) (s : list N) : option Z :=
  match s with
  | 48%N :: 98%N :: t =>
      if base =? 2 then
        match t with
        | 95%N :: t' => int_digits 2 t' 0 false
        | _ => int_digits 2 t 0 false
        end
      else int_digits base s 0 false
  | _ => int_digits base s 0 false
  end.

(* ---------- the regex (?P<prefix>0[box])?(?P<number>[0-9a-f_]+)(?P<suffix>[ul]{0,3})$ ---------- *)
Fixpoint span_num (s : list N) : list N * list N :=
  match s with
  | c :: t => if is_numch c then let '(a, b) := span_num t in (c :: a, b) else ([], s)
  | [] => ([], [])
  end.

Definition match_noprefix (s : list N) : option (list N) :=
  let '(num, rest) := span_num s in
  match num with
  | [] => None
  | _ => if (Nat.leb (length rest) 3) && forallb is_sufch rest then Some num else None
  end.

Definition prefix_base (p : N) : option Z :=
  if N.eqb p 98 then Some 2 else if N.eqb p 111 then Some 8 else if N.eqb p 120 then Some 16 else None.

(* returns (base, number text) as re.match would bind the groups (prefix tried first, then backtrack) *)
Definition regex_match (s : list N) : option (Z * list N) :=
  let fallback := match match_noprefix s with Some n => Some (10, n) | None => None end in
  match s with
  | 48%N :: p :: rest =>
      match prefix_base p with
      | Some b => match match_noprefix rest with Some n => Some (b, n) | None => fallback end
      | None => fallback
      end
  | _ => fallback
  end.

Definition value_to_int_str (s : list N) : res Z :=
  match s with
  | [] => Err 1%N
  | _ => match regex_match (lower (strip s)) with
         | Some (b, num) => match py_int b num with Some v => Ok v | None => Err 1%N end
         | None => Err 1%N
         end
  end.

(* ---------- value_to_bytes (int branch) ---------- *)
Definition bytes_fuel (v : Z) : nat := S (Z.to_nat (Z.log2 (Z.abs v))).

Definition int_to_bytes (v : Z) (cnt : Z) (big : bool) : res (list N) :=
  (* Python int.to_bytes: OverflowError for negative or too big values *)
  if (v <? 0) || (cnt <? 0) then Err 2%N
  else if 2 ^ (8 * cnt) <=? v then Err 2%N
  else Ok ((if big then be_enc else le_enc) (Z.to_nat cnt) (Z.to_N v)).

Definition value_to_bytes_int (v : Z) (align_to_2n : bool) (byte_cnt : Z) (big : bool) : res (list N) :=
  match py_get_bytes_cnt_of_int (bytes_fuel v) v align_to_2n byte_cnt with
  | Ok cnt => int_to_bytes v cnt big
  | Err e => Err e
  end.

Definition value_to_bytes_str (s : list N) (align_to_2n : bool) (byte_cnt : Z) (big : bool) : res (list N) :=
  match value_to_int_str s with
  | Ok v => value_to_bytes_int v align_to_2n byte_cnt big
  | Err e => Err e
  end.

(* ---------- BinaryPattern / align_block / extend_block ---------- *)
Inductive pattern := PZeros | POnes | PInc | PNum (v : Z).   (* "rand" is an RNG oracle, not modelled *)

Fixpoint inc_block (n : nat) (start : N) : list N :=
  match n with O => [] | S k => (start mod 256)%N :: inc_block k (start + 1)%N end.

Fixpoint cycle_fuel (n : nat) (pat cur : list N) : list N :=
  match n with
  | O => []
  | S k => match cur with
           | c :: t => c :: cycle_fuel k pat t
           | [] => match pat with
                   | c :: t => c :: cycle_fuel k pat t
                   | [] => []
                   end
           end
  end.

Definition pattern_block (p : pattern) (size : nat) : res (list N) :=
  match p with
  | PZeros => Ok (repeat 0%N size)
  | POnes => Ok (repeat 255%N size)
  | PInc => Ok (inc_block size 0)
  | PNum v => match value_to_bytes_int v false 0 true with
              | Ok pat => Ok (cycle_fuel size pat pat)
              | Err e => Err e
              end
  end.

Definition align_block (data : list N) (alignment : Z) (p : pattern) : res (list N) :=
  if alignment <? 0 then Err 1%N
  else match py_align (Z.of_nat (length data)) alignment with
       | Err e => Err e
       | Ok al =>
           let npad := Z.to_nat (al - Z.of_nat (length data)) in
           match npad with
           | O => Ok data
           | _ => match pattern_block p npad with
                  | Ok blk => Ok (data ++ blk)
                  | Err e => Err e
                  end
           end
       end.

Definition extend_block (data : list N) (len : Z) (padding : Z) : res (list N) :=
  if len <? Z.of_nat (length data) then Err 1%N
  else let npad := Z.to_nat (len - Z.of_nat (length data)) in
       match npad with
       | O => Ok data
       | _ => if (padding <? 0) || (255 <? padding) then Err 2%N     (* bytes([padding]) -> ValueError *)
              else Ok (data ++ repeat (Z.to_N padding) npad)
       end.

(* ---------- byte-order helpers ---------- *)
Definition swap32 (x : Z) : res Z :=
  if (x <? 0) || (4294967295 <? x) then Err 1%N
  else Ok (Z.of_N (le_dec (be_enc 4 (Z.to_N x)))).

Fixpoint rev_longs_fuel (fuel : nat) (l : list N) : list N :=
  match fuel with
  | O => []
  | S f => match l with
           | [] => []
           | _ => rev (firstn 4 l) ++ rev_longs_fuel f (skipn 4 l)
           end
  end.

Definition reverse_bytes_in_longs (l : list N) : res (list N) :=
  if Nat.eqb (Nat.modulo (length l) 4) 0 then Ok (rev_longs_fuel (length l) l) else Err 1%N.

Definition change_endianness (l : list N) : res (list N) :=
  match length l with
  | 1%nat => Ok l
  | 2%nat => Ok (rev l)
  | 3%nat => Err 1%N
  | _ => reverse_bytes_in_longs l
  end.

Fixpoint swap_pairs (l : list N) : list N :=
  match l with
  | a :: b :: t => b :: a :: swap_pairs t
  | _ => []
  end.
(* odd length is rejected with SPSDKValueError *)
Definition swap_bytes (l : list N) : res (list N) :=
  if Nat.even (length l) then Ok (swap_pairs l) else Err 1%N.

(* bits of x, least significant first, exactly w of them *)
Fixpoint bits_lsb (w : nat) (x : N) : list bool :=
  match w with O => [] | S k => N.odd x :: bits_lsb k (N.div2 x) end.
Fixpoint of_bits_msb (l : list bool) (acc : N) : N :=
  match l with [] => acc | b :: t => of_bits_msb t (2 * acc + (if b then 1 else 0))%N end.

(* "{:0{bits}b}".format(x)[::-1] read in base 2: width = max(bits, bit length of x, 1) *)
Definition reverse_bits (x : Z) (bits : Z) : res Z :=
  if (x <? 0) || (bits <? 0) then Err 2%N
  else
    let w := Nat.max (Nat.max (Z.to_nat bits) (N.to_nat (N.size (Z.to_N x)))) 1 in
    Ok (Z.of_N (of_bits_msb (bits_lsb w (Z.to_N x)) 0)).

(* ---------- BcdVersion3 ---------- *)
(* _check_number *)
Definition bcd_check (num : Z) : bool :=
  (0 <=? num) && (num <=? 39321) &&
  (Z.land num 15 <=? 9) && (Z.land (Z.shiftr num 4) 15 <=? 9) &&
  (Z.land (Z.shiftr num 8) 15 <=? 9) && (Z.land (Z.shiftr num 12) 15 <=? 9).

(* Python int(text, 16) on arbitrary ASCII text: optional whitespace, sign, 0x prefix, underscores.
   Returns None for ValueError. *)
Definition hexdigit_val (c : N) : option Z :=
  let c := lower_ch c in digit_val c.

Fixpoint hex_digits (s : list N) (acc : Z) (prev_digit : bool) : option Z :=
  match s with
  | [] => if prev_digit then Some acc else None
  | c :: t =>
      if N.eqb c 95 then (if prev_digit then hex_digits t acc false else None)
      else match hexdigit_val c with
           | Some d => hex_digits t (acc * 16 + d) true
           | None => None
           end
  end.

Definition py_int16_text (s : list N) : option Z :=
  let s := strip s in
  let '(neg, s) := match s with
                   | 45%N :: t => (true, t)
                   | 43%N :: t => (false, t)
                   | _ => (false, s)
                   end in
  let body := match s with
              | 48%N :: x :: t => if N.eqb (lower_ch x) 120 then
                                     match t with 95%N :: t' => t' | _ => t end
                                   else s
              | _ => s
              end in
  match hex_digits body 0 false with
  | Some v => Some (if neg then - v else v)
  | None => None
  end.

Definition bcd_num_from_str (s : list N) : res Z :=
  if Nat.ltb 4 (length s) then Err 1%N
  else match py_int16_text s with
       | None => Err 1%N                       (* ValueError of int() is converted to SPSDKError *)
       | Some v => if bcd_check v then Ok v else Err 1%N
       end.

(* str.split(".") *)
Fixpoint split_dot (s : list N) (cur : list N) : list (list N) :=
  match s with
  | [] => [rev cur]
  | c :: t => if N.eqb c 46 then rev cur :: split_dot t [] else split_dot t (c :: cur)
  end.

Definition bcd_from_str (s : list N) : res (Z * Z * Z) :=
  match split_dot s [] with
  | [a; b; c] =>
      match bcd_num_from_str a with
      | Err e => Err e
      | Ok x => match bcd_num_from_str b with
                | Err e => Err e
                | Ok y => match bcd_num_from_str c with
                          | Err e => Err e
                          | Ok z => Ok (x, y, z)
                          end
                end
      end
  | _ => Err 1%N
  end.

Definition hexchar (d : Z) : N := if d <? 10 then Z.to_N (48 + d) else Z.to_N (55 + d).
(* f"{n:X}" for 0 <= n <= 0xFFFF *)
Definition hex_upper (n : Z) : list N :=
  let d3 := Z.land (Z.shiftr n 12) 15 in let d2 := Z.land (Z.shiftr n 8) 15 in
  let d1 := Z.land (Z.shiftr n 4) 15 in let d0 := Z.land n 15 in
  if 0 <? d3 then [hexchar d3; hexchar d2; hexchar d1; hexchar d0]
  else if 0 <? d2 then [hexchar d2; hexchar d1; hexchar d0]
  else if 0 <? d1 then [hexchar d1; hexchar d0]
  else [hexchar d0].

Definition bcd_to_str (v : Z * Z * Z) : list N :=
  let '(x, y, z) := v in hex_upper x ++ [46%N] ++ hex_upper y ++ [46%N] ++ hex_upper z.

(* ---------- run_case dispatcher for the correspondence check ---------- *)
Definition vbytes_res (r : res (list N)) : value := vres VBytes r.
Definition vint_res (r : res Z) : value := vres VInt r.
Definition zb (z : Z) : bool := negb (z =? 0).

Definition pat_of (tag v : Z) : pattern :=
  if tag =? 0 then PZeros else if tag =? 1 then POnes else if tag =? 2 then PInc else PNum v.

Definition run_case (fn : Z) (args : list value) : value :=
  match fn, args with
  | 1, [VInt n; VInt a] => vint_res (py_align n a)
  | 2, [VInt x; VInt lo; VInt hi] => vint_res (py_check_range x lo hi)
  | 3, [VInt x] => vint_res (py_swap16 x)
  | 4, [VInt v; VInt a2n; VInt bc] => vint_res (py_get_bytes_cnt_of_int (bytes_fuel v) v (zb a2n) bc)
  | 5, [VStr s] => vint_res (value_to_int_str s)
  | 6, [VInt v; VInt a2n; VInt bc; VInt big] => vbytes_res (value_to_bytes_int v (zb a2n) bc (zb big))
  | 7, [VStr s; VInt a2n; VInt bc; VInt big] => vbytes_res (value_to_bytes_str s (zb a2n) bc (zb big))
  | 8, [VBytes d; VInt al; VInt ptag; VInt pv] => vbytes_res (align_block d al (pat_of ptag pv))
  | 9, [VBytes d; VInt len; VInt pad] => vbytes_res (extend_block d len pad)
  | 10, [VInt x] => vint_res (swap32 x)
  | 11, [VBytes d] => vbytes_res (reverse_bytes_in_longs d)
  | 12, [VBytes d] => vbytes_res (change_endianness d)
  | 13, [VBytes d] => vbytes_res (swap_bytes d)
  | 14, [VInt x; VInt bits] => vint_res (reverse_bits x bits)
  | 15, [VStr s] => vres (fun v => VStr (bcd_to_str v)) (bcd_from_str s)
  | 16, [VInt sz; VInt ptag; VInt pv] => vbytes_res (pattern_block (pat_of ptag pv) (Z.to_nat sz))
  | _, _ => VErr E_BADCASE
  end.
