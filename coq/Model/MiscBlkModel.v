(* C20 extension: spsdk/sbfile/misc.py SecBootBlckSize (cipher-block size helpers every SB2.x section length goes
   through).  Hand model built ON the translated py_align of Gen/GenMisc.v; tied to the implementation by the
   correspondence stream "SecBootBlckSize" of tools/props/c20.py (function codes 19..22). *)
From Coq Require Import ZArith NArith List Bool.
Require Import Value Bytes GenMisc MiscModel MiscExtModel.
Import ListNotations.
Local Open Scope Z_scope.

Definition BLOCK_SIZE : Z := 16.

(* is_aligned: size % BLOCK_SIZE == 0   (Python % = Coq Z.modulo, also for negative sizes) *)
Definition sbb_is_aligned (size : Z) : bool := size mod BLOCK_SIZE =? 0.

(* align: misc.align(size, BLOCK_SIZE) *)
Definition sbb_align (size : Z) : res Z := py_align size BLOCK_SIZE.

(* to_num_blocks: SPSDKError unless aligned, else size // BLOCK_SIZE *)
Definition sbb_to_num_blocks (size : Z) : res Z :=
  if negb (sbb_is_aligned size) then Err 1%N else Ok (size / BLOCK_SIZE).

(* align_block_fill_zeros: misc.align_block(data, BLOCK_SIZE, padding=BinaryPattern("zeros")) *)
Definition sbb_align_block_fill_zeros (data : list N) : res (list N) := align_block data BLOCK_SIZE PZeros.

Definition run_case_blk (fn : Z) (args : list value) : value :=
  match fn, args with
  | 19, [VInt s] => vbool (sbb_is_aligned s)
  | 20, [VInt s] => vres VInt (sbb_align s)
  | 21, [VInt s] => vres VInt (sbb_to_num_blocks s)
  | 22, [VBytes d] => vres VBytes (sbb_align_block_fill_zeros d)
  | _, _ => run_case_ext fn args
  end.

Example blk_ex1 : run_case_blk 21 [VInt 48] = VInt 3 /\ run_case_blk 21 [VInt 47] = VErr 1 /\ run_case_blk 20 [VInt 17] = VInt 32
                  /\ run_case_blk 19 [VInt (-16)] = VInt 1 /\ run_case_blk 20 [VInt (-1)] = VErr 1.
Proof. vm_compute. repeat split; reflexivity. Qed.
Example blk_ex2 : run_case_blk 22 [VBytes [1; 2; 3]%N] = VBytes ([1; 2; 3] ++ repeat 0 13)%N.
Proof. vm_compute. reflexivity. Qed.
