(* Model/AhabModel.v -- C06: AHAB image as coded in spsdk/image/ahab/*.py (container version 1 layout in full:
   container header, image array entries, signature block with SRK table / signature / blob; image array entry flag
   layout of both container versions).  Executable definitions only; faithful to the code, defects included.

   Pipeline modelled (AHABImage.load_from_config -> update_fields -> export):
     build_iae            ImageArrayEntry.__init__ / load_from_config (image padded to the family's size alignment,
                          flags / meta-data words, IV = SHA-256(plain) when encrypted)
     container_update     AHABContainer.update_fields (encrypt with the DEK, signature block offsets, image size + hash)
     assign_offsets       the offset loop of AHABImage.update_fields
     container_export     AHABContainer.export  (header ++ image array ++ signature block)
     signed_data          AHABContainerBase.get_signature_data = export()[: sig block offset + signature offset]
     ahab_verify_ok       the ERROR conditions of AHABImage.verify reachable from a configuration
     ahab_export          AHABImage.export = BinaryImage tree export (zeros, containers block, data images)
   and, for the tamper analysis, container_parse (AHABContainer.parse) and its re-serialisation.

   Signatures are obligations: the signature bytes and the fact "verifies under the selected SRK" are inputs. *)
From Coq Require Import ZArith NArith List Bool.
Require Import Value Bytes Sha2 Aes Modes GenMisc GenAhab.
Import ListNotations.
Local Open Scope Z_scope.

(* ------------------------------------------------------------------ helpers *)
Definition zlen' {A} (l : list A) : Z := Z.of_nat (length l).
Definition le (w : nat) (z : Z) : list N := le_enc w (Z.to_N z).
Definition be (w : nat) (z : Z) : list N := be_enc w (Z.to_N z).
Definition fits (w : nat) (z : Z) : bool := (0 <=? z) && (z <? 2 ^ (8 * Z.of_nat w)).
(* misc.align for alignment > 0, number >= 0 *)
Definition zalign (n a : Z) : Z := (n + (a - 1)) / a * a.
(* struct 'Ns': truncate or zero-pad to N bytes *)
Definition fit_s (n : nat) (l : list N) : list N := firstn n l ++ repeat 0%N (n - length l).
(* align_block(data, a, padding=zeros) *)
Definition pad_to (a : Z) (l : list N) : list N := l ++ repeat 0%N (Z.to_nat (zalign (zlen' l) a - zlen' l)).
(* extend_block(data, n, 0): Err when n < len *)
Definition extend_to (n : Z) (l : list N) : res (list N) :=
  if n <? zlen' l then Err E_REJECT else Ok (l ++ repeat 0%N (Z.to_nat (n - zlen' l))).
(* python  buf[a:b] = d  on a bytearray *)
Definition py_set {A} (buf : list A) (a b : nat) (d : list A) : list A := firstn a buf ++ d ++ skipn (Nat.max a b) buf.
Definition zslice {A} (l : list A) (a b : Z) : list A := slice l (Z.to_nat a) (Z.to_nat b).
Fixpoint zmin_list (d : Z) (l : list Z) : Z := match l with [] => d | x :: t => Z.min x (zmin_list d t) end.
Fixpoint zmax_list (d : Z) (l : list Z) : Z := match l with [] => d | x :: t => Z.max x (zmax_list d t) end.
Fixpoint lookup (k : Z) (l : list (Z * Z)) : option Z :=
  match l with [] => None | (a, b) :: t => if a =? k then Some b else lookup k t end.
Fixpoint lookup2 (k : Z) (l : list (Z * (Z * Z))) : option (Z * Z) :=
  match l with [] => None | (a, b) :: t => if a =? k then Some b else lookup2 k t end.
Definition bit (z : Z) (off size : Z) : Z := Z.land (Z.shiftr z off) (2 ^ size - 1).

(* deterministic test data: byte i = (seed + i*step) mod 256 *)
Fixpoint gen_bytes (n : nat) (cur step : N) : list N :=
  match n with O => [] | S n' => cur :: gen_bytes n' ((cur + step) mod 256)%N step end.
(* BinaryPattern("inc").get_block(n): bytes 0,1,2,... mod 256 -- the dummy signature *)
Definition inc_block (n : nat) : list N := gen_bytes n 0%N 1%N.

(* ------------------------------------------------------------------ chip parameters *)
Record params := {
  p_v2 : bool;
  p_csize : Z;          (* CONTAINER_SIZE *)
  p_start : Z;          (* start_recommended_image_address *)
  p_tm_align : Z;       (* BINARY_IMAGE_ALIGNMENTS[target memory] *)
  p_serial : bool;      (* target memory = serial_downloader *)
  p_min_align : Z;      (* valid_offset_minimal_alignment *)
  p_size_align : Z;     (* container_image_size_alignment *)
  p_max_cnt : Z;
  p_max_img : Z;
  p_ele : list (Z * Z)  (* (core id, image type) pairs labelled "ele" *)
}.

Definition is_nand (tm : Z) : bool := (tm =? 2) || (tm =? 3).
Definition params_of (fam : gen_family) (tm : Z) (v2 : bool) : params :=
  let '(mc, mi, _, va, sa, _, ele) := fam in
  {| p_v2 := v2; p_csize := gen_container_size v2;
     p_start := if is_nand tm then gen_start_image_address_nand v2 else gen_start_image_address v2;
     p_tm_align := gen_tm_align tm; p_serial := tm =? 0; p_min_align := va; p_size_align := sa;
     p_max_cnt := mc; p_max_img := mi; p_ele := ele |}.

(* ------------------------------------------------------------------ configuration (what load_from_config reads) *)
Record image_cfg := {
  ic_data : list N; ic_offset : Z; ic_load : Z; ic_entry : Z; ic_type : Z; ic_core : Z; ic_hash : Z; ic_enc : bool;
  ic_boot : Z; ic_cpu : Z; ic_mu : Z; ic_part : Z; ic_gap : Z; ic_size_align : Z (* 0 = not given *) }.

Inductive pubkey := KRsa (bits n e : Z) | KEcc (bits x y : Z).

Record container_cfg := {
  cc_srk_set : Z; cc_used : Z; cc_revoke : Z; cc_gdet : Z; cc_fuse : Z; cc_sw : Z;
  cc_keys : list pubkey; cc_flag_ca : bool;
  cc_sigmode : Z;              (* 0 no signature container, 1 signed by a provider, 2 dummy place holder *)
  cc_sig : list N;             (* the provider's signature bytes (obligation input) *)
  cc_sig_ok : bool;            (* obligation input: the signature verifies under the selected SRK over signed_data *)
  cc_blob : option (Z * list N * Z);   (* DEK size in bits, DEK, key identifier *)
  cc_images : list image_cfg }.

(* ------------------------------------------------------------------ objects *)
Record iae := {
  i_raw_off : Z;               (* _image_offset (container relative) *)
  i_size : Z; i_load : Z; i_entry : Z; i_flags : Z; i_meta : Z;
  i_hash : list N; i_iv : list N;
  i_image : list N;            (* the bytes placed in the file (cipher text when encrypted) *)
  i_plain : list N; i_gap : Z; i_size_align : Z; i_ele : bool }.

Record srk_rec := { sr_alg : Z; sr_hash : Z; sr_ksize : Z; sr_flags : Z; sr_params : list N; sr_length : Z }.

Record blob := { b_size : Z; b_flags : Z; b_alg : Z; b_mode : Z; b_keyblob : list N; b_dek : list N; b_keyid : Z; b_length : Z }.

Record sigblock := {
  sb_length : Z; sb_srk_off : Z; sb_sig_off : Z; sb_cert_off : Z; sb_blob_off : Z;
  sb_srk : list srk_rec;       (* [] = no table (SRKTable.__bool__) *)
  sb_srk_length : Z;           (* SRKTable.length *)
  sb_sig : option (list N);    (* signature data of the signature container *)
  sb_sig_length : Z;           (* ContainerSignature.length *)
  sb_blob : option blob }.

Record container := {
  c_version : Z; c_flags : Z; c_fuse : Z; c_sw : Z; c_length : Z; c_coff : Z;
  c_images : list iae; c_sb : sigblock }.

(* ------------------------------------------------------------------ image array entry *)
Definition iae_flags (v2 : bool) (type core hash : Z) (enc : bool) (boot : Z) : Z :=
  Z.lor (Z.lor (Z.lor (Z.lor type (Z.shiftl core (gen_i_flags_core_id_offset v2))) (Z.shiftl hash (gen_i_flags_hash_offset v2)))
               (if enc then Z.shiftl 1 (gen_i_flags_is_encrypted_offset v2) else 0))
        (Z.shiftl boot (gen_i_flags_boot_flags_offset v2)).
Definition iae_meta (cpu mu part : Z) : Z := Z.lor (Z.lor cpu (Z.shiftl mu 10)) (Z.shiftl part 20).
Definition flags_type (v2 : bool) (f : Z) := bit f (gen_i_flags_type_offset v2) (gen_i_flags_type_size v2).
Definition flags_core (v2 : bool) (f : Z) := bit f (gen_i_flags_core_id_offset v2) (gen_i_flags_core_id_size v2).
Definition flags_hash (v2 : bool) (f : Z) := bit f (gen_i_flags_hash_offset v2) (gen_i_flags_hash_size v2).
Definition flags_enc (v2 : bool) (f : Z) : bool := negb (bit f (gen_i_flags_is_encrypted_offset v2) (gen_i_flags_is_encrypted_size v2) =? 0).
Definition is_ele (p : params) (f : Z) : bool :=
  existsb (fun ct => (fst ct =? flags_core (p_v2 p) f) && (snd ct =? flags_type (p_v2 p) f)) (p_ele p).

(* _get_valid_size *)
Definition valid_size (ele : bool) (size_align : Z) (img : list N) : Z :=
  match img with
  | [] => 0
  | _ => if size_align =? 0 then zalign (zlen' img) (if ele then 4 else 1) else zalign (zlen' img) size_align
  end.

Definition hash_of (tag : Z) (m : list N) : res (list N) :=
  if tag =? gen_hash_sha256 then Ok (sha256 m)
  else if tag =? gen_hash_sha384 then Ok (sha384 m)
  else if tag =? gen_hash_sha512 then Ok (sha512 m)
  else Err E_REJECT.

(* ImageArrayEntry built by load_from_config in a container at offset coff that is not locked *)
Definition build_iae (p : params) (coff : Z) (ic : image_cfg) : iae :=
  let flags := iae_flags (p_v2 p) (ic_type ic) (ic_core ic) (ic_hash ic) (ic_enc ic) (ic_boot ic) in
  let plain := pad_to (p_size_align p) (ic_data ic) in
  let ele := is_ele p flags in
  let preset := if p_serial p then 0 else ic_offset ic in
  {| i_raw_off := preset - coff; i_size := valid_size ele (ic_size_align ic) plain;
     i_load := ic_load ic; i_entry := ic_entry ic; i_flags := flags; i_meta := iae_meta (ic_cpu ic) (ic_mu ic) (ic_part ic);
     i_hash := []; i_iv := if flags_enc (p_v2 p) flags then sha256 plain else repeat 0%N 32;
     i_image := plain; i_plain := plain; i_gap := ic_gap ic; i_size_align := ic_size_align ic; i_ele := ele |}.

(* AhabBlob.encrypt_data with AES-CBC: key = DEK, IV = second half of the IV field *)
Definition blob_encrypt (dek iv plain : list N) : list N := cbc_enc (aes_enc dek) iv (pad_to 16 plain).
Definition blob_decrypt (dek iv ct : list N) : list N := cbc_dec (aes_dec dek) iv ct.

(* step 1 of AHABContainer.update_fields *)
Definition iae_encrypt (v2 : bool) (b : option blob) (e : iae) : iae :=
  match b with
  | Some bl =>
      if flags_enc v2 (i_flags e) then
        {| i_raw_off := i_raw_off e; i_size := i_size e; i_load := i_load e; i_entry := i_entry e; i_flags := i_flags e;
           i_meta := i_meta e; i_hash := i_hash e; i_iv := i_iv e;
           i_image := blob_encrypt (b_dek bl) (skipn 16 (i_iv e)) (i_plain e);
           i_plain := i_plain e; i_gap := i_gap e; i_size_align := i_size_align e; i_ele := i_ele e |}
      else e
  | None => e
  end.

(* ImageArrayEntry.update_fields *)
Definition iae_update (v2 : bool) (e : iae) : res iae :=
  let size := valid_size (i_ele e) (i_size_align e) (i_image e) in
  bind (match i_hash e with
        | [] => bind (extend_to size (i_image e)) (fun m => bind (hash_of (flags_hash v2 (i_flags e)) m)
                      (fun h => Ok (h ++ repeat 0%N (64 - length h))))
        | h => Ok h
        end)
    (fun h =>
  Ok {| i_raw_off := i_raw_off e; i_size := size; i_load := i_load e; i_entry := i_entry e; i_flags := i_flags e;
        i_meta := i_meta e; i_hash := h;
        i_iv := if forallb (N.eqb 0) (i_iv e) && flags_enc v2 (i_flags e) then sha256 (i_plain e) else i_iv e;
        i_image := i_image e; i_plain := i_plain e; i_gap := i_gap e; i_size_align := i_size_align e; i_ele := i_ele e |}).

Definition iae_fmt_ok (e : iae) : bool :=
  fits 4 (i_raw_off e) && fits 4 (i_size e) && fits 8 (i_load e) && fits 8 (i_entry e) && fits 4 (i_flags e) && fits 4 (i_meta e).
(* ImageArrayEntry.export *)
Definition iae_bytes (e : iae) : list N :=
  le 4 (i_raw_off e) ++ le 4 (i_size e) ++ le 8 (i_load e) ++ le 8 (i_entry e) ++ le 4 (i_flags e) ++ le 4 (i_meta e)
  ++ fit_s 64 (i_hash e) ++ fit_s 32 (i_iv e).

(* ------------------------------------------------------------------ SRK records / table *)
Definition key_sizes (k : Z) : Z * Z := match lookup2 k gen_key_sizes with Some x => x | None => (0, 0) end.
(* SRKRecord.create_from_key followed by update_fields *)
Definition srk_of_key (flags : Z) (k : pubkey) : res srk_rec :=
  match k with
  | KRsa bits n e =>
      match lookup bits gen_rsa_key_type with
      | None => Err E_CRASH
      | Some ks => let '(l1, l2) := key_sizes ks in
          if (n <? 2 ^ (8 * l1)) && (e <? 2 ^ (8 * l2)) then
            let pr := be (Z.to_nat l1) n ++ be (Z.to_nat l2) e in
            Ok {| sr_alg := gen_sign_rsa_pss; sr_hash := gen_hash_sha256; sr_ksize := ks; sr_flags := flags; sr_params := pr;
                  sr_length := 12 + zlen' pr |}
          else Err E_CRASH
      end
  | KEcc bits x y =>
      match lookup bits gen_ecc_key_type with
      | None => Err E_CRASH
      | Some ks => let '(l1, l2) := key_sizes ks in
          let h := if bits =? 256 then gen_hash_sha256 else if bits =? 384 then gen_hash_sha384 else gen_hash_sha512 in
          if (x <? 2 ^ (8 * l1)) && (y <? 2 ^ (8 * l2)) then
            let pr := be (Z.to_nat l1) x ++ be (Z.to_nat l2) y in
            Ok {| sr_alg := gen_sign_ecdsa; sr_hash := h; sr_ksize := ks; sr_flags := flags; sr_params := pr;
                  sr_length := 12 + zlen' pr |}
          else Err E_CRASH
      end
  end.
Fixpoint srk_of_keys (flags : Z) (ks : list pubkey) : res (list srk_rec) :=
  match ks with
  | [] => Ok []
  | k :: t => bind (srk_of_key flags k) (fun r => bind (srk_of_keys flags t) (fun rs => Ok (r :: rs)))
  end.
(* SRKRecordBase.export: tag, length, version(=signing algorithm), hash, key size, reserved, flags, parameter lengths, parameters *)
Definition srk_rec_bytes (r : srk_rec) : list N :=
  let '(l1, l2) := key_sizes (sr_ksize r) in
  le 1 gen_tag_srk_record ++ le 2 (sr_length r) ++ le 1 (sr_alg r) ++ le 1 (sr_hash r) ++ le 1 (sr_ksize r) ++ le 1 0
  ++ le 1 (sr_flags r) ++ (le 2 l1 ++ le 2 l2) ++ sr_params r.
Definition srk_rec_len (r : srk_rec) : Z := 12 + zlen' (sr_params r).
Definition srk_table_len (rs : list srk_rec) : Z := 4 + fold_right (fun r a => srk_rec_len r + a) 0 rs.
(* SRKTable.export: tag, length, version, records *)
Definition srk_table_bytes (v2 : bool) (length : Z) (rs : list srk_rec) : list N :=
  le 1 gen_tag_srk_table ++ le 2 length ++ le 1 (gen_version_srk_table v2) ++ concat (map srk_rec_bytes rs).
(* SRKTable.compute_srk_hash *)
Definition srk_hash (v2 : bool) (sb : sigblock) : list N :=
  match sb_srk sb with [] => [] | rs => sha256 (srk_table_bytes v2 (sb_srk_length sb) rs) end.

(* signature size of a key (PublicKey.signature_size): RSA modulus bytes, ECC 2 x coordinate size *)
Definition sig_size (k : pubkey) : Z :=
  match k with KRsa bits _ _ => bits / 8 | KEcc bits _ _ => 2 * ((bits + 7) / 8) end.

(* ------------------------------------------------------------------ signature block (version 1 layout) *)
Definition signature_bytes (length : Z) (sig : list N) : list N :=
  le 1 gen_version_ContainerSignature ++ le 2 length ++ le 1 gen_tag_signature ++ le 4 0 ++ sig.
Definition blob_bytes (b : blob) : list N :=
  le 1 gen_version_AhabBlob ++ le 2 (b_length b) ++ le 1 gen_tag_blob ++ le 1 (b_flags b) ++ le 1 (b_size b / 8)
  ++ le 1 (b_alg b) ++ le 1 (b_mode b) ++ b_keyblob b.
(* AhabBlob.load_from_config without a key blob: zero place holder *)
Definition blob_of_cfg (c : Z * list N * Z) : blob :=
  let '(bits, dek, kid) := c in
  {| b_size := bits; b_flags := gen_blob_flags_dek; b_alg := gen_blob_aes_cbc; b_mode := 0;
     b_keyblob := repeat 0%N (Z.to_nat (48 + bits / 8)); b_dek := dek; b_keyid := kid; b_length := 56 + bits / 8 |}.

(* SignatureBlock.update_fields (container version 1: every block starts 8-aligned) *)
Definition sigblock_update (rs : list srk_rec) (sig : option (list N)) (bl : option blob) : sigblock :=
  let A := gen_container_alignment in
  let off0 := 0 in
  let size0 := zalign 16 A in
  let '(srk_off, off1, size1) :=
    match rs with [] => (0, off0, size0) | _ => let o := zalign (off0 + size0) A in (o, o, srk_table_len rs) end in
  let '(sig_off, off2, size2) :=
    match sig with None => (0, off1, size1) | Some s => let o := zalign (off1 + size1) A in (o, o, 8 + zlen' s) end in
  let '(blob_off, off3, size3) :=
    match bl with None => (0, off2, size2) | Some b => let o := zalign (off2 + size2) A in (o, o, b_length b) end in
  {| sb_length := off3 + size3; sb_srk_off := srk_off; sb_sig_off := sig_off; sb_cert_off := 0; sb_blob_off := blob_off;
     sb_srk := rs; sb_srk_length := srk_table_len rs; sb_sig := sig;
     sb_sig_length := match sig with Some s => 8 + zlen' s | None => 0 end; sb_blob := bl |}.

Definition sigblock_fmt_ok (sb : sigblock) : bool :=
  fits 2 (sb_length sb) && fits 2 (sb_cert_off sb) && fits 2 (sb_srk_off sb) && fits 2 (sb_sig_off sb) && fits 2 (sb_blob_off sb)
  && fits 4 (match sb_blob sb with Some b => b_keyid b | None => 0 end).
(* SignatureBlock.export *)
Definition sigblock_header (v2 : bool) (sb : sigblock) : list N :=
  le 1 (gen_version_sigblock v2) ++ le 2 (sb_length sb) ++ le 1 gen_tag_sigblock ++ le 2 (sb_cert_off sb) ++ le 2 (sb_srk_off sb)
  ++ le 2 (sb_sig_off sb) ++ le 2 (sb_blob_off sb) ++ le 4 (match sb_blob sb with Some b => b_keyid b | None => 0 end).
Definition place (buf : list N) (off len : Z) (d : list N) : list N := py_set buf (Z.to_nat off) (Z.to_nat (off + len)) d.
Definition sigblock_bytes (v2 : bool) (sb : sigblock) : list N :=
  let b0 := repeat 0%N (Z.to_nat (sb_length sb)) in
  let b1 := py_set b0 0 16 (sigblock_header v2 sb) in
  let b2 := match sb_srk sb with [] => b1
            | rs => place b1 (sb_srk_off sb) (srk_table_len rs) (srk_table_bytes v2 (sb_srk_length sb) rs) end in
  let b3 := match sb_sig sb with None => b2
            | Some s => place b2 (sb_sig_off sb) (8 + zlen' s) (signature_bytes (sb_sig_length sb) s) end in
  match sb_blob sb with None => b3 | Some b => place b3 (sb_blob_off sb) (b_length b) (blob_bytes b) end.

(* ------------------------------------------------------------------ container *)
Definition container_flags (cc : container_cfg) : Z :=
  Z.lor (Z.lor (Z.lor (cc_srk_set cc) (Z.shiftl (cc_used cc) gen_c_flags_used_srk_id_offset))
               (Z.shiftl (cc_revoke cc) gen_c_flags_srk_revoke_mask_offset))
        (Z.shiftl (cc_gdet cc) gen_c_flags_gdet_enable_offset).
Definition flag_srk_set (f : Z) := bit f gen_c_flags_srk_set_offset gen_c_flags_srk_set_size.
Definition flag_used_srk (f : Z) := bit f gen_c_flags_used_srk_id_offset gen_c_flags_used_srk_id_size.
Definition flag_revoke (f : Z) := bit f gen_c_flags_srk_revoke_mask_offset gen_c_flags_srk_revoke_mask_size.

Definition sbo (c : container) : Z := zalign (16 + zlen' (c_images c) * 128) gen_container_alignment.
Definition header_length (c : container) : Z := 16 + zlen' (c_images c) * 128 + sb_length (c_sb c).
Definition header_fmt_ok (c : container) : bool :=
  fits 1 (c_version c) && fits 2 (c_length c) && fits 4 (c_flags c) && fits 2 (c_sw c) && fits 1 (c_fuse c)
  && fits 1 (zlen' (c_images c)) && fits 2 (sbo c).
(* AHABContainerBase._export: version, length, tag, flags, sw version, fuse version, #images, signature block offset, reserved *)
Definition header_bytes_raw (version length flags sw fuse nimg sbo_ : Z) : list N :=
  le 1 version ++ le 2 length ++ le 1 gen_tag_container ++ le 4 flags ++ le 2 sw ++ le 1 fuse ++ le 1 nimg ++ le 2 sbo_ ++ le 2 0.
Definition header_bytes (c : container) : list N :=
  header_bytes_raw (c_version c) (c_length c) (c_flags c) (c_sw c) (c_fuse c) (zlen' (c_images c)) (sbo c).
Definition container_fmt_ok (c : container) : bool :=
  header_fmt_ok c && forallb iae_fmt_ok (c_images c) && sigblock_fmt_ok (c_sb c).
(* AHABContainer.export *)
Definition container_bytes (v2 : bool) (c : container) : list N :=
  let n := Z.to_nat (zalign (header_length c) gen_container_alignment) in
  let b0 := repeat 0%N n in
  let b1 := py_set b0 0 (Z.to_nat (sbo c)) (header_bytes c ++ concat (map iae_bytes (c_images c))) in
  py_set b1 (Z.to_nat (sbo c)) (Z.to_nat (sbo c + zalign (sb_length (c_sb c)) gen_container_alignment)) (sigblock_bytes v2 (c_sb c)).
(* get_signature_data *)
Definition signed_data (v2 : bool) (c : container) : list N :=
  match sb_sig (c_sb c), sb_srk (c_sb c) with
  | Some _, _ :: _ => firstn (Z.to_nat (sbo c + sb_sig_off (c_sb c))) (container_bytes v2 c)
  | _, _ => []
  end.

(* the "Signed data as parsed" record of AHABContainer.verify for a parsed container: the re-exported signed data must be the
   bytes that were parsed (recorded only when the container yields signed data) *)
Definition signed_as_parsed (v2 : bool) (parsed : list N) (c : container) : bool :=
  eqb_list (signed_data v2 c) (firstn (length (signed_data v2 c)) parsed).

Fixpoint map_res {A B} (f : A -> res B) (l : list A) : res (list B) :=
  match l with [] => Ok [] | x :: t => bind (f x) (fun y => bind (map_res f t) (fun ys => Ok (y :: ys))) end.

(* load_from_config + AHABContainer.update_fields for container number ix *)
Definition container_build (p : params) (ix : Z) (cc : container_cfg) : res container :=
  let coff := p_csize p * ix in
  let flags := container_flags cc in
  bind (srk_of_keys (if cc_flag_ca cc then gen_srk_flags_ca else 0) (cc_keys cc)) (fun rs =>
  let sig := if cc_sigmode cc =? 0 then None
             else if cc_sigmode cc =? 1 then Some (cc_sig cc)
             else Some (inc_block (Z.to_nat (match cc_keys cc with k :: _ => sig_size k | [] => 0 end))) in
  let bl := option_map blob_of_cfg (cc_blob cc) in
  let imgs0 := map (fun ic => iae_encrypt (p_v2 p) bl (build_iae p coff ic)) (cc_images cc) in
  let sb := sigblock_update rs sig bl in
  bind (map_res (iae_update (p_v2 p)) imgs0) (fun imgs =>
  let c0 := {| c_version := gen_version_container (p_v2 p); c_flags := flags; c_fuse := cc_fuse cc; c_sw := cc_sw cc;
               c_length := 0; c_coff := coff; c_images := imgs; c_sb := sb |} in
  Ok {| c_version := c_version c0; c_flags := flags; c_fuse := cc_fuse cc; c_sw := cc_sw cc; c_length := header_length c0;
        c_coff := coff; c_images := imgs; c_sb := sb |})).

(* ------------------------------------------------------------------ offsets *)
Definition valid_alignment (p : params) (e : iae) : Z := if i_ele e then 4 else Z.max (p_tm_align p) 1024.
Definition valid_offset (p : params) (e : iae) (x : Z) : Z := zalign x (Z.max (valid_alignment p e) (p_min_align p)).
Definition set_off (e : iae) (raw : Z) : iae :=
  {| i_raw_off := raw; i_size := i_size e; i_load := i_load e; i_entry := i_entry e; i_flags := i_flags e; i_meta := i_meta e;
     i_hash := i_hash e; i_iv := i_iv e; i_image := i_image e; i_plain := i_plain e; i_gap := i_gap e;
     i_size_align := i_size_align e; i_ele := i_ele e |}.
(* the inner loop of AHABImage.update_fields for one (unlocked) container; returns the running offset *)
Fixpoint assign_images (p : params) (coff : Z) (off : Z) (l : list iae) : Z * list iae :=
  match l with
  | [] => (off, [])
  | e :: t =>
      let abs := i_raw_off e + coff in
      let '(o, e') := if 0 <? abs then (abs, e) else (off, set_off e (off - coff)) in
      let '(off', t') := assign_images p coff (valid_offset p e (o + i_size e + i_gap e)) t in
      (off', e' :: t')
  end.
Definition set_images (c : container) (l : list iae) : container :=
  {| c_version := c_version c; c_flags := c_flags c; c_fuse := c_fuse c; c_sw := c_sw c; c_length := c_length c;
     c_coff := c_coff c; c_images := l; c_sb := c_sb c |}.
Fixpoint assign_offsets (p : params) (off : Z) (cs : list container) : list container :=
  match cs with
  | [] => []
  | c :: t => let '(off', l) := assign_images p (c_coff c) off (c_images c) in set_images c l :: assign_offsets p off' t
  end.

(* ------------------------------------------------------------------ AHAB image *)
Definition img_abs (c : container) (e : iae) : Z := i_raw_off e + c_coff c.
Definition all_images (cs : list container) : list (Z * Z * list N) :=   (* absolute offset, size, bytes *)
  concat (map (fun c => map (fun e => (img_abs c e, i_size e, i_image e)) (c_images c)) cs).
(* AHABImage.__len__ *)
Definition ahab_len (p : params) (cs : list container) : Z :=
  zalign (zmax_list 0 (map (fun x => zalign (fst (fst x) + snd (fst x)) 4) (all_images cs)))
         (if p_serial p then gen_container_alignment else p_size_align p).
(* start_real_image_address *)
Definition start_real (p : params) (cs : list container) : Z :=
  zalign (zmin_list (p_start p) (map (fun c => zmin_list (p_start p) (map (img_abs c) (c_images c))) cs)) gen_container_alignment.

(* BinaryImage.validate of the tree built by AHABImage.image_info: every child fits in its parent and no two siblings touch
   (closed intervals [begin, begin+len-1]) *)
Definition iv_overlap (a b : Z * Z) : bool :=
  negb ((fst a + snd a - 1 <? fst b) || (fst b + snd b - 1 <? fst a)).
Fixpoint pairwise_ok (l : list (Z * Z)) : bool :=
  match l with [] => true | x :: t => forallb (fun y => negb (iv_overlap x y)) t && pairwise_ok t end.
Definition fits_in (len : Z) (x : Z * Z) : bool := (0 <=? fst x) && (fst x + snd x - 1 <? len).
Definition layout_ok (p : params) (cs : list container) : bool :=
  let blk := start_real p cs in
  let conts := map (fun c => (c_coff c, header_length c)) cs in
  let imgs := map fst (all_images cs) in
  let total := ahab_len p cs in
  forallb (fits_in blk) conts && pairwise_ok conts
  && forallb (fits_in total) ((0, blk) :: imgs) && pairwise_ok ((0, blk) :: imgs).

(* the range checks of AHABContainerBase._verify and ImageArrayEntry.verify, driven by the extracted table *)
Definition cfield (c : container) (id : Z) : Z :=
  if id =? 0 then c_flags c else if id =? 1 then flag_used_srk (c_flags c) else if id =? 2 then flag_revoke (c_flags c)
  else if id =? 3 then c_sw c else if id =? 4 then c_fuse c else sbo c.
Definition ifield (e : iae) (id : Z) : Z :=
  if id =? 10 then i_raw_off e else if id =? 11 then i_size e else if id =? 12 then i_load e else if id =? 13 then i_entry e
  else if id =? 14 then i_flags e else i_meta e.
(* one check: kind 0 = add_record_bit_range -> misc.check_range (translated, Gen/GenMisc.v); kind 1 = add_record_range *)
Definition check_passes (chk : gen_check) (v : Z) : bool :=
  let '(_, _, kind, lo, hi) := chk in
  if kind =? 0 then match py_check_range v lo hi with Ok r => negb (r =? 0) | Err _ => false end
  else negb (v <? lo) && negb (hi <? v).
Definition chk_name (chk : gen_check) : Z := let '(n, _, _, _, _) := chk in n.
Definition chk_field (chk : gen_check) : Z := let '(_, f, _, _, _) := chk in f.
Definition failing_checks (fld : Z -> Z) (chks : list gen_check) : list Z :=
  map chk_name (filter (fun chk => negb (check_passes chk (fld (chk_field chk)))) chks).
Definition container_range_errors (c : container) : list Z :=
  failing_checks (cfield c) gen_container_checks ++ concat (map (fun e => failing_checks (ifield e) gen_iae_checks) (c_images c)).

(* SRK table verify: four records of one kind *)
Definition srk_uniform (rs : list srk_rec) : bool :=
  match rs with
  | [] => true
  | r :: t => (Z.of_nat (length rs) =? gen_srk_records_cnt)
              && forallb (fun x => (sr_alg x =? sr_alg r) && (sr_hash x =? sr_hash r) && (sr_ksize x =? sr_ksize r)
                                   && (sr_length x =? sr_length r) && (sr_flags x =? sr_flags r)) t
  end.

(* ERROR conditions of AHABImage.verify that a configuration can reach *)
Definition container_verify_ok (p : params) (cc : container_cfg) (c : container) : bool :=
  match container_range_errors c with [] => true | _ => false end
  && (0 <? zlen' (c_images c)) && (zlen' (c_images c) <=? p_max_img p)
  && fits 2 (c_length c)
  && srk_uniform (sb_srk (c_sb c))
  && forallb (fun e => negb (flags_enc (p_v2 p) (i_flags e)) || match sb_blob (c_sb c) with Some _ => true | None => false end) (c_images c)
  && (if flag_srk_set (c_flags c) =? 0 then true
      else
        (* "Used SRK key ID": chip_config.used_srk_id (configuration value) must not be revoked by the mask in the flags *)
        negb (Z.testbit (flag_revoke (c_flags c)) (cc_used cc))
        && match sb_srk (c_sb c), sb_sig (c_sb c) with
           | _ :: _, Some _ => (cc_sigmode cc =? 2) || cc_sig_ok cc
           | _, _ => false
           end).

(* BinaryImage export of the tree *)
(* BinaryImage(binary=d, size=size).export(): the binary itself, or a zero block of `size` bytes that starts with it *)
Definition fit_image (size : Z) (d : list N) : list N :=
  if zlen' d =? size then d else py_set (repeat 0%N (Z.to_nat size)) 0 (length d) d.
Definition place_piece (b : list N) (x : Z * Z * list N) : list N :=
  let d' := fit_image (snd (fst x)) (snd x) in place b (fst (fst x)) (zlen' d') d'.
Definition place_all (buf : list N) (l : list (Z * Z * list N)) : list N := fold_left place_piece l buf.
Definition containers_block (p : params) (cs : list container) : list N :=
  place_all (repeat 0%N (Z.to_nat (start_real p cs)))
            (map (fun c => (c_coff c, zlen' (container_bytes (p_v2 p) c), container_bytes (p_v2 p) c)) cs).
Definition ahab_bytes (p : params) (cs : list container) : list N :=
  let blk := containers_block p cs in
  place_all (repeat 0%N (Z.to_nat (ahab_len p cs))) ((0, zlen' blk, blk) :: all_images cs).

Fixpoint build_all (p : params) (ix : Z) (l : list container_cfg) : res (list container) :=
  match l with
  | [] => Ok []
  | cc :: t => bind (container_build p ix cc) (fun c => bind (build_all p (ix + 1) t) (fun cs => Ok (c :: cs)))
  end.

(* the object state after AHABImage.update_fields *)
Definition ahab_update (p : params) (l : list container_cfg) : res (list container) :=
  bind (build_all p 0 l) (fun cs => Ok (assign_offsets p (p_start p) cs)).

(* export of the updated object: struct.error on a field that does not fit its slot (raised by sign_itself in update_fields for
   signed containers, or by container.export() reached through image_info() inside verify() -- neither is an SPSDKError),
   SPSDKVerificationError when verify() has an ERROR record, the BinaryImage bytes otherwise *)
Definition ahab_export_of (p : params) (l : list container_cfg) (cs : list container) : res (list N) :=
  if negb (forallb container_fmt_ok cs) then Err E_CRASH
  else if forallb (fun x => container_verify_ok p (fst x) (snd x)) (combine l cs) && layout_ok p cs
  then Ok (ahab_bytes p cs) else Err E_REJECT.
(* load_from_config; update_fields; export *)
Definition ahab_export (p : params) (l : list container_cfg) : res (list N) :=
  if p_max_cnt p <? zlen' l then Err E_REJECT                          (* add_container refuses *)
  else bind (ahab_update p l) (ahab_export_of p l).

(* ------------------------------------------------------------------ parsing one container (AHABContainer.parse, version 1) *)
Definition rd (l : list N) (off w : nat) : Z := Z.of_N (le_dec (slice l off (off + w))).
Definition head_ok (tag : Z) (versions : list Z) (l : list N) (min_len : nat) : bool :=
  Nat.leb min_len (length l) && (rd l 3 1 =? tag) && existsb (Z.eqb (rd l 0 1)) versions && (rd l 1 2 <=? zlen' l).
(* SRKRecord.parse *)
Definition srk_rec_parse (l : list N) : res srk_rec :=
  (* HeaderContainerInverted: tag, length, version *)
  if negb (Nat.leb 12 (length l) && (rd l 0 1 =? gen_tag_srk_record)
           && existsb (Z.eqb (rd l 3 1)) [33; 34; 39; 40; 209; 210] && (rd l 1 2 <=? zlen' l)) then Err E_REJECT
  else
    let plen := rd l 8 2 + rd l 10 2 in
    if rd l 1 2 <? plen + 12 then Err E_REJECT
    else if negb (existsb (Z.eqb (rd l 3 1)) [33; 34; 39; 40]) then Err E_REJECT          (* AHABSignAlgorithmV1.from_tag *)
    else if negb (existsb (Z.eqb (rd l 4 1)) [0; 1; 2; 3]) then Err E_REJECT               (* AHABSignHashAlgorithmV1.from_tag *)
    else Ok {| sr_alg := rd l 3 1; sr_hash := rd l 4 1; sr_ksize := rd l 5 1; sr_flags := rd l 7 1;
               sr_params := slice l 12 (12 + Z.to_nat plen); sr_length := rd l 1 2 |}.
Fixpoint srk_recs_parse (n : nat) (l : list N) (step : nat) : res (list srk_rec) :=
  match n with
  | O => Ok []
  | S n' => bind (srk_rec_parse l) (fun r => bind (srk_recs_parse n' (skipn step l) step) (fun rs => Ok (r :: rs)))
  end.
(* SRKTable.parse: Ok None models the swallowed SPSDKParsingError *)
Definition srk_table_parse (l : list N) : res (Z * list srk_rec) :=
  if negb (Nat.leb 4 (length l) && (rd l 0 1 =? gen_tag_srk_table) && (rd l 3 1 =? gen_version_srk_table false)
           && (rd l 1 2 <=? zlen' l)) then Err E_REJECT
  else let len := rd l 1 2 in
    if negb ((len - 4) mod 4 =? 0) then Err E_REJECT
    else bind (srk_recs_parse 4 (skipn 4 l) (Z.to_nat ((len - 4) / 4))) (fun rs => Ok (len, rs)).
Definition signature_parse (l : list N) : res (Z * list N) :=
  if negb (head_ok gen_tag_signature [gen_version_ContainerSignature] l 8) then Err E_REJECT
  else Ok (rd l 1 2, slice l 8 (Z.to_nat (rd l 1 2))).
Definition blob_parse (l : list N) (keyid : Z) : res blob :=
  if negb (head_ok gen_tag_blob [gen_version_AhabBlob] l 8) then Err E_REJECT
  else if negb (existsb (Z.eqb (rd l 6 1)) [3; 4]) then Err E_REJECT     (* KeyBlobEncryptionAlgorithm.from_tag (AES_CBC 3, SM4_CBC 4) *)
  else Ok {| b_size := rd l 5 1 * 8; b_flags := rd l 4 1; b_alg := rd l 6 1; b_mode := rd l 7 1;
             b_keyblob := slice l 8 (Z.to_nat (rd l 1 2)); b_dek := []; b_keyid := keyid; b_length := rd l 1 2 |}.
(* AHABContainerBase._parse: check_container_head, then (length, flags, sw version, fuse version, #images, signature block offset) *)
Definition header_parse (v2 : bool) (l : list N) : res (Z * Z * Z * Z * Z * Z) :=
  if head_ok gen_tag_container [gen_version_container v2] l 16
  then Ok (rd l 1 2, rd l 4 4, rd l 8 2, rd l 10 1, rd l 11 1, rd l 12 2) else Err E_REJECT.
(* the header a parsed container re-exports: version and tag are class constants, the signature block offset is recomputed
   from the number of images, the reserved half word is written as zero *)
Definition header_reexport (v2 : bool) (h : Z * Z * Z * Z * Z * Z) : list N :=
  let '(length, flags, sw, fuse, nimg, _) := h in
  header_bytes_raw (gen_version_container v2) length flags sw fuse nimg (zalign (16 + nimg * 128) gen_container_alignment).
(* the same record for the 16 header bytes alone *)
Definition header_as_parsed (v2 : bool) (parsed : list N) (h : Z * Z * Z * Z * Z * Z) : bool :=
  eqb_list (header_reexport v2 h) (firstn 16 parsed).
Definition iae_parse (l : list N) : iae :=
  {| i_raw_off := rd l 0 4; i_size := rd l 4 4; i_load := rd l 8 8; i_entry := rd l 16 8; i_flags := rd l 24 4; i_meta := rd l 28 4;
     i_hash := slice l 32 96; i_iv := slice l 96 128; i_image := []; i_plain := []; i_gap := 0; i_size_align := 0; i_ele := false |}.

(* ------------------------------------------------------------------ harness interface *)
Definition vint (v : value) : Z := match v with VInt z => z | _ => 0 end.
Definition vbytes (v : value) : list N := match v with VBytes l => l | _ => [] end.
Definition vlist (v : value) : list value := match v with VList l => l | _ => [] end.
Definition vnth (l : list value) (n : nat) : value := nth n l (VInt 0).
Definition vbool' (v : value) : bool := negb (vint v =? 0).

Definition dec_data (v : value) : list N :=
  match v with
  | VBytes l => l
  | VList [VInt seed; VInt step; VInt len] => gen_bytes (Z.to_nat len) (Z.to_N seed) (Z.to_N step)
  | _ => []
  end.
Definition dec_image (v : value) : image_cfg :=
  let l := vlist v in
  {| ic_data := dec_data (vnth l 0); ic_offset := vint (vnth l 1); ic_load := vint (vnth l 2); ic_entry := vint (vnth l 3);
     ic_type := vint (vnth l 4); ic_core := vint (vnth l 5); ic_hash := vint (vnth l 6); ic_enc := vbool' (vnth l 7);
     ic_boot := vint (vnth l 8); ic_cpu := vint (vnth l 9); ic_mu := vint (vnth l 10); ic_part := vint (vnth l 11);
     ic_gap := vint (vnth l 12); ic_size_align := vint (vnth l 13) |}.
Definition dec_key (v : value) : pubkey :=
  let l := vlist v in
  let num v := Z.of_N (be_dec (vbytes v)) in     (* big-endian magnitudes: huge decimal literals are slow to read *)
  if vint (vnth l 0) =? 0 then KRsa (vint (vnth l 1)) (num (vnth l 2)) (num (vnth l 3))
  else KEcc (vint (vnth l 1)) (num (vnth l 2)) (num (vnth l 3)).
Definition dec_container (v : value) : container_cfg :=
  let l := vlist v in
  {| cc_srk_set := vint (vnth l 0); cc_used := vint (vnth l 1); cc_revoke := vint (vnth l 2); cc_gdet := vint (vnth l 3);
     cc_fuse := vint (vnth l 4); cc_sw := vint (vnth l 5); cc_keys := map dec_key (vlist (vnth l 6));
     cc_flag_ca := vbool' (vnth l 7); cc_sigmode := vint (vnth l 8); cc_sig := vbytes (vnth l 9); cc_sig_ok := vbool' (vnth l 10);
     cc_blob := match vlist (vnth l 11) with
                | [VInt bits; VBytes dek; VInt kid] => Some (bits, dek, kid)
                | _ => None
                end;
     cc_images := map dec_image (vlist (vnth l 12)) |}.
Definition dec_params (fam tm v2 : value) : params :=
  params_of (nth (Z.to_nat (vint fam)) gen_families (0, 0, [], 1, 1, false, [])) (vint tm) (vbool' v2).

(* 64-byte blocks; an all-zero block is printed as its length *)
Definition rle (l : list N) : value :=
  VList (map (fun b => if forallb (N.eqb 0) b then VInt (zlen' b) else VBytes b) (chunks 64 l)).

Definition v_iae (c : container) (e : iae) : value :=
  VList [VInt (img_abs c e); VInt (i_raw_off e); VInt (i_size e); VInt (i_flags e); VInt (i_meta e); VBytes (i_hash e); VBytes (i_iv e)].
Definition v_container (v2 : bool) (c : container) : value :=
  VList [VInt (c_flags c); VInt (c_length c); VInt (sbo c); VInt (sb_length (c_sb c)); VInt (sb_srk_off (c_sb c));
         VInt (sb_sig_off (c_sb c)); VInt (sb_blob_off (c_sb c)); VBytes (srk_hash v2 (c_sb c));
         VBytes (signed_data v2 c); VList (map (v_iae c) (c_images c))].

Definition run_case (fn : Z) (args : list value) : value :=
  match fn, args with
  | 1, [fam; tm; v2; VList cs] =>
      (* [export bytes or error; failing range checks per container (AHABContainer.verify)] from one update_fields *)
      let p := dec_params fam tm v2 in
      let l := map dec_container cs in
      if p_max_cnt p <? zlen' l then VList [VErr E_REJECT; VList []]
      else match ahab_update p l with
           | Err k => VList [VErr k; VList []]
           | Ok cs' => VList [vres rle (ahab_export_of p l cs'); VList (map (fun c => VList (map VInt (container_range_errors c))) cs')]
           end
  | 2, [fam; tm; v2; VList cs] =>       (* object state after update_fields: offsets, hashes, signed data *)
      let p := dec_params fam tm v2 in
      vres (fun l => VList (map (v_container (p_v2 p)) l)) (ahab_update p (map dec_container cs))
  | 4, [v2; VBytes l] =>                (* header parse + re-export *)
      vres (fun h => VBytes (header_reexport (vbool' v2) h)) (header_parse (vbool' v2) l)
  | _, _ => VErr E_BADCASE
  end.
