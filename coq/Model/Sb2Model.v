(* Model/Sb2Model.v -- Secure Binary 2.1 (C04): faithful model of spsdk/sbfile/sb2 {commands,sections,headers,images}.py
   (builder BootImageV21.export, parser BootImageV21.parse, the 13 command codecs) and, written separately from the
   documented container format, a model of the boot ROM's loader (rom21).
   * struct layouts, tag values, flag masks and size constants come from Gen/GenSb2.v (regenerated from source on every run);
     the ROM side uses its own hand-written layouts (rom_*_layout) which Proofs/Sb2Proofs.v compares with the
     extracted ones by reflexivity.
   * the block cipher is a parameter (keyed block function E / D) of every definition that encrypts; the executable
     instance at the end of the file plugs in CryptoRef AES.  HMAC-SHA256, SHA-256, CRC32-MPEG2 are CryptoRef.
   * RSA signatures and X.509 are outside Coq: the builder takes the signature bytes as an input, the parser takes the
     verdict of the verification as an input, the ROM emits the signed range and the signature as an obligation.
   Error classes: Err 1 = SPSDKError family, Err 2 = any other exception.  Definitions only. *)
From Coq Require Import ZArith NArith List Bool.
Require Import Value Bytes GenSb2 Sha2 Aes Modes Hmac KeyWrap Crc.
Import ListNotations.
Local Open Scope N_scope.

(* ------------------------------------------------------------------ struct pack / unpack *)
Inductive fld := FI (v : N) | FB (b : list N).

Definition fit (w : nat) (l : list N) : list N := firstn w (l ++ zeros w).   (* struct 's': truncate / zero-pad *)

Definition pack1 (f : bool * nat) (x : fld) : list N :=
  match x with
  | FI v => le_enc (snd f) v
  | FB b => fit (snd f) b
  end.

Fixpoint pack (fmt : list (bool * nat)) (xs : list fld) : list N :=
  match fmt, xs with
  | f :: fm, x :: xt => pack1 f x ++ pack fm xt
  | _, _ => []
  end.

Definition fld_fits (f : bool * nat) (x : fld) : bool :=
  match x with
  | FI v => v <? 2 ^ (8 * N.of_nat (snd f))
  | FB _ => true
  end.

Fixpoint pack_fits (fmt : list (bool * nat)) (xs : list fld) : bool :=
  match fmt, xs with
  | f :: fm, x :: xt => fld_fits f x && pack_fits fm xt
  | _, _ => true
  end.

Fixpoint unpack (fmt : list (bool * nat)) (d : list N) : list fld :=
  match fmt with
  | [] => []
  | (isb, w) :: fm => (if isb then FB (firstn w d) else FI (le_dec (firstn w d))) :: unpack fm (skipn w d)
  end.

Definition fmt_size (fmt : list (bool * nat)) : nat := fold_right (fun f a => (snd f + a)%nat) 0%nat fmt.

Definition sum_bytes (l : list N) : N := fold_right N.add 0 l.
Definition align16 (n : nat) : nat := ((n + 15) / 16 * 16)%nat.
Definition aligned16 (n : nat) : bool := Nat.eqb (n mod 16) 0.
Definition pad16z (l : list N) : list N := l ++ zeros (align16 (length l) - length l).

(* ------------------------------------------------------------------ CmdHeader *)
Record hdr := mkHdr { h_tag : N; h_flags : N; h_addr : N; h_count : N; h_data : N }.

Definition hdr_flds (crc : N) (h : hdr) : list fld :=
  [FI crc; FI (h_tag h); FI (h_flags h); FI (h_addr h); FI (h_count h); FI (h_data h)].
Definition hdr_raw (crc : N) (h : hdr) : list N := pack cmdhdr_format (hdr_flds crc h).
Definition hdr_crc (h : hdr) : N :=
  (cmdhdr_checksum_seed + sum_bytes (skipn cmdhdr_checksum_first (hdr_raw 0 h))) mod 256.
Definition hdr_export (h : hdr) : list N := hdr_raw (hdr_crc h) h.
Definition hdr_fits (h : hdr) : bool := pack_fits cmdhdr_format (hdr_flds 0 h).
Definition HDR_SIZE : nat := fmt_size cmdhdr_format.

Definition hdr_parse (d : list N) : res hdr :=
  if Nat.ltb (length d) HDR_SIZE then Err 1
  else match unpack cmdhdr_format d with
       | [FI crc; FI tg; FI fl; FI a; FI c; FI dt] =>
           let h := mkHdr tg fl a c dt in if crc =? hdr_crc h then Ok h else Err 1
       | _ => Err E_BADCASE
       end.

(* ------------------------------------------------------------------ commands: builder side *)
Inductive cmd :=
| CNop | CTag | CReset
| CLoad (addr memid : N) (data pad : list N)     (* pad: the bytes the padding source returns (zeros or the RNG) *)
| CFill (addr pattern len : N)
| CJump (addr arg : N) (sp : option N)
| CCall (addr arg : N)
| CErase (addr len flags memid : N)
| CMemEnable (addr size memid : N)
| CProg (addr memid w1 w2 flags : N)
| CVerCheck (vtype ver : N)
| CKsRestore (addr ctrl : N)        (* WR_KEYSTORE_TO_NV *)
| CKsBackup (addr ctrl : N).        (* WR_KEYSTORE_FROM_NV *)

Definition U32 : N := 4294967296.
Definition dev_of (memid : N) : N := N.shiftr (N.land memid DEVICE_ID_MASK) DEVICE_ID_SHIFT.
Definition grp_of (memid : N) : N := N.shiftr (N.land memid GROUP_ID_MASK) GROUP_ID_SHIFT.
(* self.flags |= (self.flags & ~MASK) | ((id << SHIFT) & MASK), twice *)
Definition or_field (f mask sh v : N) : N := N.lor f (N.lor (N.ldiff f mask) (N.land (N.shiftl v sh) mask)).
Definition or_memid (f memid : N) : N :=
  or_field (or_field f ROM_MEM_DEVICE_ID_MASK ROM_MEM_DEVICE_ID_SHIFT (dev_of memid))
           ROM_MEM_GROUP_ID_MASK ROM_MEM_GROUP_ID_SHIFT (grp_of memid).
Definition set_field (f mask sh v : N) : N := N.lor (N.ldiff f mask) (N.land (N.shiftl v sh) mask).
Definition memid_of_flags (f : N) : N :=
  let dev := N.shiftr (N.land f ROM_MEM_DEVICE_ID_MASK) ROM_MEM_DEVICE_ID_SHIFT in
  let grp := N.shiftr (N.land f ROM_MEM_GROUP_ID_MASK) ROM_MEM_GROUP_ID_SHIFT in
  N.lor (N.land (N.shiftl grp GROUP_ID_SHIFT) GROUP_ID_MASK) (N.land (N.shiftl dev DEVICE_ID_SHIFT) DEVICE_ID_MASK).

Definition load_data (d pad : list N) : list N :=
  let need := (align16 (length d) - length d)%nat in d ++ fit need pad.

Definition crc32_mpeg (l : list N) : N := crc CRC32_MPEG2 l.

(* CmdFill: the integer pattern is taken as 1, 2 or 4 bytes (3 -> 4) and replicated to one big-endian word *)
Definition fill_word (p : N) : res N :=
  if p <? 256 then Ok (p * 16843009)            (* 0x01010101 *)
  else if p <? 65536 then Ok (p * 65537)        (* 0x00010001 *)
  else if p <? U32 then Ok p
  else Err 1.

Definition addr_ok (a : N) : bool := a <? U32.

(* header and payload of the command object at export time; Err 1 = the constructor raises SPSDKError *)
Definition cmd_build (c : cmd) : res (hdr * list N) :=
  match c with
  | CNop => Ok (mkHdr TAG_NOP 0 0 0 0, [])
  | CTag => Ok (mkHdr TAG_TAG 0 0 0 0, [])
  | CReset => Ok (mkHdr TAG_RESET 0 0 0 0, [])
  | CLoad a m d pad =>
      if negb (addr_ok a) then Err 1
      else let dd := load_data d pad in
           Ok (mkHdr TAG_LOAD (or_memid 0 m) a (nlen dd) (crc32_mpeg dd), dd)
  | CFill a p l =>
      let l' := if l =? 0 then 4 else l in
      if negb (l' mod 4 =? 0) then Err 1
      else match fill_word p with
           | Err e => Err e
           | Ok w => if negb (addr_ok a) then Err 1 else Ok (mkHdr TAG_FILL 0 a l' w, [])
           end
  | CJump a arg sp =>
      if negb (addr_ok a) then Err 1
      else Ok (match sp with
               | None => mkHdr TAG_JUMP 0 a 0 arg
               | Some s => mkHdr TAG_JUMP 2 a s arg
               end, [])
  | CCall a arg => if negb (addr_ok a) then Err 1 else Ok (mkHdr TAG_CALL 0 a 0 arg, [])
  | CErase a l f m => if negb (addr_ok a) then Err 1 else Ok (mkHdr TAG_ERASE (or_memid f m) a l 0, [])
  | CMemEnable a s m => Ok (mkHdr TAG_MEM_ENABLE (or_memid 0 m) a s 0, [])
  | CProg a m w1 w2 f =>
      if negb (m <? 256) then Err 1
      else if negb (addr_ok a && addr_ok w1 && addr_ok w2) then Err 1
      else let is8 := if w2 =? 0 then 0 else 1 in
           Ok (mkHdr TAG_PROG (set_field (N.lor is8 f) ROM_MEM_DEVICE_ID_MASK ROM_MEM_DEVICE_ID_SHIFT m) a w1 w2, [])
  | CVerCheck t v => Ok (mkHdr TAG_FW_VERSION_CHECK 0 t v 0, [])
  | CKsRestore a c =>
      if negb (addr_ok a) then Err 1 else if negb (c <? 256) then Err 1
      else Ok (mkHdr TAG_WR_KEYSTORE_TO_NV (set_field 0 KS_DEVICE_ID_MASK KS_DEVICE_ID_SHIFT c) a KS_COUNT 0, [])
  | CKsBackup a c =>
      if negb (addr_ok a) then Err 1 else if negb (c <? 256) then Err 1
      else Ok (mkHdr TAG_WR_KEYSTORE_FROM_NV (set_field 0 KS_DEVICE_ID_MASK KS_DEVICE_ID_SHIFT c) a KS_COUNT 0, [])
  end.

Definition cmd_export (c : cmd) : res (list N) :=
  match cmd_build c with
  | Err e => Err e
  | Ok (h, pl) => if hdr_fits h then Ok (hdr_export h ++ pl) else Err 2      (* struct.error *)
  end.

Fixpoint cmds_export (cs : list cmd) : res (list N) :=
  match cs with
  | [] => Ok []
  | c :: t => match cmd_export c with
              | Err e => Err e
              | Ok b => match cmds_export t with Err e => Err e | Ok r => Ok (b ++ r) end
              end
  end.

(* observation of a command object: header fields, payload (LOAD data / FILL pattern), memory id attribute *)
Definition pcmd := (hdr * list N * N)%type.
Definition pcmd_size (p : pcmd) : nat :=
  let '(h, pl, _) := p in if h_tag h =? TAG_LOAD then (HDR_SIZE + align16 (length pl))%nat else HDR_SIZE.

Definition cmd_aux (c : cmd) : N :=
  match c with
  | CLoad _ m _ _ | CErase _ _ _ m | CMemEnable _ _ m | CProg _ m _ _ _ => m
  | _ => 0
  end.
Definition cmd_obs (c : cmd) : res pcmd :=
  match cmd_build c with
  | Err e => Err e
  | Ok (h, pl) => Ok (h, (if h_tag h =? TAG_FILL then be_enc 4 (h_data h) else pl), cmd_aux c)
  end.

(* ------------------------------------------------------------------ commands: SPSDK parser (parse_command) *)
Fixpoint assoc (k : N) (t : list (N * N)) : option N :=
  match t with
  | [] => None
  | (a, b) :: r => if a =? k then Some b else assoc k r
  end.
Definition mem (x : N) (l : list N) : bool := existsb (N.eqb x) l.

Definition parse_class (k : N) (h : hdr) (d : list N) : res pcmd :=
  match k with
  | 0 => Ok (mkHdr TAG_NOP 0 0 0 0, [], 0)
  | 1 => Ok (h, [], 0)
  | 2 => let n := N.to_nat (N.min ((h_count h + 15) / 16 * 16) (nlen d)) in     (* data[16 : 16 + align(count)] *)
         let dd := firstn n (skipn HDR_SIZE d) in
         if negb (h_data h =? crc32_mpeg dd) then Err 1
         else if negb (aligned16 (length dd)) then Err E_BADCASE      (* would be padded with random bytes *)
         else let m := memid_of_flags (h_flags h) in
              Ok (mkHdr TAG_LOAD (h_flags h) (h_addr h) (nlen dd) (crc32_mpeg dd), dd, m)
  | 3 => let l' := if h_count h =? 0 then 4 else h_count h in
         if negb (l' mod 4 =? 0) then Err 1
         else match fill_word (h_data h) with
              | Err e => Err e
              | Ok w => Ok (mkHdr TAG_FILL 0 (h_addr h) l' w, be_enc 4 w, 0)
              end
  | 4 => Ok ((if h_flags h =? 0 then mkHdr TAG_JUMP 0 (h_addr h) 0 (h_data h)
              else mkHdr TAG_JUMP 2 (h_addr h) (h_count h) (h_data h)), [], 0)
  | 5 => Ok (mkHdr TAG_CALL 0 (h_addr h) 0 (h_data h), [], 0)
  | 7 => let m := memid_of_flags (h_flags h) in
         Ok (mkHdr TAG_ERASE (or_memid (h_flags h) m) (h_addr h) (h_count h) 0, [], m)
  | 8 => Ok (mkHdr TAG_RESET 0 0 0 0, [], 0)
  | 9 => let m := memid_of_flags (h_flags h) in
         Ok (mkHdr TAG_MEM_ENABLE (or_memid 0 m) (h_addr h) (h_count h) 0, [], m)
  | 10 => let m := N.shiftr (N.land (h_flags h) ROM_MEM_DEVICE_ID_MASK) ROM_MEM_DEVICE_ID_SHIFT in
          let is8 := if h_data h =? 0 then 0 else 1 in
          Ok (mkHdr TAG_PROG (set_field (N.lor is8 (h_flags h)) ROM_MEM_DEVICE_ID_MASK ROM_MEM_DEVICE_ID_SHIFT m)
                    (h_addr h) (h_count h) (h_data h), [], m)
  | 11 => if mem (h_addr h) vercheck_types then Ok (mkHdr TAG_FW_VERSION_CHECK 0 (h_addr h) (h_count h) 0, [], 0) else Err 1
  | 12 | 13 =>
      let c := N.shiftr (N.land (h_flags h) KS_DEVICE_ID_MASK) KS_DEVICE_ID_SHIFT in
      if mem c ext_mem_ids
      then Ok (mkHdr (if k =? 12 then TAG_WR_KEYSTORE_TO_NV else TAG_WR_KEYSTORE_FROM_NV)
                     (set_field 0 KS_DEVICE_ID_MASK KS_DEVICE_ID_SHIFT c) (h_addr h) KS_COUNT 0, [], 0)
      else Err 1
  | _ => Err E_BADCASE
  end.

Definition cmd_parse (d : list N) : res pcmd :=
  match d with
  | _ :: t :: _ =>
      match assoc t cmd_class_table with
      | None => Err 1
      | Some k => match hdr_parse d with Err e => Err e | Ok h => parse_class k h d end
      end
  | _ => Err 2        (* IndexError on data[1] *)
  end.

Fixpoint cmds_parse (fuel : nat) (d : list N) : res (list pcmd) :=
  match fuel with
  | O => Err 3
  | S f => match d with
           | [] => Ok []
           | _ => match cmd_parse d with
                  | Err e => Err e
                  | Ok p => match cmds_parse f (skipn (pcmd_size p) d) with
                            | Err e => Err e
                            | Ok r => Ok (p :: r)
                            end
                  end
           end
  end.

(* ------------------------------------------------------------------ commands: what the ROM executes *)
Inductive rcmd :=
| RNop | RTag | RReset
| RLoad (dev grp addr : N) (data : list N)
| RFill (addr len word : N)
| RJump (addr arg : N) (sp : option N)
| RCall (addr arg : N)
| RErase (dev grp low addr len : N)
| RMemEnable (dev grp addr size : N)
| RProg (dev low idx w1 w2 : N)
| RVerCheck (vtype ver : N)
| RKsRestore (ctrl addr : N)
| RKsBackup (ctrl addr : N).

(* hand-written container layout of the 16-byte command header (checksum, tag, flags, address, count, data) *)
Definition rom_cmdhdr_layout : list (bool * nat) :=
  [(false, 1%nat); (false, 1%nat); (false, 2%nat); (false, 4%nat); (false, 4%nat); (false, 4%nat)].

Definition rom_hdr (d : list N) : option hdr :=
  if Nat.ltb (length d) 16 then None
  else match unpack rom_cmdhdr_layout d with
       | [FI crc; FI tg; FI fl; FI a; FI c; FI dt] =>
           (* 8-bit sum of bytes 1..15 plus 0x5A *)
           if crc =? (90 + sum_bytes (firstn 15 (skipn 1 d))) mod 256 then Some (mkHdr tg fl a c dt) else None
       | _ => None
       end.

Definition fdev (f : N) : N := N.land (N.shiftr f 8) 255.
Definition fgrp (f : N) : N := N.land (N.shiftr f 4) 15.
Definition flow (f : N) : N := N.land f 15.

(* decode one command at the head of a plaintext stream: the command and the number of bytes it occupies *)
Definition rom_cmd (d : list N) : option (rcmd * nat) :=
  match rom_hdr d with
  | None => None
  | Some h =>
      let f := h_flags h in
      match h_tag h with
      | 0 => Some (RNop, 16%nat)
      | 1 => Some (RTag, 16%nat)
      | 2 => if nlen d <? h_count h then None else
             let n := N.to_nat (h_count h) in
             let padded := ((n + 15) / 16 * 16)%nat in
             let body := firstn padded (skipn 16 d) in
             if negb (Nat.eqb (length body) padded) then None
             else if negb (crc CRC32_MPEG2 body =? h_data h) then None
             else Some (RLoad (fdev f) (fgrp f) (h_addr h) (firstn n body), (16 + padded)%nat)
      | 3 => Some (RFill (h_addr h) (h_count h) (h_data h), 16%nat)
      | 4 => Some (RJump (h_addr h) (h_data h) (if N.testbit f 1 then Some (h_count h) else None), 16%nat)
      | 5 => Some (RCall (h_addr h) (h_data h), 16%nat)
      | 7 => Some (RErase (fdev f) (fgrp f) (flow f) (h_addr h) (h_count h), 16%nat)
      | 8 => Some (RReset, 16%nat)
      | 9 => Some (RMemEnable (fdev f) (fgrp f) (h_addr h) (h_count h), 16%nat)
      | 10 => Some (RProg (fdev f) (N.land f 255) (h_addr h) (h_count h) (h_data h), 16%nat)
      | 11 => Some (RVerCheck (h_addr h) (h_count h), 16%nat)
      | 12 => Some (RKsRestore (fdev f) (h_addr h), 16%nat)
      | 13 => Some (RKsBackup (fdev f) (h_addr h), 16%nat)
      | _ => None
      end
  end.

Fixpoint rom_cmds (fuel : nat) (d : list N) : option (list rcmd) :=
  match fuel with
  | O => None
  | S f => match d with
           | [] => Some []
           | _ => match rom_cmd d with
                  | None => None
                  | Some (c, n) => match rom_cmds f (skipn n d) with
                                   | None => None
                                   | Some r => Some (c :: r)
                                   end
                  end
           end
  end.

(* the meaning of a builder command, in the ROM's vocabulary (specification side) *)
Definition sem (c : cmd) : rcmd :=
  match c with
  | CNop => RNop | CTag => RTag | CReset => RReset
  | CLoad a m d pad => RLoad (N.land m 255) (N.land (N.shiftr m 8) 15) a (load_data d pad)
  | CFill a p l => RFill a (if l =? 0 then 4 else l)
                         (if p <? 256 then p * 16843009 else if p <? 65536 then p * 65537 else p)
  | CJump a arg sp => RJump a arg sp
  | CCall a arg => RCall a arg
  | CErase a l f m => RErase (N.land m 255) (N.land (N.shiftr m 8) 15) f a l
  | CMemEnable a s m => RMemEnable (N.land m 255) (N.land (N.shiftr m 8) 15) a s
  | CProg a m w1 w2 f => RProg m (N.lor f (if w2 =? 0 then 0 else 1)) a w1 w2
  | CVerCheck t v => RVerCheck t v
  | CKsRestore a c => RKsRestore c a
  | CKsBackup a c => RKsBackup c a
  end.

(* well-formed builder commands: every field in the range of its container field *)
Definition wf_cmd (c : cmd) : bool :=
  match c with
  | CNop | CTag | CReset => true
  | CLoad a m d pad => addr_ok a && (m <? 4096) && wf_bytesb d && wf_bytesb pad && (N.of_nat (align16 (length d)) <? U32)
  | CFill a p l => addr_ok a && (p <? U32) && (l <? U32) && (l mod 4 =? 0)
  | CJump a arg sp => addr_ok a && addr_ok arg && match sp with None => true | Some s => addr_ok s end
  | CCall a arg => addr_ok a && addr_ok arg
  | CErase a l f m => addr_ok a && addr_ok l && (f <? 16) && (m <? 4096)
  | CMemEnable a s m => addr_ok a && addr_ok s && (m <? 4096)
  | CProg a m w1 w2 f => addr_ok a && (m <? 256) && addr_ok w1 && addr_ok w2 && (f <? 256)
  | CVerCheck t v => mem t vercheck_types && addr_ok v
  | CKsRestore a c | CKsBackup a c => addr_ok a && (c <? 256) && mem c ext_mem_ids
  end.

(* ------------------------------------------------------------------ counter, per-block CTR *)
Definition ctr_of_nonce (nonce : list N) : N := (if CTR_LITTLE_ENDIAN then le_dec else be_dec) (skipn (16 - CTR_WIDTH) nonce).
Definition ctr_iv (nonce : list N) (ctr : N) : list N :=
  firstn (16 - CTR_WIDTH) nonce ++ (if CTR_LITTLE_ENDIAN then le_enc else be_enc) CTR_WIDTH ctr.

Section Keyed.
Variable ek : list N -> list N.        (* AES encryption of one block under the DEK *)

Definition xblock (nonce : list N) (ctr : N) (b : list N) : list N := xor_bytes b (ek (ctr_iv nonce ctr)).

Fixpoint xblocks (nonce : list N) (ctr : N) (bs : list (list N)) : list (list N) :=
  match bs with
  | [] => []
  | b :: t => xblock nonce ctr b :: xblocks nonce (ctr + 1) t
  end.

(* ------------------------------------------------------------------ BootSectionV2 *)
Record section := mkSec { s_uid : N; s_hmac : N; s_cmds : list cmd }.

Definition hmac256 (key msg : list N) : list N := hmac_sha256 key msg.

(* hmac_count property: min(requested or 1, number of blocks) *)
Definition sec_hmac_count (req : N) (raw : nat) : nat :=
  if Nat.eqb raw 0 then 0%nat
  else let bc := ((raw + 15) / 16)%nat in
       let r := if req =? 0 then 1%nat else N.to_nat req in
       if Nat.leb r bc then r else bc.

Fixpoint hmac_groups (n : nat) (bs : nat) (c : list N) : list (list N) :=
  match n with
  | O => []
  | S O => [c]
  | S n' => firstn bs c :: hmac_groups n' bs (skipn bs c)
  end.

Definition sec_size (hc : nat) (cdlen : nat) : nat := (16 + 32 + 32 * hc + cdlen)%nat.

Definition sec_export (mac nonce : list N) (ctr : N) (s : section) : res (list N) :=
  match s_cmds s with
  | [] => Err 1
  | _ =>
    match cmds_export (s_cmds s) with
    | Err e => Err e
    | Ok cd0 =>
      let cd := pad16z cd0 in
      let count := (length cd / 16)%nat in
      let hc := sec_hmac_count (s_hmac s) (length cd0) in
      let h := mkHdr TAG_TAG (N.lor SECT_BOOTABLE SECT_LAST_SECT) (s_uid s) (N.of_nat count) (N.of_nat hc) in
      if negb (hdr_fits h) then Err 2
      else if U32 <? ctr + N.of_nat (3 + 2 * hc + count) then Err 2       (* Counter.value: OverflowError *)
      else
        let ench := xblock nonce ctr (hdr_export h) in
        let body := concat (xblocks nonce (ctr + N.of_nat (1 + (hc + 1) * 2)) (chunks 16 cd)) in
        let table := concat (map (hmac256 mac) (hmac_groups hc ((count / hc) * 16) body)) in
        Ok (ench ++ hmac256 mac ench ++ table ++ body)
    end
  end.

Fixpoint secs_export (mac nonce : list N) (ctr : N) (ss : list section) : res (list N) :=
  match ss with
  | [] => Ok []
  | s :: t => match sec_export mac nonce ctr s with
              | Err e => Err e
              | Ok b => match secs_export mac nonce (ctr + N.of_nat (length b / 16)) t with
                        | Err e => Err e
                        | Ok r => Ok (b ++ r)
                        end
              end
  end.

(* BootSectionV2.parse at byte offset off of the whole file; ctr is the counter value for that offset *)
Fixpoint check_groups (mac : list N) (n : nat) (bs : nat) (remaining : nat) (d : list N) (tbl : list N) : bool :=
  match n with
  | O => true
  | S n' =>
      let b := if Nat.eqb n 1 then remaining else bs in
      eqb_list (hmac256 mac (firstn b d)) (firstn 32 tbl)
      && check_groups mac n' bs (remaining - b) (skipn b d) (skipn 32 tbl)
  end.

Definition sec_parse (mac nonce : list N) (ctr : N) (data : list N) (off : nat) : res (N * N * list pcmd * nat) :=
  let ench := slice data off (off + 16) in
  let hh := slice data (off + 16) (off + 48) in
  if negb (eqb_list hh (hmac256 mac ench)) then Err 1
  else if U32 <=? ctr then Err 2
  else match hdr_parse (xblock nonce ctr ench) with
       | Err e => Err e
       | Ok h =>
           if (nlen data <? h_data h) || (nlen data <? h_count h) then Err E_BADCASE     (* outside the modelled domain *)
           else
           let hc := N.to_nat (h_data h) in
           let count := N.to_nat (h_count h) in
           let off2 := (off + 48 + 32 * hc)%nat in
           let tbl := slice data (off + 48) off2 in
           let enc := slice data off2 (off2 + count * 16) in
           if Nat.eqb hc 0 then Err 2          (* ZeroDivisionError *)
           else if negb (check_groups mac hc ((count / hc) * 16) (count * 16) (skipn off2 data) tbl) then Err 1
           else let c1 := ctr + 1 + (h_data h + 1) * 2 in
                if negb (Nat.eqb (length enc) 0) && (U32 <? c1 + N.of_nat ((length enc + 15) / 16)) then Err 2
                else let dec := concat (xblocks nonce c1 (chunks 16 enc)) in
                     match cmds_parse (S (length dec)) dec with
                     | Err e => Err e
                     | Ok ps => Ok (h_addr h, h_data h, ps, (48 + 32 * hc + count * 16)%nat)
                     end
       end.

(* ------------------------------------------------------------------ the ROM's view of one section *)
Fixpoint rom_groups_ok (mac : list N) (n : nat) (per : nat) (body tbl : list N) : bool :=
  match n with
  | O => Nat.eqb (length body) 0
  | S n' =>
      let g := match n' with O => body | _ => firstn per body end in
      eqb_list (firstn 32 tbl) (hmac256 mac g) && rom_groups_ok mac n' per (skipn (length g) body) (skipn 32 tbl)
  end.

(* file: the whole image; off: offset of the section (multiple of 16); result: uid, commands, size *)
Definition rom_section (mac nonce : list N) (file : list N) (off : nat) : option (N * list rcmd * nat) :=
  let c0 := ctr_of_nonce nonce + N.of_nat (off / 16) in
  let ench := slice file off (off + 16) in
  if negb (Nat.eqb (length ench) 16) then None
  else if negb (eqb_list (slice file (off + 16) (off + 48)) (hmac256 mac ench)) then None
  else if negb (c0 <? U32) then None
  else match rom_hdr (xblock nonce c0 ench) with
       | None => None
       | Some h =>
           if (nlen file <? h_count h * 16) || (h_count h <? h_data h) then None else
           let n := N.to_nat (h_data h) in
           let count := N.to_nat (h_count h) in
           if negb (h_tag h =? 1) then None
           else if Nat.eqb n 0 || Nat.ltb count n then None
           else
             let boff := (off + 48 + 32 * n)%nat in
             let tbl := slice file (off + 48) boff in
             let body := slice file boff (boff + 16 * count) in
             if negb (Nat.eqb (length body) (16 * count)) then None
             else if negb (rom_groups_ok mac n (count / n * 16) body tbl) then None
             else if negb (c0 + N.of_nat (3 + 2 * n + count) <=? U32) then None
             else
               let plain := concat (xblocks nonce (ctr_of_nonce nonce + N.of_nat (boff / 16)) (chunks 16 body)) in
               match rom_cmds (S (length plain)) plain with
               | None => None
               | Some cs => Some (h_addr h, cs, (48 + 32 * n + 16 * count)%nat)
               end
       end.

Fixpoint rom_sections (fuel : nat) (mac nonce : list N) (file : list N) (off stop : nat) : option (list (N * list rcmd)) :=
  match fuel with
  | O => None
  | S f =>
      if Nat.leb stop off then (if Nat.eqb off stop then Some [] else None)
      else match rom_section mac nonce file off with
           | None => None
           | Some (uid, cs, sz) =>
               match rom_sections f mac nonce file (off + sz) stop with
               | None => None
               | Some r => Some ((uid, cs) :: r)
               end
           end
  end.

End Keyed.

(* ------------------------------------------------------------------ ImageHeaderV2 *)
Record ihdr := mkIhdr {
  ih_nonce : list N; ih_pad : list N; ih_major : N; ih_minor : N; ih_flags : N; ih_image_blocks : N;
  ih_first_boot_tag_block : N; ih_first_boot_section_id : N; ih_cert_off : N; ih_header_blocks : N;
  ih_key_blob_block : N; ih_key_blob_block_count : N; ih_max_mac : N; ih_ts : N;
  ih_pv : N * N * N; ih_cv : N * N * N; ih_build : N }.

Definition swap16 (v : N) : N := (v mod 256) * 256 + (v / 256) mod 256.

Definition ver_flds (v : N * N * N) : list fld :=
  let '(a, b, c) := v in [FI (swap16 a); FI 0; FI (swap16 b); FI 0; FI (swap16 c); FI 0].

Definition ihdr_flds (h : ihdr) : list fld :=
  [FB (ih_nonce h); FB (ih_pad h); FB IMG_SIGNATURE1; FI (ih_major h); FI (ih_minor h); FI (ih_flags h);
   FI (ih_image_blocks h); FI (ih_first_boot_tag_block h); FI (ih_first_boot_section_id h); FI (ih_cert_off h);
   FI (ih_header_blocks h); FI (ih_key_blob_block h); FI (ih_key_blob_block_count h); FI (ih_max_mac h);
   FB IMG_SIGNATURE2; FI (ih_ts h)] ++ ver_flds (ih_pv h) ++ ver_flds (ih_cv h) ++ [FI (ih_build h); FB (skipn 4 (ih_pad h))].

Definition IHDR_SIZE : nat := fmt_size imghdr_format.

Definition ihdr_export (h : ihdr) : res (list N) :=
  if negb (Nat.eqb (length (ih_nonce h)) 16) then Err 1
  else if negb (Nat.eqb (length (ih_pad h)) 8) then Err 1
  else if negb (pack_fits imghdr_format (ihdr_flds h)) then Err 2
  else Ok (pack imghdr_format (ihdr_flds h)).

(* BcdVersion3 number: at most 4 hex digits, every digit <= 9 *)
Definition bcd_ok (x : N) : bool :=
  (x <=? 39321) && (N.land x 15 <=? 9) && (N.land (N.shiftr x 4) 15 <=? 9)
  && (N.land (N.shiftr x 8) 15 <=? 9) && (N.land (N.shiftr x 12) 15 <=? 9).

Definition ihdr_parse (d : list N) : res ihdr :=
  if Nat.ltb (length d) IHDR_SIZE then Err 1
  else match unpack imghdr_format d with
       | [FB nonce; FB p0; FB s1; FI mj; FI mn; FI fl; FI ib; FI fbtb; FI fbsid; FI co; FI hb; FI kbb; FI kbbc; FI mm;
          FB s2; FI ts; FI p0v; FI _; FI p1v; FI _; FI p2v; FI _; FI c0v; FI _; FI c1v; FI _; FI c2v; FI _; FI bn; FB p1] =>
           if negb (eqb_list s1 IMG_SIGNATURE1) then Err 1
           else if negb (eqb_list s2 IMG_SIGNATURE2) then Err 1
           else let pv := (swap16 p0v, swap16 p1v, swap16 p2v) in
                let cv := (swap16 c0v, swap16 c1v, swap16 c2v) in
                if negb (bcd_ok (swap16 p0v) && bcd_ok (swap16 p1v) && bcd_ok (swap16 p2v)
                         && bcd_ok (swap16 c0v) && bcd_ok (swap16 c1v) && bcd_ok (swap16 c2v)) then Err 1
                else Ok (mkIhdr nonce (p0 ++ p1) mj mn fl ib fbtb fbsid co hb kbb kbbc mm ts pv cv bn)
       | _ => Err E_BADCASE
       end.

(* ------------------------------------------------------------------ CertBlockV1 (certificates are opaque DER strings) *)
Record certblk := mkCb { cb_flags : N; cb_certs : list (list N); cb_rkht : list N }.

Definition cb_table_len (cb : certblk) : nat := fold_right (fun d a => (length d + 4 + a)%nat) 0%nat (cb_certs cb).
Definition CERTHDR_SIZE : nat := fmt_size certhdr_format.
Definition cb_raw_size (cb : certblk) : nat := align16 (CERTHDR_SIZE + cb_table_len cb + 128).

Definition cb_export (cb : certblk) (build image_length : N) : res (list N) :=
  let flds := [FB CERT_SIGNATURE; FI 1; FI 0; FI (N.of_nat CERTHDR_SIZE); FI (cb_flags cb); FI build; FI image_length;
               FI (nlen (cb_certs cb)); FI (N.of_nat (cb_table_len cb))] in
  if negb (pack_fits certhdr_format flds) then Err 2
  else let d := pad16z (pack certhdr_format flds ++ concat (map (fun c => le_enc 4 (nlen c) ++ c) (cb_certs cb)) ++ cb_rkht cb) in
       if Nat.eqb (length d) (cb_raw_size cb) then Ok d else Err 1.

(* ------------------------------------------------------------------ BootImageV21 *)
Record sbin := mkSbin {
  x_kek : list N; x_dek : list N; x_mac : list N; x_nonce : list N; x_pad : list N; x_ts : N;
  x_pv : N * N * N; x_cv : N * N * N; x_build : N; x_flags : N; x_secs : list section;
  x_cb : certblk; x_sigsize : nat; x_sig : list N }.

Definition has_sha (flags : N) : bool := negb (N.land flags V21_FLAGS_SHA_PRESENT_BIT =? 0).
Definition PRE_SIZE : nat := (IHDR_SIZE + N.to_nat V21_HEADER_MAC_SIZE + N.to_nat V21_KEY_BLOB_SIZE)%nat.   (* 208 *)

Fixpoint secs_raw_size (ss : list section) : res nat :=
  match ss with
  | [] => Ok 0%nat
  | s :: t => match cmds_export (s_cmds s) with
              | Err e => Err e
              | Ok cd => match secs_raw_size t with
                         | Err e => Err e
                         | Ok r => Ok (align16 (sec_size (sec_hmac_count (s_hmac s) (length cd)) (length cd)) + r)%nat
                         end
              end
  end.
Fixpoint secs_mac_count (ss : list section) : nat :=
  match ss with
  | [] => 0%nat
  | s :: t => match cmds_export (s_cmds s) with
              | Err _ => 0%nat
              | Ok cd => (sec_hmac_count (s_hmac s) (length cd) + secs_mac_count t)%nat
              end
  end.

Section Cipher.
Variable E : list N -> list N -> list N.     (* key -> block -> block *)
Variable D : list N -> list N -> list N.

Definition wrap_keys (kek dek mac : list N) : list N := kw_wrap (E kek) (dek ++ mac).

(* sha_counted = true is the code as it is; false is the builder before the repair of C04-F2 (raw_size and
   first_boot_tag_block left the 32-byte SHA-256 out), kept for the statement rom21_old_builder_sha_refuted *)
Definition build21_gen (sha_counted : bool) (x : sbin) : res (list N) :=
  match x_secs x with
  | [] => Err 1
  | s0 :: _ =>
    match secs_raw_size (x_secs x) with
    | Err e => Err e
    | Ok ssz =>
      let cbraw := cb_raw_size (x_cb x) in
      let sha := has_sha (x_flags x) in
      let shasz := if sha then N.to_nat V21_SHA_256_SIZE else 0%nat in
      let counted := if sha_counted then shasz else 0%nat in
      let tagoff := (PRE_SIZE + cbraw + x_sigsize x + counted)%nat in
      let rawsz := (tagoff + ssz)%nat in
      let bsoff := (PRE_SIZE + cbraw + x_sigsize x + shasz)%nat in
      if negb (aligned16 tagoff) then Err 1
      else if negb (aligned16 rawsz) then Err 1
      else if negb (Nat.eqb (length (x_nonce x)) 16) then Err 1
      else if negb (aligned16 bsoff) then Err 1
      else
        match secs_export (E (x_dek x)) (x_mac x) (x_nonce x) (ctr_of_nonce (x_nonce x) + N.of_nat (bsoff / 16)) (x_secs x) with
        | Err e => Err e
        | Ok bs =>
          let h := mkIhdr (x_nonce x) (x_pad x) 2 1 (x_flags x) (N.of_nat (rawsz / 16)) (N.of_nat (tagoff / 16)) (s_uid s0)
                          (N.of_nat PRE_SIZE) (N.of_nat (IHDR_SIZE / 16)) IMG_KEY_BLOB_BLOCK IMG_KEY_BLOB_BLOCK_COUNT
                          (N.of_nat (secs_mac_count (x_secs x))) (x_ts x) (x_pv x) (x_cv x) (x_build x) in
          match ihdr_export h with
          | Err e => Err e
          | Ok hb =>
            let hc0 := match cmds_export (s_cmds s0) with Ok cd => sec_hmac_count (s_hmac s0) (length cd) | Err _ => 0%nat end in
            let hm := hmac256 (x_mac x) (slice bs 16 (16 + hc0 * 32 + 32)) in
            let kb0 := wrap_keys (x_kek x) (x_dek x) (x_mac x) in
            let kb := kb0 ++ zeros (N.to_nat V21_KEY_BLOB_SIZE - length kb0) in
            match cb_export (x_cb x) (x_build x) (N.of_nat (PRE_SIZE + cbraw)) with
            | Err e => Err e
            | Ok cbb =>
              let signed := hb ++ hm ++ kb ++ cbb ++ (if sha then sha256 bs else []) in
              if negb (Nat.eqb (length (x_sig x)) (x_sigsize x)) then Err 1     (* signature length <> cert_block.signature_size *)
              else Ok (signed ++ x_sig x ++ bs)
            end
          end
        end
    end
  end.

(* the section loop of BootImageV21.parse: `while section_index < image_end`; the counter object runs on *)
Fixpoint secs_parse (fuel : nat) (ek : list N -> list N) (mac nonce : list N) (ctr : N) (data : list N) (idx stop : nat)
  : res (list (N * N * list pcmd)) :=
  match fuel with
  | O => Err 3
  | S f =>
      if Nat.leb stop idx then Ok []
      else match sec_parse ek mac nonce ctr data idx with
           | Err e => Err e
           | Ok (uid, hcnt, ps, sz) =>
               match secs_parse f ek mac nonce (ctr + N.of_nat (sz / 16)) data (idx + sz) stop with
               | Err e => Err e
               | Ok r => Ok ((uid, hcnt, ps) :: r)
               end
           end
  end.

(* ---------------- BootImageV21.parse: sig_ok is the verdict of cert_block.verify_data on the range the parser hands
   over (computed outside Coq); sigsize = len(certificates[0].signature) *)
Record parsed := mkParsed { p_flags : N; p_pv : N * N * N; p_cv : N * N * N; p_build : N; p_ts : N; p_nonce : list N;
                            p_dek : list N; p_mac : list N; p_secs : list (N * N * list pcmd);
                            p_signed_len : nat; p_sig_len : nat }.

Definition py_unwrap (kek blob : list N) : res (list N) :=
  if negb (aes_key_ok kek) then Err 2
  else if Nat.ltb (length blob) 24 || negb (Nat.eqb (length blob mod 8) 0) then Err 2
  else match kw_unwrap (D kek) blob with Some k => Ok k | None => Err 2 end.

Definition cb_parse_size (d : list N) : res nat :=
  if Nat.ltb (length d) CERTHDR_SIZE then Err 1
  else match unpack certhdr_format d with
       | [FB sg; FI _; FI _; FI hl; FI _; FI _; FI _; FI _; FI ctl] =>
           if negb (eqb_list sg CERT_SIGNATURE) then Err 1
           else if negb (hl =? N.of_nat CERTHDR_SIZE) then Err 1
           else if nlen d <? ctl + 128 then Err 1
           else Ok (align16 (CERTHDR_SIZE + N.to_nat ctl + 128))
       | _ => Err E_BADCASE
       end.

Definition parse21 (sig_ok : bool) (sigsize : nat) (kek data : list N) : res parsed :=
  match kek with
  | [] => Err 1
  | _ =>
    let kb := slice data (IHDR_SIZE + 32) PRE_SIZE in
    match py_unwrap kek (firstn (length kb - 8) kb) with
    | Err e => Err e
    | Ok un =>
      let dek := firstn 32 un in
      let mac := skipn 32 un in
      match ihdr_parse (slice data 0 IHDR_SIZE) with
      | Err e => Err e
      | Ok h =>
        if negb (ih_cert_off h =? N.of_nat PRE_SIZE) then Err 1
        else match cb_parse_size (skipn PRE_SIZE data) with
             | Err e => Err e
             | Ok cbraw =>
               let sha := has_sha (ih_flags h) in
               let index := (PRE_SIZE + cbraw)%nat in
               let sigidx := if sha then (index + 32)%nat else index in
               if negb sig_ok then Err 1
               else
                 let index2 := (sigidx + sigsize)%nat in
                 if negb (aligned16 index2) then Err 1
                 else
                   let ctr := ctr_of_nonce (ih_nonce h) + N.of_nat (index2 / 16) in
                   (* image_end = image_blocks * 16; a section that starts at or beyond the end of the data fails its
                      HMAC check, so the bound is clamped to keep the conversion to nat small *)
                   let stop := N.to_nat (N.min (ih_image_blocks h * 16) (nlen data + 1)) in
                   match secs_parse (S (length data)) (E dek) mac (ih_nonce h) ctr data index2 stop with
                   | Err e => Err e
                   | Ok secs =>
                     if sha && negb (eqb_list (slice data index (index + 32)) (sha256 (skipn index2 data))) then Err 2
                     else Ok (mkParsed (ih_flags h)
                                       (ih_pv h) (ih_cv h) (ih_build h) (ih_ts h / 1000000 * 1000000) (ih_nonce h) dek mac
                                       secs sigidx sigsize)
                   end
             end
      end
    end
  end.

(* ---------------- the boot ROM (independent of the builder's code path) ---------------- *)
(* container layout of the 96-byte image header, written from the format description *)
Definition rom_imghdr_layout : list (bool * nat) :=
  [(true, 16); (true, 4); (true, 4); (false, 1); (false, 1); (false, 2); (false, 4); (false, 4); (false, 4); (false, 4);
   (false, 2); (false, 2); (false, 2); (false, 2); (true, 4); (false, 8);
   (false, 2); (false, 2); (false, 2); (false, 2); (false, 2); (false, 2);
   (false, 2); (false, 2); (false, 2); (false, 2); (false, 2); (false, 2); (false, 4); (true, 4)]%nat.
Definition rom_certhdr_layout : list (bool * nat) :=
  [(true, 4); (false, 2); (false, 2); (false, 4); (false, 4); (false, 4); (false, 4); (false, 4); (false, 4)]%nat.

Record rom_out := mkRom { r_major : N; r_minor : N; r_flags : N; r_pv : N * N * N; r_cv : N * N * N; r_build : N; r_ts : N;
                          r_secs : list (N * list rcmd); r_signed_len : nat; r_sig : list N }.

Definition bswap (v : N) : N := (v mod 256) * 256 + v / 256.

Definition rom21 (sigsize : nat) (kek file : list N) : option rom_out :=
  if Nat.ltb (length file) 208 then None
  else match unpack rom_imghdr_layout file with
  | [FB nonce; FB _; FB s1; FI mj; FI mn; FI fl; FI ib; FI fbtb; FI _; FI co; FI hb; FI kbb; FI kbbc; FI _;
     FB s2; FI ts; FI p0; FI _; FI p1; FI _; FI p2; FI _; FI c0; FI _; FI c1; FI _; FI c2; FI _; FI bn; FB _] =>
      if negb (eqb_list s1 [83; 84; 77; 80] && eqb_list s2 [115; 103; 116; 108]) then None       (* "STMP", "sgtl" *)
      else if negb ((mj =? 2) && (mn =? 1)) then None
      else if negb ((hb =? 6) && (kbb =? 8) && (kbbc =? 5) && (co =? 208)) then None
      else
        (* key blob: RFC 3394 over the first 72 bytes of the 80-byte field *)
        match kw_unwrap (D kek) (slice file 128 200) with
        | None => None
        | Some keys =>
          if negb (Nat.eqb (length keys) 64) then None
          else
            let dek := firstn 32 keys in
            let mac := skipn 32 keys in
            (* certificate block *)
            let cbd := skipn 208 file in
            match unpack rom_certhdr_layout cbd with
            | [FB sg; FI _; FI _; FI hl; FI _; FI _; FI _; FI _; FI ctl] =>
                if negb (eqb_list sg [99; 101; 114; 116] && (hl =? 32)) then None
                else if (nlen file <? ctl) || (nlen file <? ib * 16) || (ib <=? fbtb) then None
                else
                  let cbsz := ((32 + N.to_nat ctl + 128 + 15) / 16 * 16)%nat in
                  let sha := N.testbit fl 15 in
                  let signed_len := (208 + cbsz + (if sha then 32 else 0))%nat in
                  let sig := slice file signed_len (signed_len + sigsize) in
                  let start := (N.to_nat fbtb * 16)%nat in
                  let stop := (N.to_nat ib * 16)%nat in
                  if negb (Nat.eqb (length sig) sigsize) then None
                  else if negb (Nat.leb (signed_len + sigsize) start && Nat.ltb start stop && Nat.leb stop (length file)) then None
                  else
                    let img := firstn stop file in
                    if sha && negb (eqb_list (slice file (208 + cbsz) (208 + cbsz + 32)) (sha256 (skipn start img))) then None
                    else
                      (* header MAC: HMAC over the MAC entries (header MAC + table) of the first section *)
                      match rom_hdr (xblock (E dek) nonce (ctr_of_nonce nonce + N.of_nat (start / 16)) (slice img start (start + 16))) with
                      | None => None
                      | Some h0 =>
                          if nlen file <? h_data h0 then None else
                          let k := N.to_nat (h_data h0) in
                          if negb (eqb_list (slice file 96 128) (hmac256 mac (slice img (start + 16) (start + 48 + 32 * k)))) then None
                          else match rom_sections (E dek) (S (length img)) mac nonce img start stop with
                               | None => None
                               | Some secs =>
                                   Some (mkRom mj mn fl (bswap p0, bswap p1, bswap p2) (bswap c0, bswap c1, bswap c2) bn ts
                                               secs signed_len sig)
                               end
                      end
            | _ => None
            end
        end
  | _ => None
  end.

End Cipher.

(* ------------------------------------------------------------------ executable instance: CryptoRef AES *)
Definition fit16 (l : list N) : list N := fit 16 l.
Definition sbE (key : list N) : list N -> list N := let rks := key_expansion key in fun b => fit16 (cipher_rks rks b).
Definition sbD (key : list N) : list N -> list N := let rks := key_expansion key in fun b => fit16 (inv_cipher_rks rks b).

Definition build21 : sbin -> res (list N) := build21_gen sbE true.           (* the code as it is *)
Definition build21_old : sbin -> res (list N) := build21_gen sbE false.      (* before the repair of C04-F2 *)
Definition spsdk_parse21 := parse21 sbE sbD.
Definition rom21_aes := rom21 sbE sbD.

(* ------------------------------------------------------------------ value codecs for run_case *)
Definition zN (z : Z) : N := Z.to_N z.
Definition v3 (v : N * N * N) : value := let '(a, b, c) := v in VList [vN a; vN b; vN c].

Definition cmd_of_value (v : value) : option cmd :=
  match v with
  | VList [VInt 0] => Some CNop
  | VList [VInt 1] => Some CTag
  | VList [VInt 8] => Some CReset
  | VList [VInt 2; VInt a; VInt m; VBytes d; VBytes p] => Some (CLoad (zN a) (zN m) d p)
  | VList [VInt 3; VInt a; VInt p; VInt l] => Some (CFill (zN a) (zN p) (zN l))
  | VList [VInt 4; VInt a; VInt g; VInt hs; VInt s] => Some (CJump (zN a) (zN g) (if (hs =? 0)%Z then None else Some (zN s)))
  | VList [VInt 5; VInt a; VInt g] => Some (CCall (zN a) (zN g))
  | VList [VInt 7; VInt a; VInt l; VInt f; VInt m] => Some (CErase (zN a) (zN l) (zN f) (zN m))
  | VList [VInt 9; VInt a; VInt s; VInt m] => Some (CMemEnable (zN a) (zN s) (zN m))
  | VList [VInt 10; VInt a; VInt m; VInt w1; VInt w2; VInt f] => Some (CProg (zN a) (zN m) (zN w1) (zN w2) (zN f))
  | VList [VInt 11; VInt t; VInt ver] => Some (CVerCheck (zN t) (zN ver))
  | VList [VInt 12; VInt a; VInt c] => Some (CKsRestore (zN a) (zN c))
  | VList [VInt 13; VInt a; VInt c] => Some (CKsBackup (zN a) (zN c))
  | _ => None
  end.

Fixpoint opt_all {A} (l : list (option A)) : option (list A) :=
  match l with
  | [] => Some []
  | None :: _ => None
  | Some x :: t => match opt_all t with Some r => Some (x :: r) | None => None end
  end.

Definition sec_of_value (v : value) : option section :=
  match v with
  | VList [VInt uid; VInt hm; VList cs] =>
      match opt_all (map cmd_of_value cs) with Some l => Some (mkSec (zN uid) (zN hm) l) | None => None end
  | _ => None
  end.

Definition ver_of_value (v : value) : option (N * N * N) :=
  match v with VList [VInt a; VInt b; VInt c] => Some (zN a, zN b, zN c) | _ => None end.

Fixpoint bytes_all (l : list value) : option (list (list N)) :=
  match l with
  | [] => Some []
  | VBytes b :: t => match bytes_all t with Some r => Some (b :: r) | None => None end
  | _ => None
  end.

Definition sbin_of_value (v : value) : option sbin :=
  match v with
  | VList [VBytes kek; VBytes dek; VBytes mac; VBytes nonce; VBytes pad; VInt ts; pv; cv; VInt build; VInt flags; VList secs;
           VList [VInt cbf; VList certs; VBytes rkht]; VInt sigsize; VBytes sig] =>
      match ver_of_value pv, ver_of_value cv, opt_all (map sec_of_value secs), bytes_all certs with
      | Some p, Some c, Some ss, Some cl =>
          Some (mkSbin kek dek mac nonce pad (zN ts) p c (zN build) (zN flags) ss (mkCb (zN cbf) cl rkht) (Z.to_nat sigsize) sig)
      | _, _, _, _ => None
      end
  | _ => None
  end.

Definition vhdr (h : hdr) : list value := [vN (h_tag h); vN (h_flags h); vN (h_addr h); vN (h_count h); vN (h_data h)].
Definition vpcmd (p : pcmd) : value := let '(h, pl, aux) := p in VList (vhdr h ++ [VBytes pl; vN aux]).
Definition vsec (s : N * N * list pcmd) : value := let '(uid, hc, ps) := s in VList [vN uid; vN hc; VList (map vpcmd ps)].

Definition vparsed (p : parsed) : value :=
  VList [vN (p_flags p); v3 (p_pv p); v3 (p_cv p); vN (p_build p); vN (p_ts p); VBytes (p_nonce p); VBytes (p_dek p);
         VBytes (p_mac p); VList (map vsec (p_secs p)); vnat (p_signed_len p); vnat (p_sig_len p)].

Definition vopt_n (o : option N) : value := match o with Some x => VList [vN x] | None => VList [] end.
Definition vrcmd (c : rcmd) : value :=
  match c with
  | RNop => VList [VInt 0] | RTag => VList [VInt 1] | RReset => VList [VInt 8]
  | RLoad dv g a d => VList [VInt 2; vN dv; vN g; vN a; VBytes d]
  | RFill a l w => VList [VInt 3; vN a; vN l; vN w]
  | RJump a g sp => VList [VInt 4; vN a; vN g; vopt_n sp]
  | RCall a g => VList [VInt 5; vN a; vN g]
  | RErase dv g lo a l => VList [VInt 7; vN dv; vN g; vN lo; vN a; vN l]
  | RMemEnable dv g a s => VList [VInt 9; vN dv; vN g; vN a; vN s]
  | RProg dv lo i w1 w2 => VList [VInt 10; vN dv; vN lo; vN i; vN w1; vN w2]
  | RVerCheck t v => VList [VInt 11; vN t; vN v]
  | RKsRestore c a => VList [VInt 12; vN c; vN a]
  | RKsBackup c a => VList [VInt 13; vN c; vN a]
  end.
Definition vrom (r : rom_out) : value :=
  VList [vN (r_major r); vN (r_minor r); vN (r_flags r); v3 (r_pv r); v3 (r_cv r); vN (r_build r); vN (r_ts r);
         VList (map (fun s => VList [vN (fst s); VList (map vrcmd (snd s))]) (r_secs r)); vnat (r_signed_len r); VBytes (r_sig r)].

(* specification-side view of an input: what the ROM must see (used for the boolean form of rom21_build) *)
Definition spec_secs (x : sbin) : list (N * list rcmd) := map (fun s => (s_uid s, map sem (s_cmds s))) (x_secs x).

Definition vres_list {A} (f : A -> value) (r : res (list A)) : value := vres (fun l => VList (map f l)) r.

(* function ids:
   1 build21 [sbin]                          -> file bytes
   2 spsdk_parse21 [sig_ok; sigsize; kek; data]
   3 rom21 [sigsize; kek; data]              -> VList [] when the ROM rejects
   4 cmd_export + observation [cmd]          -> [bytes; observation]
   5 parse_command stream [bytes]            -> observations
   6 rom_cmds [bytes]                        -> ROM view of a plaintext command stream
   7 sem [cmd list]                          -> specification-side ROM view
   8 build21_old [sbin]                      (the builder before the repair of C04-F2)
   9 ihdr_parse [bytes]  *)
Definition run_case (fn : Z) (args : list value) : value :=
  match fn, args with
  | 1%Z, [v] => match sbin_of_value v with Some x => vres VBytes (build21 x) | None => VErr E_BADCASE end
  | 8%Z, [v] => match sbin_of_value v with Some x => vres VBytes (build21_old x) | None => VErr E_BADCASE end
  | 2%Z, [VInt ok; VInt sigsize; VBytes kek; VBytes data] =>
      vres vparsed (spsdk_parse21 (negb (ok =? 0)%Z) (Z.to_nat sigsize) kek data)
  | 3%Z, [VInt sigsize; VBytes kek; VBytes data] => vopt vrom (rom21_aes (Z.to_nat sigsize) kek data)
  | 4%Z, [v] => match cmd_of_value v with
                | Some c => match cmd_export c, cmd_obs c with
                            | Ok b, Ok o => VList [VBytes b; vpcmd o]
                            | Err e, _ => VErr e
                            | _, Err e => VErr e
                            end
                | None => VErr E_BADCASE
                end
  | 5%Z, [VBytes d] => vres_list vpcmd (cmds_parse (S (length d)) d)
  | 6%Z, [VBytes d] => vopt (fun l => VList (map vrcmd l)) (rom_cmds (S (length d)) d)
  | 7%Z, [VList cs] => match opt_all (map cmd_of_value cs) with
                       | Some l => VList (map (fun c => vrcmd (sem c)) l)
                       | None => VErr E_BADCASE
                       end
  | 9%Z, [VBytes d] =>
      vres (fun h => VList [VBytes (ih_nonce h); vN (ih_major h); vN (ih_minor h); vN (ih_flags h); vN (ih_image_blocks h);
                            vN (ih_first_boot_tag_block h); vN (ih_first_boot_section_id h); vN (ih_cert_off h);
                            vN (ih_header_blocks h); vN (ih_key_blob_block h); vN (ih_key_blob_block_count h); vN (ih_max_mac h);
                            vN (ih_ts h); v3 (ih_pv h); v3 (ih_cv h); vN (ih_build h)]) (ihdr_parse d)
  | _, _ => VErr E_BADCASE
  end.
