(* Model/MbiBcaIoModel.v -- fast literal input / output (primitive 63-bit integers, see MbiIoModel.v) for the
   correspondence cases of the BCA / FCF based images.  Definitions only; nothing in Proofs/ or Props/ depends on it. *)
From Coq Require Import ZArith NArith List Bool Uint63.
Require Import Value Bytes MbiMixinModel GenMbi MbiModel MbiIoModel MbiBcaModel.
Import ListNotations.

Definition io_bca (fam : Z) (cv xv kv pcv pv : value) : cvalue := compact (run_bca fam cv xv kv pcv pv).
