(* Model/SigEncModel.v -- C08: signature and raw-key encodings of spsdk/crypto/keys.py,
   SPSDKEncoding.get_file_encodings and SignatureProvider.get_signature.  Definitions only.

   Faithful to the code, defects included (D23: ECDSASignature guesses encoding and curve from the length).
   Tables, window constants and divisors come from Gen/GenSigEnc.v (regenerated from source on every run).

   Black boxes (cryptography / OpenSSL), modelled from their documented behaviour and tied by correspondence:
     utils.encode_dss_signature / decode_dss_signature  = strict DER codec of  SEQUENCE { INTEGER r, INTEGER s }
     (rust asn1: definite minimal lengths of at most 4 length bytes, minimal non-negative INTEGERs, no trailing data);
     EllipticCurvePublicNumbers.public_key() = "the point reduced mod p is on the curve";
     PEM/DER key loaders and RSAPublicNumbers.public_key() are *inputs* of the dispatch functions. *)
From Coq Require Import ZArith NArith List Bool.
Require Import Value Bytes GenSigEnc.
Import ListNotations.
Local Open Scope Z_scope.

(* ---------- big-endian encoder by shifts (Lib/Bytes.be_enc divides by 256, which is quadratic under vm_compute);
   Proofs/SigEncProofs.be_enc_f_eq : be_enc_f w n = be_enc w n ---------- *)
Fixpoint le_enc_f (w : nat) (n : N) : list N :=
  match w with
  | O => []
  | S w' => N.land n 255 :: le_enc_f w' (N.shiftr n 8)
  end.
Definition be_enc_f (w : nat) (n : N) : list N := rev (le_enc_f w n).

(* ---------- Python int <-> bytes, slices ---------- *)
(* v.to_bytes(w, "big"): OverflowError for a negative or too large value, ValueError for a negative length *)
Definition to_bytes_be (v w : Z) : res (list N) :=
  if (v <? 0) || (w <? 0) then Err 2%N
  else if Z.shiftl 1 (8 * w) <=? v then Err 2%N      (* 2 ^ (8 * w) *)
  else Ok (be_enc_f (Z.to_nat w) (Z.to_N v)).
Definition from_bytes_be (l : list N) : Z := Z.of_N (be_dec l).
Definition take {A} (n : Z) (l : list A) : list A := firstn (Z.to_nat n) l.      (* l[:n], n >= 0 *)
Definition drop {A} (n : Z) (l : list A) : list A := skipn (Z.to_nat n) l.       (* l[n:], n >= 0 *)
Definition ceil_div (a b : Z) : Z := - ((- a) / b).                              (* math.ceil(a / b), b > 0 *)
Definition bit_length (v : Z) : Z := Z.of_N (N.size (Z.to_N v)).                 (* v >= 0 *)
Fixpoint lookup (tbl : list (Z * Z)) (k : Z) : option Z :=
  match tbl with
  | [] => None
  | (a, b) :: t => if a =? k then Some b else lookup t k
  end.

(* ---------- DER: SEQUENCE { INTEGER r, INTEGER s } ---------- *)
(* content octets of a non-negative INTEGER: bit_length // 8 + 1 bytes, big endian (minimal two's complement) *)
Definition der_int_content (n : N) : list N := be_enc_f (N.to_nat (N.size n / 8 + 1)) n.
(* definite length, minimal: short form below 128, else 0x80+k followed by k big-endian bytes *)
Definition der_len_bytes (n : N) : list N :=
  if (n <? 128)%N then [n]
  else let k := N.to_nat ((N.size n + 7) / 8) in (128 + N.of_nat k)%N :: be_enc_f k n.
Definition der_tlv (tag : N) (c : list N) : list N := tag :: der_len_bytes (nlen c) ++ c.
Definition der_sig (r s : N) : list N :=
  der_tlv 48 (der_tlv 2 (der_int_content r) ++ der_tlv 2 (der_int_content s)).
(* utils.encode_dss_signature: ValueError for negative integers *)
Definition encode_dss (r s : Z) : res (list N) :=
  if (r <? 0) || (s <? 0) then Err 2%N else Ok (der_sig (Z.to_N r) (Z.to_N s)).

(* strict decoder (rust asn1 semantics) *)
Definition min_long_len (k : N) : N := if (k =? 1)%N then 128%N else (2 ^ (8 * (k - 1)))%N.
Definition read_len (l : list N) : option (N * list N) :=
  match l with
  | [] => None
  | b :: t =>
      if (b <? 128)%N then Some (b, t)
      else
        let k := (b - 128)%N in
        if ((1 <=? k) && (k <=? 4))%N then
          if (nlen t <? k)%N then None
          else
            let v := be_dec (firstn (N.to_nat k) t) in
            if (v <? min_long_len k)%N then None else Some (v, skipn (N.to_nat k) t)
        else None
  end.
Definition read_tlv (tag : N) (l : list N) : option (list N * list N) :=
  match l with
  | [] => None
  | t :: l1 =>
      if (t =? tag)%N then
        match read_len l1 with
        | Some (n, l2) =>
            if (nlen l2 <? n)%N then None else Some (firstn (N.to_nat n) l2, skipn (N.to_nat n) l2)
        | None => None
        end
      else None
  end.
(* INTEGER content -> non-negative value: non-empty, minimal, sign bit clear *)
Definition der_uint_val (c : list N) : option N :=
  match c with
  | [] => None
  | [b] => if (b <? 128)%N then Some b else None
  | b0 :: b1 :: _ =>
      if (b0 <? 128)%N then (if (b0 =? 0)%N && (b1 <? 128)%N then None else Some (be_dec c)) else None
  end.
Definition decode_dss (l : list N) : option (N * N) :=
  match read_tlv 48 l with
  | Some (body, []) =>
      match read_tlv 2 body with
      | Some (rc, rest1) =>
          match read_tlv 2 rest1 with
          | Some (sc, []) =>
              match der_uint_val rc, der_uint_val sc with
              | Some r, Some s => Some (r, s)
              | _, _ => None
              end
          | _ => None
          end
      | None => None
      end
  | _ => None
  end.

(* ---------- ECDSASignature (keys.py) ---------- *)
(* encodings: 0 = NXP (raw r||s), 1 = DER, 2 = PEM *)
Definition sig_get_encoding (sig : list N) : res Z :=
  let L := zlen sig in
  if existsb (fun p => snd p =? L / sig_enc_div) sig_coord_lengths then Ok 0
  else match decode_dss sig with Some _ => Ok 1 | None => Err 1%N end.

Fixpoint sig_curve_of_len (tbl : list (Z * Z)) (L : Z) : res Z :=
  match tbl with
  | [] => Err 1%N
  | (cv, c) :: t =>
      if L =? c * sig_raw_mul then Ok cv
      else if (c * sig_win_mul_lo + sig_win_lo <=? L) && (L <? c * sig_win_mul_hi + sig_win_hi) then Ok cv
      else sig_curve_of_len t L
  end.
Definition sig_get_ecc_curve (L : Z) : res Z := sig_curve_of_len sig_coord_lengths L.

Definition sig_parse (sig : list N) : res (Z * Z * Z) :=
  match sig_get_encoding sig with
  | Err k => Err k
  | Ok e =>
      if e =? 1 then
        match decode_dss sig with
        | Some (r, s) =>
            match sig_get_ecc_curve (zlen sig) with
            | Ok cv => Ok (Z.of_N r, Z.of_N s, cv)
            | Err k => Err k
            end
        | None => Err 2%N
        end
      else
        let r := from_bytes_be (take (zlen sig / sig_parse_div1) sig) in
        let s := from_bytes_be (drop (zlen sig / sig_parse_div2) sig) in
        match sig_get_ecc_curve (zlen sig) with
        | Ok cv => Ok (r, s, cv)
        | Err k => Err k
        end
  end.

Definition sig_export (r s cv enc : Z) : res (list N) :=
  if enc =? 0 then
    match lookup sig_coord_lengths cv with
    | None => Err 2%N
    | Some c => bind (to_bytes_be r c) (fun rb => bind (to_bytes_be s c) (fun sb => Ok (rb ++ sb)))
    end
  else if enc =? 1 then encode_dss r s
  else Err 1%N.

Definition sig_parse_export (r s cv enc : Z) : res (Z * Z * Z) := bind (sig_export r s cv enc) sig_parse.

(* ---------- KeyEccCommon / PrivateKeyEcc.sign / PublicKeyEcc.verify_signature ---------- *)
Definition coordinate_size (ks : Z) : Z := ceil_div ks coord_size_div.
Definition signature_size (ks : Z) : Z := coordinate_size ks * sig_size_mul.
(* serialize_signature(der, coordinate_length) *)
Definition serialize_signature (sig : list N) (c : Z) : res (list N) :=
  match decode_dss sig with
  | None => Err 2%N
  | Some (r, s) => bind (to_bytes_be (Z.of_N r) c) (fun rb => bind (to_bytes_be (Z.of_N s) c) (fun sb => Ok (rb ++ sb)))
  end.
(* what PrivateKeyEcc.sign returns for the DER signature produced by the primitive *)
Definition ecc_sign_format (der : list N) (ks : Z) (der_format : bool) : res (list N) :=
  if der_format then Ok der else serialize_signature der (coordinate_size ks).
(* raw -> DER re-encoding done by PublicKeyEcc.verify_signature for a signature of exactly signature_size bytes *)
Definition verify_reencode (sig : list N) (ks : Z) : res (list N) :=
  let cs := ceil_div ks ecc_verify_div in
  if zlen sig =? signature_size ks then encode_dss (from_bytes_be (take cs sig)) (from_bytes_be (drop cs sig))
  else Ok sig.
(* list.insert(i, x) for i in {0, 1} on a one-element list *)
Definition insert_at (i : Z) (x : list N) (l : list (list N)) : list (list N) :=
  if i <=? 0 then x :: l else match l with [] => [x] | y :: t => y :: x :: t end.
(* the candidate byte strings PublicKeyEcc.verify_signature hands to the primitive, in order; the signature is
   accepted iff the primitive accepts one of them: the bytes as they are (DER), and - when the length is exactly
   signature_size - their reading as raw r||s re-encoded to DER *)
Definition verify_candidates (sig : list N) (ks : Z) : res (list (list N)) :=
  if zlen sig =? signature_size ks
  then bind (verify_reencode sig ks) (fun d => Ok (insert_at ecc_verify_first d [sig]))
  else Ok [sig].

(* ---------- SignatureProvider.get_signature (enc = -1: None) ---------- *)
Definition get_signature (sig : list N) (enc : Z) : res (list N) :=
  match sig_parse sig with
  | Ok (r, s, cv) =>
      match sig_export r s cv (if enc =? -1 then 0 else enc) with
      | Ok b => Ok b
      | Err k => if (k =? 1)%N then Ok sig else Err k
      end
  | Err k => if (k =? 1)%N then Ok sig else Err k
  end.

(* ---------- PublicKeyRsa NXP raw format ---------- *)
(* export(NXP, exp_length, modulus_length); 0 stands for None (`x or default`) *)
Definition rsa_export_nxp (e n exp_len mod_len : Z) : res (list N) :=
  let el := if exp_len =? 0 then ceil_div (bit_length e) rsa_exp_div else exp_len in
  let ml := if mod_len =? 0 then ceil_div (bit_length n) rsa_mod_div else mod_len in
  bind (to_bytes_be e el) (fun eb => bind (to_bytes_be n ml) (fun mb => Ok (mb ++ eb))).
Fixpoint rsa_recreate_tbl (tbl : list Z) (data : list N) : res (Z * Z) :=
  match tbl with
  | [] => Err 1%N
  | ks :: t =>
      let kb := ks / rsa_raw_div in
      if (kb + rsa_raw_exp_lo <=? zlen data) && (zlen data <=? kb + rsa_raw_exp_hi)
      then Ok (from_bytes_be (drop kb data), from_bytes_be (take kb data))        (* (e, n) *)
      else rsa_recreate_tbl t data
  end.
Definition rsa_recreate_public_numbers (data : list N) : res (Z * Z) := rsa_recreate_tbl rsa_key_sizes data.

(* ---------- PublicKeyEcc NXP raw format ---------- *)
Definition p2 (k : Z) : Z := Z.shiftl 1 k.      (* 2 ^ k *)
Definition curve_p (ks : Z) : Z :=
  if ks =? 256 then p2 256 - p2 224 + p2 192 + p2 96 - 1
  else if ks =? 384 then p2 384 - p2 128 - p2 96 + p2 32 - 1
  else p2 521 - 1.
Definition curve_b (ks : Z) : Z :=
  if ks =? 256 then 41058363725152142129326129780047268409114441015993725554835256314039467401291
  else if ks =? 384 then 27580193559959705877849011840389048093056905856361568521428707301988689241309860865136260764883745107765439761230575
  else 1093849038073734274511112390766805569936207598951683748994586394495953116150735016013708737573759623248592132296706313309438452531591012912142327488478985984.
(* EllipticCurvePublicNumbers(x, y, curve).public_key(): coordinates are reduced mod p, the point must be on the curve *)
Definition on_curve (ks x y : Z) : bool :=
  let p := curve_p ks in
  (0 <=? x) && (0 <=? y) && ((y * y - (x * x * x - 3 * x + curve_b ks)) mod p =? 0).
Definition ecc_export_nxp (x y ks : Z) : res (list N) :=
  let cs := coordinate_size ks in
  bind (to_bytes_be x cs) (fun xb => bind (to_bytes_be y cs) (fun yb => Ok (xb ++ yb))).

Inductive pubkey := KEcc (cv x y : Z) | KRsa (e n : Z).

(* get_curve(data_length, curve): (curve id, key size, der_format) *)
Fixpoint ecc_get_curve (tbl : list (Z * Z)) (L : Z) : res (Z * Z * bool) :=
  match tbl with
  | [] => Err 1%N
  | (cv, ks) :: t =>
      let css := ceil_div ks ecc_raw_div * ecc_raw_mul in
      if css =? L then Ok (cv, ks, false)
      else if (css + ecc_raw_der_lo <=? L) && (L <=? css + ecc_raw_der_lo + ecc_raw_der_span) then Ok (cv, ks, true)
      else ecc_get_curve t L
  end.
Definition curve_list (curve : Z) : list (Z * Z) :=      (* [curve] if curve else list(EccCurve); -1 = None *)
  if curve =? -1 then ecc_curves
  else match lookup ecc_curves curve with Some ks => [(curve, ks)] | None => [] end.
(* der: result of cryptography's DER public-key loader on the same data (black box) *)
Definition ecc_recreate_from_data (data : list N) (curve : Z) (der : option pubkey) : res pubkey :=
  match ecc_get_curve (curve_list curve) (zlen data) with
  | Err k => Err k
  | Ok (cv, ks, true) =>
      match der with
      | None => Err 1%N
      | Some (KEcc a b c) => Ok (KEcc a b c)
      | Some _ => Err 2%N
      end
  | Ok (cv, ks, false) =>
      let cl := zlen data / ecc_raw_half in
      let x := from_bytes_be (take cl data) in
      let y := from_bytes_be (drop cl data) in
      if on_curve ks x y then Ok (KEcc cv (x mod curve_p ks) (y mod curve_p ks)) else Err 1%N
  end.

(* ---------- SPSDKEncoding.get_file_encodings: PEM iff the data decode as UTF-8 and contain the marker ---------- *)
Definition is_cont (b : N) : bool := ((128 <=? b) && (b <=? 191))%N.
Definition in_rng (lo hi b : N) : bool := ((lo <=? b) && (b <=? hi))%N.
Fixpoint utf8_valid_fuel (fuel : nat) (l : list N) : bool :=
  match fuel with
  | O => false
  | S f =>
      match l with
      | [] => true
      | b :: t =>
          if (b <? 128)%N then utf8_valid_fuel f t
          else if in_rng 194 223 b then
            match t with c1 :: t' => is_cont c1 && utf8_valid_fuel f t' | _ => false end
          else if in_rng 224 239 b then
            match t with
            | c1 :: c2 :: t' =>
                (if (b =? 224)%N then in_rng 160 191 c1 else if (b =? 237)%N then in_rng 128 159 c1 else is_cont c1)
                && is_cont c2 && utf8_valid_fuel f t'
            | _ => false
            end
          else if in_rng 240 244 b then
            match t with
            | c1 :: c2 :: c3 :: t' =>
                (if (b =? 240)%N then in_rng 144 191 c1 else if (b =? 244)%N then in_rng 128 143 c1 else is_cont c1)
                && is_cont c2 && is_cont c3 && utf8_valid_fuel f t'
            | _ => false
            end
          else false
      end
  end.
Definition utf8_valid (l : list N) : bool := utf8_valid_fuel (S (length l)) l.
Fixpoint is_prefix (p l : list N) : bool :=
  match p, l with
  | [], _ => true
  | a :: p', b :: l' => (a =? b)%N && is_prefix p' l'
  | _ :: _, [] => false
  end.
Fixpoint contains (p l : list N) : bool :=
  is_prefix p l || match l with [] => false | _ :: t => contains p t end.
(* the marker is ASCII, so searching the bytes equals searching the decoded text *)
Definition pem_like (data : list N) : bool := utf8_valid data && contains pem_marker data.

(* ---------- PublicKey.parse / PublicKeyEcc.parse / PublicKeyRsa.parse on the sniffing layer ----------
   pem / der: what cryptography's PEM / DER loaders return for the data (None = not loadable);
   rsa_valid: RSAPublicNumbers(e, n).public_key() succeeds (else ValueError);
   the OTPS text format (hex string of an ASN.1 structure) is assumed not to apply. *)
Definition rsa_recreate_from_data (data : list N) (rsa_valid : bool) : res pubkey :=
  match rsa_recreate_public_numbers data with
  | Ok (e, n) => if rsa_valid then Ok (KRsa e n) else Err 2%N
  | Err k => Err k
  end.
Definition pub_parse (data : list N) (pem der : option pubkey) (rsa_valid : bool) : res pubkey :=
  if pem_like data then match pem with Some k => Ok k | None => Err 1%N end
  else
    match der with
    | Some k => Ok k
    | None =>
        match ecc_recreate_from_data data (-1) None with
        | Ok k => Ok k
        | Err 1%N =>
            match rsa_recreate_from_data data rsa_valid with
            | Ok k => Ok k
            | Err 1%N => Err 1%N
            | Err k => Err k
            end
        | Err k => Err k
        end
    end.
Definition ecc_pub_parse (data : list N) (pem der : option pubkey) (rsa_valid : bool) : res pubkey :=
  match pub_parse data pem der rsa_valid with
  | Ok (KEcc a b c) => Ok (KEcc a b c)
  | Ok _ => Err 1%N
  | Err 1%N => ecc_recreate_from_data data (-1) der
  | Err k => Err k
  end.
Definition rsa_pub_parse (data : list N) (pem der : option pubkey) (rsa_valid : bool) : res pubkey :=
  match pub_parse data pem der rsa_valid with
  | Ok (KRsa e n) => Ok (KRsa e n)
  | Ok _ => Err 1%N
  | Err 1%N => rsa_recreate_from_data data rsa_valid
  | Err k => Err k
  end.

(* ---------- nxpcrypto key convert -e RAW and reconstruct_key (spsdk/apps/nxpcrypto.py); keys.get_ecc_curve ---------- *)
Definition cli_raw_width (ks : Z) : Z := coordinate_size ks.                  (* key.coordinate_size *)
Definition cli_convert_raw_pub (x y ks : Z) : res (list N) :=
  let w := cli_raw_width ks in
  bind (to_bytes_be x w) (fun xb => bind (to_bytes_be y w) (fun yb => Ok (xb ++ yb))).
Definition cli_convert_raw_prv (d ks : Z) : res (list N) := to_bytes_be d (cli_raw_width ks).
(* keys.get_ecc_curve(key_length) *)
Definition key_len_curve (L : Z) : res Z :=
  if (L <=? klc_256_max) || (L =? klc_256_pub) then Ok 0
  else if (L <=? klc_384_max) || (L =? klc_384_pub) then Ok 1
  else if L <=? klc_521_max then Ok 2
  else Err 1%N.
Definition curve_n (ks : Z) : Z :=
  if ks =? 256 then 115792089210356248762697446949407573529996955224135760342422259061068512044369
  else if ks =? 384 then 39402006196394479212279040100143613805079739270465446667946905279627659399113263569398956308152294913554433653942643
  else 6864797660130609714981900799081393217269435300143305409394463459185543183397655394245057746333217197532963996371363321113864768612440380340372808892707005449.
Inductive clikey := CPub (k : pubkey) | CPrv (cv d : Z).
(* reconstruct_key(data) for data that PrivateKey.parse rejects with an SPSDK error (black box);
   pub = what PublicKey.parse does with the data (pub_parse) *)
Definition cli_reconstruct (data : list N) (pub : res pubkey) : res clikey :=
  match pub with
  | Ok k => Ok (CPub k)
  | Err 1%N =>
      let L := zlen data in
      match key_len_curve L with
      | Err k => Err k
      | Ok cv =>
          match lookup ecc_curves cv with
          | None => Err 2%N
          | Some ks =>
              if (L <=? cli_prv_max) || (L =? cli_prv_extra) then
                let d := from_bytes_be data in
                if (1 <=? d) && (d <? curve_n ks) then Ok (CPrv cv d) else Err 2%N     (* derive_private_key: ValueError *)
              else if (L =? cli_pub_a) || (L =? cli_pub_b) then
                let cl := L / cli_pub_half in
                let x := from_bytes_be (take cl data) in
                let y := from_bytes_be (drop cl data) in
                if on_curve ks x y then Ok (CPub (KEcc cv (x mod curve_p ks) (y mod curve_p ks))) else Err 1%N
              else Err 1%N
          end
      end
  | Err k => Err k
  end.
Definition vclikey (k : clikey) : value :=
  match k with
  | CPub (KEcc cv x y) => VList [VInt 0; VInt cv; VInt x; VInt y]
  | CPub (KRsa e n) => VList [VInt 1; VInt e; VInt n]
  | CPrv cv d => VList [VInt 2; VInt cv; VInt d]
  end.

(* ---------- run_case dispatcher for the correspondence check ---------- *)
Definition vbytes_res (r : res (list N)) : value := vres VBytes r.
Definition zb (z : Z) : bool := negb (z =? 0).
Definition vsig (t : Z * Z * Z) : value := let '(r, s, cv) := t in VList [VInt r; VInt s; VInt cv].
Definition vkey (k : pubkey) : value :=
  match k with
  | KEcc cv x y => VList [VInt 0; VInt cv; VInt x; VInt y]
  | KRsa e n => VList [VInt 1; VInt e; VInt n]
  end.
Definition key_of (v : value) : option (option pubkey) :=
  match v with
  | VList [] => Some None
  | VList [VInt 0; VInt cv; VInt x; VInt y] => Some (Some (KEcc cv x y))
  | VList [VInt 1; VInt e; VInt n] => Some (Some (KRsa e n))
  | _ => None
  end.

(* integers of 2^63 and above travel as VStr (big-endian magnitude bytes): decimal input/output of large
   numbers is the slowest part of an evaluation *)
Fixpoint norm_in (v : value) : value :=
  match v with
  | VStr l => VInt (from_bytes_be l)
  | VList l => VList (map norm_in l)
  | _ => v
  end.
Fixpoint norm_out (v : value) : value :=
  match v with
  | VInt z => if 2 ^ 63 <=? z then VStr (be_enc_f (N.to_nat ((N.size (Z.to_N z) + 7) / 8)) (Z.to_N z)) else v
  | VList l => VList (map norm_out l)
  | _ => v
  end.

Definition run_case_raw (fn : Z) (args : list value) : value :=
  match fn, args with
  | 1, [VInt r; VInt s] => vbytes_res (encode_dss r s)
  | 2, [VBytes b] => match decode_dss b with Some (r, s) => VList [VInt (Z.of_N r); VInt (Z.of_N s)] | None => VErr 2%N end
  | 3, [VBytes b] => vres VInt (sig_get_encoding b)
  | 4, [VInt L] => vres VInt (sig_get_ecc_curve L)
  | 5, [VBytes b] => vres vsig (sig_parse b)
  | 6, [VInt r; VInt s; VInt cv; VInt enc] => vbytes_res (sig_export r s cv enc)
  | 7, [VInt r; VInt s; VInt cv; VInt enc] => vres vsig (sig_parse_export r s cv enc)
  | 8, [VBytes b; VInt c] => vbytes_res (serialize_signature b c)
  | 9, [VBytes b; VInt ks] => vres (fun l => VList (map VBytes l)) (verify_candidates b ks)
  | 10, [VBytes b; VInt enc] => vbytes_res (get_signature b enc)
  | 11, [VInt e; VInt n; VInt el; VInt ml] => vbytes_res (rsa_export_nxp e n el ml)
  | 12, [VBytes b] => vres (fun p => VList [VInt (fst p); VInt (snd p)]) (rsa_recreate_public_numbers b)
  | 13, [VInt x; VInt y; VInt ks] => vbytes_res (ecc_export_nxp x y ks)
  | 14, [VBytes b; VInt curve; der] =>
      match key_of der with Some d => vres vkey (ecc_recreate_from_data b curve d) | None => VErr E_BADCASE end
  | 15, [VBytes b; pem; der; VInt rv] =>
      match key_of pem, key_of der with
      | Some p, Some d => vres vkey (pub_parse b p d (zb rv))
      | _, _ => VErr E_BADCASE
      end
  | 16, [VBytes b; pem; der; VInt rv] =>
      match key_of pem, key_of der with
      | Some p, Some d => vres vkey (ecc_pub_parse b p d (zb rv))
      | _, _ => VErr E_BADCASE
      end
  | 17, [VBytes b; pem; der; VInt rv] =>
      match key_of pem, key_of der with
      | Some p, Some d => vres vkey (rsa_pub_parse b p d (zb rv))
      | _, _ => VErr E_BADCASE
      end
  | 18, [VBytes b] => vbool (pem_like b)
  | 19, [VBytes b; VInt ks; VInt df] => vbytes_res (ecc_sign_format b ks (zb df))
  | 20, [VInt x; VInt y; VInt ks] => vbytes_res (cli_convert_raw_pub x y ks)
  | 21, [VInt d; VInt ks] => vbytes_res (cli_convert_raw_prv d ks)
  | 22, [VBytes b; pem; der; VInt rv] =>
      match key_of pem, key_of der with
      | Some p, Some d => vres vclikey (cli_reconstruct b (pub_parse b p d (zb rv)))
      | _, _ => VErr E_BADCASE
      end
  | _, _ => VErr E_BADCASE
  end.
Definition run_case (fn : Z) (args : list value) : value := norm_out (run_case_raw fn (map norm_in args)).

(* ---------- sanity examples (values observed on the real code) ---------- *)
Example ex_der_1_1 : der_sig 1 1 = [48; 6; 2; 1; 1; 2; 1; 1]%N.
Proof. vm_compute. reflexivity. Qed.
Example ex_der_128 : der_sig 128 1 = [48; 7; 2; 2; 0; 128; 2; 1; 1]%N.
Proof. vm_compute. reflexivity. Qed.
Example ex_dec_0_127 : decode_dss [48; 6; 2; 1; 0; 2; 1; 127]%N = Some (0, 127)%N.
Proof. vm_compute. reflexivity. Qed.
Example ex_dec_nonminimal : decode_dss [48; 7; 2; 2; 0; 1; 2; 1; 1]%N = None.
Proof. vm_compute. reflexivity. Qed.
Example ex_d23_parse : sig_parse (der_sig 1 1) = Err 1%N.
Proof. vm_compute. reflexivity. Qed.
Example ex_marker_ascii : forallb (fun c => (c <? 128)%N) pem_marker = true.
Proof. vm_compute. reflexivity. Qed.
