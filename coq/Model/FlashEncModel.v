(* Model/FlashEncModel.v -- C13: flash encryption (OTFAD, IEE, BEE).
   Faithful executable models of
     spsdk/utils/crypto/otfad.py  KeyBlob.{__init__, plain_data, export, _get_ctr_nonce, matches_range, encrypt_image,
                                  is_encrypted}, Otfad.{encrypt_image, get_key_blobs, encrypt_key_blobs}
     spsdk/utils/crypto/iee.py    IeeKeyBlob.{__init__, plain_data, matches_range, encrypt_image(_xts/_ctr), calculate_tweak},
                                  Iee.{encrypt_image, get_key_blobs, encrypt_key_blobs}
     spsdk/image/bee.py           BeeFacRegion, BeeProtectRegionBlock.{update, validate, export, encrypt_block}, BeeKIB,
                                  BeeRegionHeader.export, BeeNxp.export_image
   (defects included), and -- separately -- the SPECIFICATION side: models of the on-the-fly decryption hardware
   (otfad_hw / iee_hw / bee_hw) as functions of (key material held by the hardware, absolute address, ciphertext), and
   of the key-blob unwrapping done by the boot ROM / hardware (otfad_unwrap / iee_unwrap / bee_unwrap).
   All functions are parametric in the block cipher  E, D : key -> block -> block ; run_case instantiates AES.
   Error classes: Err 1 = SPSDKError family, Err 2 = other exception.   Definitions only. *)
From Coq Require Import ZArith NArith List Bool.
Require Import Value Bytes GenMisc MiscModel Aes Modes KeyWrap Crc.
Import ListNotations.
Local Open Scope Z_scope.

Definition cipher := list N -> list N -> list N.
(* the key schedule is computed once per partial application (vm_compute is call-by-value) *)
Definition aes_c : cipher := fun key => let rks := key_expansion key in fun b => cipher_rks rks b.
Definition aes_d : cipher := fun key => let rks := key_expansion key in fun b => inv_cipher_rks rks b.

(* ------------------------------------------------------------------ helpers *)
Definition le32 (z : Z) : list N := le_enc 4 (Z.to_N z).
Definition be32 (z : Z) : list N := be_enc 4 (Z.to_N z).
Definition u32_ok (z : Z) : bool := (0 <=? z) && (z <? 4294967296).
Definition M32 : Z := 4294967296.

(* spsdk.crypto.rng.random_bytes is pinned by the harness to this pattern *)
Definition rnd (n : nat) : list N := map (fun i => N.of_nat (Nat.modulo (i * 37 + 11) 256)) (seq 0 n).

(* align_block(data, k) with zero padding, k > 0 *)
Definition align_zero (k : nat) (l : list N) : list N :=
  match Nat.modulo (length l) k with O => l | r => l ++ zeros (k - r) end.
(* align_block_fill_random(data, 16) with the pinned generator *)
Definition pad16_rnd (l : list N) : list N :=
  match Nat.modulo (length l) 16 with O => l | r => l ++ rnd (16 - r) end.
(* extend_block(data, n) for n >= len(data) *)
Definition extend_to (n : nat) (l : list N) : list N := l ++ zeros (n - length l).

(* split_data + a running address: f is applied to (address of the piece, piece) *)
Fixpoint walk {A} (f : Z -> list N -> A) (unit fuel : nat) (addr : Z) (data : list N) : list A :=
  match fuel with
  | O => []
  | S fu =>
      match data with
      | [] => []
      | _ => let p := firstn unit data in f addr p :: walk f unit fu (addr + zlen p) (skipn unit data)
      end
  end.
Definition pieces {A} (f : Z -> list N -> A) (unit : nat) (addr : Z) (data : list N) : list A :=
  walk f unit (length data) addr data.

(* walk on the absolute grid of the hardware: the first piece ends at the next multiple of the unit
     first = min(len(image), -base % UNIT); blocks = [image[:first]] if first else []; blocks.extend(split_data(image[first:], UNIT)) *)
Definition grid_first (unit : nat) (base : Z) (data : list N) : nat :=
  Z.to_nat (Z.min (zlen data) ((- base) mod Z.of_nat unit)).
Definition grid_pieces {A} (f : Z -> list N -> A) (unit : nat) (base : Z) (data : list N) : list A :=
  let first := grid_first unit base data in
  (match first with O => [] | _ => [f base (firstn first data)] end)
  ++ pieces f unit (base + Z.of_nat first) (skipn first data).

(* the pieces are produced in order; the first exception aborts the call *)
Fixpoint seq_concat (l : list (res (list N))) : res (list N) :=
  match l with
  | [] => Ok []
  | Err k :: _ => Err k
  | Ok x :: t => match seq_concat t with Ok y => Ok (x ++ y) | Err k => Err k end
  end.

(* `for key_blob in blobs: if <matches>: encrypted_data[off : off+L] = key_blob.encrypt_image(addr, block)`
   seen from the region [off, off+L) of the bytearray: a slice assignment with a longer right-hand side grows it *)
Fixpoint blob_fold {B} (matches : B -> bool) (enc : B -> res (list N)) (L : nat) (blobs : list B) (region : list N)
  : res (list N) :=
  match blobs with
  | [] => Ok region
  | b :: t => if matches b
              then match enc b with
                   | Ok d => blob_fold matches enc L t (d ++ skipn L region)
                   | Err k => Err k
                   end
              else blob_fold matches enc L t region
  end.

Definition U1K : nat := 1024.
Definition U4K : nat := 4096.

(* ================================================================== OTFAD ============================ *)
Record kblob := { kb_key : list N; kb_ctr : list N; kb_start : Z; kb_end : Z; kb_flags : Z;
                  kb_zero : list N;        (* zero_fill argument; [] = None (random) *)
                  kb_crcfill : list N }.   (* crc argument (testing only); [] = None (computed CRC) *)

(* KeyBlob.__init__ : true = accepted *)
Definition kb_ctor_ok (k : kblob) : bool :=
  negb (negb (Nat.eqb (length (kb_key k)) 16) && negb (Nat.eqb (length (kb_ctr k)) 8))
  && negb ((kb_start k <? 0) || (kb_start k >? kb_end k) || (kb_end k >? 4294967295))
  && (Z.land (kb_flags k) (Z.lnot 7) =? 0)
  && (Z.land (kb_start k) 1023 =? 0).

Definition kb_end_with_flags (k : kblob) : Z :=
  if (kb_end k =? 0) && (kb_flags k =? 0) then 0
  else Z.lor (Z.lor (Z.land (kb_end k - 1) (Z.lnot 7)) (kb_flags k)) 1016.

(* KeyBlob.plain_data *)
Definition kb_plain (k : kblob) : res (list N) :=
  let ef := kb_end_with_flags k in
  if negb (u32_ok (kb_start k)) || negb (u32_ok ef) then Err 2          (* struct.error *)
  else
    let hdr := kb_key k ++ kb_ctr k ++ le32 (kb_start k) ++ le32 ef in
    let crc := le_enc 4 (crc CRC32_MPEG2 hdr) in
    match kb_zero k with
    | [] => (* random *)
        (match kb_crcfill k with
         | [] => let r := hdr ++ rnd 4 ++ crc ++ zeros 24 in if Nat.eqb (length r) 64 then Ok r else Err 1
         | cf => if negb (Nat.eqb (length cf) 4) then Err 1
                 else let r := hdr ++ rnd 4 ++ cf ++ zeros 24 in if Nat.eqb (length r) 64 then Ok r else Err 1
         end)
    | zf => if negb (Nat.eqb (length zf) 4) then Err 1
            else match kb_crcfill k with
                 | [] => let r := hdr ++ zf ++ crc ++ zeros 24 in if Nat.eqb (length r) 64 then Ok r else Err 1
                 | cf => if negb (Nat.eqb (length cf) 4) then Err 1
                         else let r := hdr ++ zf ++ cf ++ zeros 24 in if Nat.eqb (length r) 64 then Ok r else Err 1
                 end
    end.

(* for i in range(0, len(w), cnt): out += w[i:i+cnt][::-1] *)
Definition swap_groups (cnt : nat) (l : list N) : list N := concat (map (@rev N) (chunks cnt l)).

(* KeyBlob.export(kek, byte_swap_cnt) *)
Definition kb_export (E : cipher) (k : kblob) (kek : list N) (swapcnt : Z) : res (list N) :=
  if negb (Nat.eqb (length kek) 16) then Err 1
  else match kb_plain k with
       | Err e => Err e
       | Ok plain =>
           let wrap := kw_wrap (E kek) (firstn 40 plain) in
           let blobs := if swapcnt >? 0 then swap_groups (Z.to_nat swapcnt) wrap else wrap in
           Ok (align_zero 64 blobs)
       end.

(* the region the hardware decrypts ends with the 1 KiB unit of (end_addr - 1) *)
Definition kb_contains (k : kblob) (a : Z) : bool := (kb_start k <=? a) && (a <=? Z.lor (kb_end k - 1) 1023).
Definition kb_matches (k : kblob) (a b : Z) : bool := kb_contains k a && kb_contains k b.
Definition kb_is_encrypted (k : kblob) : bool := Z.land (kb_flags k) 3 =? 3.

(* first 12 bytes of _get_ctr_nonce() (the last four are zero and carry the counter) *)
Definition kb_nonce12 (ctr : list N) : list N :=
  firstn 4 ctr ++ skipn 4 ctr ++ xor_bytes (firstn 4 ctr) (skipn 4 ctr).
Definition swap8 (b : list N) : list N := rev (firstn 8 b) ++ rev (skipn 8 b).

Definition kb_block (f : list N -> list N) (n12 : list N) (swap : bool) (a : Z) (b : list N) : list N :=
  let i := if swap then swap8 b else b in
  let o := xor_bytes i (f (n12 ++ be32 a)) in
  if swap then swap8 o else o.

(* KeyBlob.encrypt_image(base_address, data, byte_swap, counter_value) *)
Definition kb_encrypt_image (E : cipher) (k : kblob) (base : Z) (data : list N) (swap : bool) (cv : Z) : res (list N) :=
  if negb (base mod 16 =? 0) then Err 1
  else
    let d := pad16 data in
    if negb (Nat.eqb (length (kb_ctr k)) 8) then Err 1
    else
      let cv' := if cv =? 0 then kb_start k else cv in
      (* Counter.value encodes the counter word modulo 2^32 (be32 truncates) *)
      let f := E (kb_key k) in
      let n12 := kb_nonce12 (kb_ctr k) in
      Ok (concat (pieces (kb_block f n12 swap) 16 cv' d)).

Definition otfad_piece (E : cipher) (blobs : list kblob) (swap : bool) (a : Z) (p : list N) : res (list N) :=
  blob_fold (fun k => kb_matches k a (a + zlen p - 1) && kb_is_encrypted k)
            (fun k => kb_encrypt_image E k a p swap a) (length p) blobs p.

(* Otfad.encrypt_image(image, base_addr, byte_swap) *)
Definition otfad_encrypt_image (E : cipher) (blobs : list kblob) (image : list N) (base : Z) (swap : bool) : res (list N) :=
  seq_concat (grid_pieces (otfad_piece E blobs swap) U1K base image).

(* OtfadNxp.export_image: every data blob is first aligned to 16 bytes *)
Definition otfad_nxp_encrypt (E : cipher) (blobs : list kblob) (image : list N) (base : Z) (swap : bool) : res (list N) :=
  otfad_encrypt_image E blobs (pad16 image) base swap.

Fixpoint res_concat_map {B} (f : B -> res (list N)) (l : list B) : res (list N) :=
  match l with
  | [] => Ok []
  | b :: t => match f b with
              | Err k => Err k
              | Ok x => match res_concat_map f t with Ok y => Ok (x ++ y) | Err k => Err k end
              end
  end.

(* Otfad.get_key_blobs *)
Definition otfad_get_key_blobs (blobs : list kblob) : res (list N) :=
  match res_concat_map kb_plain blobs with Ok t => Ok (align_zero 256 t) | Err k => Err k end.

(* KEK scrambling of blob number i *)
Definition otfad_mask_bytes (mask : Z) (reversed : bool) : res (list N) :=
  if reversed then match reverse_bits mask 32 with
                   | Ok m => if u32_ok m then Ok (le32 m) else Err 2
                   | Err e => Err e
                   end
  else Ok (le32 mask).

Definition xor_at (l : list N) (off : nat) (m : list N) : list N :=
  firstn off l ++ xor_bytes (firstn (length m) (skipn off l)) m ++ skipn (off + length m) l.

Definition otfad_scrambled_kek (kek mb : list N) (align : Z) (i : nat) : list N :=
  let ix := Z.land (Z.shiftr align (2 * Z.of_nat i)) 3 in
  xor_at kek (Z.to_nat (ix * 4)) mb.

Fixpoint otfad_export_all (E : cipher) (blobs : list kblob) (i : nat) (kek_of : nat -> list N) (swapcnt : Z) : res (list N) :=
  match blobs with
  | [] => Ok []
  | b :: t => match kb_export E b (kek_of i) swapcnt with
              | Err k => Err k
              | Ok x => match otfad_export_all E t (S i) kek_of swapcnt with Ok y => Ok (x ++ y) | Err k => Err k end
              end
  end.

(* Otfad.encrypt_key_blobs(kek, key_scramble_mask, key_scramble_align, byte_swap_cnt); scramble = None when disabled *)
Definition otfad_encrypt_key_blobs (E : cipher) (blobs : list kblob) (kek : list N) (scramble : option (Z * Z))
           (reversed : bool) (swapcnt : Z) : res (list N) :=
  match scramble with
  | None => match otfad_export_all E blobs 0 (fun _ => kek) swapcnt with
            | Ok t => Ok (align_zero 256 t) | Err k => Err k end
  | Some (mask, align) =>
      if mask >=? M32 then Err 1
      else if align >=? 256 then Err 1
      else match otfad_mask_bytes mask reversed with
           | Err e => Err e
           | Ok mb => match otfad_export_all E blobs 0 (otfad_scrambled_kek kek mb align) swapcnt with
                      | Ok t => Ok (align_zero 256 t) | Err k => Err k end
           end
  end.

(* ---------------- OTFAD hardware (specification side) ----------------
   A context is what the hardware holds after loading a key blob: KEY, CTR, the two region words.
   RGD_W0 = SRTADDR[31:10], RGD_W1 = ENDADDR[31:10] | RO | ADE | VLD.  An access hits a context when the context is
   valid and address[31:10] lies in SRTADDR[31:10] .. ENDADDR[31:10]; data are decrypted when ADE is set. *)
Record octx := { oc_key : list N; oc_ctr : list N; oc_w0 : Z; oc_w1 : Z }.

Definition octx_of_plain (p : list N) : octx :=
  {| oc_key := firstn 16 p; oc_ctr := firstn 8 (skipn 16 p);
     oc_w0 := Z.of_N (le_dec (firstn 4 (skipn 24 p))); oc_w1 := Z.of_N (le_dec (firstn 4 (skipn 28 p))) |}.

Definition oc_hit (c : octx) (a : Z) : bool :=
  Z.testbit (oc_w1 c) 0 && (Z.shiftr (oc_w0 c) 10 <=? Z.shiftr a 10) && (Z.shiftr a 10 <=? Z.shiftr (oc_w1 c) 10).
Definition oc_ade (c : octx) : bool := Z.testbit (oc_w1 c) 1.

(* CTRn[127:0] = { CTR_W0, CTR_W1, CTR_W0 ^ CTR_W1, systemAddress[31:4], 0000b } *)
Definition oc_counter (c : octx) (a : Z) : list N :=
  oc_ctr c ++ xor_bytes (firstn 4 (oc_ctr c)) (skipn 4 (oc_ctr c)) ++ be32 (16 * (a / 16)).

(* one 16-byte fetch at address a; swap = the byte order of the flash interface (each 64-bit half reversed) *)
Definition otfad_hw_block (E : cipher) (ctxs : list octx) (swap : bool) (a : Z) (c : list N) : list N :=
  match find (fun x => oc_hit x a) ctxs with
  | None => c
  | Some x => if oc_ade x
              then let ks := E (oc_key x) (oc_counter x a) in
                   if swap then swap8 (xor_bytes (swap8 c) ks) else xor_bytes c ks
              else c
  end.

Definition otfad_hw (E : cipher) (ctxs : list octx) (swap : bool) (base : Z) (data : list N) : list N :=
  concat (pieces (otfad_hw_block E ctxs swap) 16 base data).

(* key blob unwrapping by the ROM: undo the byte swap, RFC 3394 unwrap (IV A6..A6 checked), CRC-32/MPEG-2 over
   the first 32 bytes checked *)
Definition otfad_unwrap (D : cipher) (kek : list N) (swapcnt : Z) (rec : list N) : option octx :=
  let w := firstn 48 rec in
  let w' := if swapcnt >? 0 then swap_groups (Z.to_nat swapcnt) w else w in
  match kw_unwrap (D kek) w' with
  | None => None
  | Some p => if eqb_list (firstn 4 (skipn 36 p)) (le_enc 4 (crc CRC32_MPEG2 (firstn 32 p)))
              then Some (octx_of_plain p) else None
  end.

(* ---------------- OTFAD: specification-side vocabulary of the theorems ---------------- *)
(* the context the hardware holds for a blob (= octx_of_plain of its plain_data, lemma kb_plain / otfad_keyblob_unwrap) *)
Definition octx_of_blob (k : kblob) : octx :=
  {| oc_key := kb_key k; oc_ctr := kb_ctr k; oc_w0 := kb_start k; oc_w1 := kb_end_with_flags k |}.

(* the 1 KiB units selected by SRTADDR[31:10] .. ENDADDR[31:10] of the exported blob *)
Definition kb_covers (k : kblob) (a : Z) : bool :=
  (kb_start k / 1024 <=? a / 1024) && (a / 1024 <=? (kb_end k - 1) / 1024).

(* what KeyBlob.__init__ accepts with a non-empty range: start on the 1 KiB grid; the end address may be given as the
   exclusive end (a multiple of 1024, as in the configuration templates), as the last address (...3FF, as in the API
   examples) or anywhere in the last 1 KiB unit -- the exported region always ends with the unit of (end - 1) *)
Definition kb_wf (k : kblob) : Prop :=
  length (kb_ctr k) = 8%nat /\ 0 <= kb_start k /\ kb_start k mod 1024 = 0 /\ kb_start k < kb_end k /\
  kb_end k <= 4294967295 /\ 0 <= kb_flags k < 8.

Definition blobs_disjoint (bl : list kblob) : Prop :=
  ForallOrdPairs (fun k1 k2 => forall a, kb_covers k1 a = true -> kb_covers k2 a = false) bl.

(* no valid + decrypting context covers this address *)
Definition otfad_outside (blobs : list kblob) (a : Z) : Prop :=
  forall k, In k blobs -> kb_covers k a = true -> kb_is_encrypted k = false.

(* blobs whose byte fields are well formed (what KeyBlob.export can serialise) *)
Definition kb_codec_wf (k : kblob) : Prop :=
  kb_wf k /\ length (kb_key k) = 16%nat /\ wf_bytes (kb_key k) /\ wf_bytes (kb_ctr k) /\
  (kb_zero k = [] \/ (length (kb_zero k) = 4%nat /\ wf_bytes (kb_zero k))) /\ kb_crcfill k = [].

(* ================================================================== IEE ============================== *)
Record iblob := { ib_lock : Z; ib_keyattr : Z; ib_mode : Z; ib_start : Z; ib_end : Z;
                  ib_key1 : list N; ib_key2 : list N; ib_po : Z }.

Definition MODE_BYPASS : Z := 106.   (* 0x6A *)
Definition MODE_XTS : Z := 166.      (* 0xA6 *)
Definition MODE_CTR_ADDR : Z := 102. (* 0x66 *)
Definition MODE_CTR_NOADDR : Z := 170. (* 0xAA *)
Definition MODE_CTR_KS : Z := 25.    (* 0x19 *)
Definition KEYATTR_128_256 : Z := 90.  (* 0x5A *)
Definition KEYATTR_256_512 : Z := 165. (* 0xA5 *)

Definition mode_is_ctr (m : Z) : bool := (m =? MODE_CTR_ADDR) || (m =? MODE_CTR_NOADDR) || (m =? MODE_CTR_KS).

Definition ib_ctor_ok (b : iblob) : bool :=
  negb ((ib_start b <? 0) || (ib_start b >? ib_end b) || (ib_end b >? 4294967295))
  && (Z.land (ib_start b) 1023 =? 0).

Definition byte_ok (z : Z) : bool := (0 <=? z) && (z <? 256).

(* IeeKeyBlob.plain_data *)
Definition ib_plain (b : iblob) : res (list N) :=
  if negb (byte_ok (ib_lock b) && byte_ok (ib_keyattr b) && byte_ok (ib_mode b) && u32_ok (ib_po b)
           && u32_ok (ib_start b) && u32_ok (ib_end b)) then Err 2
  else
    let r := le32 1229276482 ++ le32 1442906112
             ++ [Z.to_N (ib_lock b); Z.to_N (ib_keyattr b); Z.to_N (ib_mode b); 0%N]
             ++ le32 (ib_po b) ++ align_zero 32 (ib_key1 b) ++ align_zero 32 (ib_key2 b)
             ++ le32 (ib_start b) ++ le32 (ib_end b) ++ le32 0 in
    Ok (r ++ le_enc 4 (crc CRC32_MPEG2 r)).

Definition ib_contains (b : iblob) (a : Z) : bool := (ib_start b <=? a) && (a <=? ib_end b).
Definition ib_matches (b : iblob) (x y : Z) : bool := ib_contains b x && ib_contains b y.

(* IeeKeyBlob.calculate_tweak *)
Definition iee_tweak (a : Z) : list N := le_enc 16 (Z.to_N (Z.shiftr a 12)).

(* IeeKeyBlob.encrypt_image_xts *)
Definition ib_encrypt_xts (E : cipher) (b : iblob) (a : Z) (d : list N) : res (list N) :=
  match reverse_bytes_in_longs (ib_key1 b), reverse_bytes_in_longs (ib_key2 b) with
  | Ok k1, Ok k2 =>
      let f1 := E k1 in let f2 := E k2 in
      Ok (concat (pieces (fun ca blk => xts_crypt f1 f2 false (iee_tweak ca) blk) U4K a d))
  | Err e, _ => Err e
  | _, Err e => Err e
  end.

Definition ib_ctr_block (f : list N -> list N) (n12 : list N) (ca : Z) (blk : list N) : list N :=
  xor_bytes blk (f (n12 ++ be32 (ca / 16))).

(* IeeKeyBlob.encrypt_image_ctr : Counter(nonce, ctr_value = base >> 4, big endian), one increment per 16-byte block *)
Definition ib_encrypt_ctr (E : cipher) (b : iblob) (a : Z) (d : list N) : res (list N) :=
  match reverse_bytes_in_longs (ib_key1 b), reverse_bytes_in_longs (ib_key2 b) with
  | Ok k, Ok nonce =>
      if negb (Nat.eqb (length nonce) 16) then Err 1
      else
        let c0 := Z.of_N (be_dec (skipn 12 nonce)) + Z.shiftr a 4 in
        (* Counter.value encodes the counter word modulo 2^32 (be32 truncates) *)
        let f := E k in Ok (concat (pieces (ib_ctr_block f (firstn 12 nonce)) 16 (16 * c0) d))
  | Err e, _ => Err e
  | _, Err e => Err e
  end.

(* IeeKeyBlob.encrypt_image *)
Definition ib_encrypt_image (E : cipher) (b : iblob) (a : Z) (data : list N) : res (list N) :=
  if negb (a mod 16 =? 0) then Err 1
  else if ib_mode b =? MODE_BYPASS then Ok data     (* the hardware passes a bypass region through unchanged *)
  else let d := pad16 data in
       if mode_is_ctr (ib_mode b) then ib_encrypt_ctr E b a d else ib_encrypt_xts E b a d.

Definition iee_piece (E : cipher) (blobs : list iblob) (a : Z) (p : list N) : res (list N) :=
  blob_fold (fun b => ib_matches b a (a + zlen p)) (fun b => ib_encrypt_image E b a p) (length p) blobs p.

(* Iee.encrypt_image(image, base_addr) *)
Definition iee_encrypt_image (E : cipher) (blobs : list iblob) (image : list N) (base : Z) : res (list N) :=
  seq_concat (pieces (iee_piece E blobs) U4K base image).

(* Iee.get_key_blobs *)
Definition iee_get_key_blobs (blobs : list iblob) : res (list N) :=
  match res_concat_map ib_plain blobs with Ok t => Ok (align_zero 384 t) | Err k => Err k end.

(* Iee.encrypt_key_blobs(ibkek1, ibkek2, keyblob_address) *)
Definition iee_encrypt_key_blobs (E : cipher) (blobs : list iblob) (kek1 kek2 : list N) (addr : Z) : res (list N) :=
  match iee_get_key_blobs blobs with
  | Err e => Err e
  | Ok plain =>
      match reverse_bytes_in_longs kek1, reverse_bytes_in_longs kek2 with
      | Ok k1, Ok k2 => if Nat.ltb (length plain) 16 then Err 2
                        else Ok (xts_crypt (E k1) (E k2) false (iee_tweak addr) plain)
      | Err e, _ => Err e
      | _, Err e => Err e
      end
  end.

(* ---------------- IEE hardware (specification side) ----------------
   A context = one key blob as loaded by the ROM.  Keys are stored as little-endian words, the AES engine takes the
   words most significant byte first (hence the byte reversal in every 32-bit word).  Region = [start, end).
   XTS: data unit = 4 KiB sector, tweak = sector number (address >> 12), block j of the sector uses T * alpha^j.
   CTR with address binding: counter block = nonce[0:12] || ((nonce[12:16] + (address >> 4)) mod 2^32) (the 32-bit word wraps).
   Bypass: data pass unchanged.  The other CTR variants are not specified here. *)
Record ictx := { ic_mode : Z; ic_keyattr : Z; ic_key1 : list N; ic_key2 : list N; ic_start : Z; ic_end : Z }.

Definition ictx_of_plain (p : list N) : ictx :=
  let attr := nth 9 p 0%N in let mode := nth 10 p 0%N in
  let k1len := if (attr =? 90)%N then 16%nat else 32%nat in
  let k2len := if (attr =? 90)%N then 16%nat
               else if mode_is_ctr (Z.of_N mode) then 16%nat else 32%nat in
  {| ic_mode := Z.of_N mode; ic_keyattr := Z.of_N attr;
     ic_key1 := firstn k1len (skipn 16 p); ic_key2 := firstn k2len (skipn 48 p);
     ic_start := Z.of_N (le_dec (firstn 4 (skipn 80 p))); ic_end := Z.of_N (le_dec (firstn 4 (skipn 84 p))) |}.

Definition word_rev (l : list N) : list N := concat (map (@rev N) (chunks 4 l)).
Definition ic_hit (c : ictx) (a : Z) : bool := (ic_start c <=? a) && (a <? ic_end c).

(* one aligned 4 KiB sector (or its leading part, a multiple of 16 bytes) fetched at address a *)
Definition iee_hw_unit (E D : cipher) (ctxs : list ictx) (a : Z) (c : list N) : list N :=
  match find (fun x => ic_hit x a) ctxs with
  | None => c
  | Some x =>
      if ic_mode x =? MODE_XTS then
        xts_crypt (D (word_rev (ic_key1 x))) (E (word_rev (ic_key2 x))) true (le_enc 16 (Z.to_N (a / 4096))) c
      else if ic_mode x =? MODE_CTR_ADDR then
        let nonce := word_rev (ic_key2 x) in
        let n0 := Z.of_N (be_dec (skipn 12 nonce)) in
        let f := E (word_rev (ic_key1 x)) in
        concat (pieces (fun ba blk => xor_bytes blk (f (firstn 12 nonce ++ be32 ((n0 + ba / 16) mod M32)))) 16 a c)
      else c
  end.

Definition iee_hw (E D : cipher) (ctxs : list ictx) (base : Z) (data : list N) : list N :=
  concat (pieces (iee_hw_unit E D ctxs) U4K base data).

(* key blob table unwrapping: AES-XTS decryption with the (word reversed) IBKEKs, tweak = sector of the table address;
   every 96-byte record must carry the header tag, the version and a correct CRC-32/MPEG-2 *)
Definition iee_record_ok (r : list N) : bool :=
  (le_dec (firstn 4 r) =? 1229276482)%N && (le_dec (firstn 4 (skipn 4 r)) =? 1442906112)%N
  && eqb_list (firstn 4 (skipn 92 r)) (le_enc 4 (crc CRC32_MPEG2 (firstn 92 r))).

Definition iee_unwrap (E D : cipher) (kek1 kek2 : list N) (addr : Z) (n : nat) (table : list N) : option (list ictx) :=
  let p := xts_crypt (D (word_rev kek1)) (E (word_rev kek2)) true (le_enc 16 (Z.to_N (addr / 4096))) table in
  let recs := firstn n (chunks 96 p) in
  if Nat.eqb (length recs) n && forallb iee_record_ok recs then Some (map ictx_of_plain recs) else None.

(* ---------------- IEE: specification-side vocabulary of the theorems ---------------- *)
Definition ictx_of_blob (b : iblob) : ictx :=
  {| ic_mode := ib_mode b; ic_keyattr := ib_keyattr b; ic_key1 := ib_key1 b; ic_key2 := ib_key2 b;
     ic_start := ib_start b; ic_end := ib_end b |}.
Definition ib_covers (b : iblob) (a : Z) : bool := (ib_start b <=? a) && (a <? ib_end b).
(* 4 KiB-aligned region [start, end); keys made of whole 32-bit words; AES-XTS, AES-CTR with address binding or Bypass *)
Definition ib_wf (b : iblob) : Prop :=
  0 <= ib_start b /\ ib_start b mod 4096 = 0 /\ ib_end b mod 4096 = 0 /\ ib_start b < ib_end b /\ ib_end b <= 4294967295 /\
  Nat.modulo (length (ib_key1 b)) 4 = 0%nat /\ Nat.modulo (length (ib_key2 b)) 4 = 0%nat /\
  (ib_mode b = MODE_XTS \/ (ib_mode b = MODE_CTR_ADDR /\ length (ib_key2 b) = 16%nat) \/ ib_mode b = MODE_BYPASS).
Definition iblobs_disjoint (bl : list iblob) : Prop :=
  ForallOrdPairs (fun b1 b2 => forall a, ib_covers b1 a = true -> ib_covers b2 a = false) bl.
Definition iee_outside (blobs : list iblob) (a : Z) : Prop := forall b, In b blobs -> ib_covers b a = false.
(* the cipher laws needed for a blob: XTS needs D o E = id on 16-byte blocks under the data key and a well-behaved E
   under the tweak key; CTR only needs E to produce 16-byte blocks; Bypass needs nothing *)
Definition okblock (b : list N) : Prop := length b = 16%nat /\ wf_bytes b.
Definition ib_cipher_ok (E D : cipher) (b : iblob) : Prop :=
  if ib_mode b =? MODE_XTS
  then (forall x, okblock x -> D (word_rev (ib_key1 b)) (E (word_rev (ib_key1 b)) x) = x) /\
       (forall x, okblock x -> okblock (E (word_rev (ib_key1 b)) x)) /\
       (forall x, okblock x -> okblock (E (word_rev (ib_key2 b)) x))
  else if ib_mode b =? MODE_CTR_ADDR
  then forall x, length x = 16%nat -> length (E (word_rev (ib_key1 b)) x) = 16%nat
  else True.

(* ================================================================== BEE ============================== *)
Record fac := { fc_start : Z; fc_len : Z; fc_level : Z }.
Definition fc_end (f : fac) : Z := fc_start f + fc_len f.

(* BeeFacRegion.validate : true = accepted *)
Definition fac_ok (f : fac) : bool :=
  negb (negb (Z.land (fc_start f) 1023 =? 0) && negb (Z.land (fc_len f) 1023 =? 0))
  && negb ((fc_level f <? 0) || (fc_level f >? 3))
  && negb ((fc_start f <? 0) || (fc_end f >? 4294967295) || (fc_start f >=? fc_end f)).

Record bhdr := { bh_counter : list N; bh_mode : Z; bh_lock : Z; bh_facs : list fac;
                 bh_swkey : list N; bh_kibkey : list N; bh_kibiv : list N }.

(* BeeProtectRegionBlock.update, as left by add_fac (never called when there is no FAC region) *)
Definition bh_hull (h : bhdr) : Z * Z :=
  match bh_facs h with
  | [] => (0, 4294967295)
  | fs => (fold_left (fun m f => Z.min m (fc_start f)) fs 4294967295, fold_left (fun m f => Z.max m (fc_end f)) fs 0)
  end.

(* BeeProtectRegionBlock.encrypt_block(key, start_addr, data) *)
Definition bee_encrypt_block (E : cipher) (h : bhdr) (a : Z) (data : list N) : res (list N) :=
  if Nat.ltb 1024 (length data) then Err 1
  else
    let '(hs, he) := bh_hull h in
    if (hs <=? a) && (a <? he) then
      if negb (bh_mode h =? 1) then Err 1
      else if negb (Nat.eqb (length (bh_swkey h)) 16) then Err 1
      else match find (fun f => (fc_start f <=? a) && (a <? fc_end f)) (bh_facs h) with
           | None => Ok data
           | Some f =>
               if a + zlen data >? fc_end f then Err 1
               else if negb (Nat.eqb (length (bh_counter h)) 16) then Err 1
               else
                 let c := Z.of_N (be_dec (skipn 12 (bh_counter h))) + Z.shiftr a 4 in
                 (* Counter.value encodes the counter word modulo 2^32 (be32 truncates) *)
                 Ok (ctr_xcrypt (E (bh_swkey h)) (firstn 12 (bh_counter h) ++ be32 c) (pad16_rnd data))
           end
    else Ok data.

Fixpoint bee_piece (E : cipher) (hs : list (option bhdr)) (a : Z) (blk : list N) : res (list N) :=
  match hs with
  | [] => Ok blk
  | None :: t => bee_piece E t a blk
  | Some h :: t => match bee_encrypt_block E h a blk with
                   | Ok b' => bee_piece E t a b'
                   | Err k => Err k
                   end
  end.

(* BeeNxp.export_image *)
Definition bee_export_image (E : cipher) (hs : list (option bhdr)) (image : list N) (base : Z) : res (list N) :=
  seq_concat (grid_pieces (bee_piece E hs) U1K base image).

(* BeeFacRegion.export *)
Definition fac_export (f : fac) : list N := le32 (fc_start f) ++ le32 (fc_end f) ++ le32 (fc_level f) ++ zeros 20.

(* BeeProtectRegionBlock.validate after update *)
Definition prdb_ok (h : bhdr) : bool :=
  let '(hs, he) := match bh_facs h with
                   | [] => (0, 0)
                   | _ => bh_hull h end in
  negb ((hs <? 0) || (hs >? 4294967295)) && negb ((hs >? he) || (he >? 4294967295))
  && (bh_mode h =? 1) && Nat.eqb (length (bh_counter h)) 16
  && eqb_list (skipn 12 (bh_counter h)) [0; 0; 0; 0]%N
  && negb (Nat.eqb (length (bh_facs h)) 0) && Nat.leb (length (bh_facs h)) 4
  && forallb fac_ok (bh_facs h).

(* BeeProtectRegionBlock.export *)
Definition prdb_export (h : bhdr) : res (list N) :=
  if negb (prdb_ok h) then Err 1
  else if negb (u32_ok (bh_lock h)) then Err 2
  else
    let '(hs, he) := bh_hull h in
    Ok (extend_to 256 (le32 1598505300 ++ le32 1380206661 ++ le32 1442906112 ++ le32 (Z.of_nat (length (bh_facs h)))
                       ++ le32 hs ++ le32 he ++ le32 (bh_mode h) ++ le32 (bh_lock h) ++ rev (bh_counter h) ++ zeros 32
                       ++ concat (map fac_export (bh_facs h)))).

(* BeeRegionHeader.export *)
Definition bee_header_export (E : cipher) (h : bhdr) : res (list N) :=
  if negb (Nat.eqb (length (bh_kibkey h)) 16) then Err 1
  else if negb (Nat.eqb (length (bh_kibiv h)) 16) then Err 1
  else match prdb_export h with
       | Err e => Err e
       | Ok prdb =>
           if negb (Nat.eqb (length (bh_swkey h)) 16) then Err 1
           else
             let ekib := ecb (E (bh_swkey h)) (bh_kibkey h ++ bh_kibiv h) in
             let eprdb := cbc_enc (E (bh_kibkey h)) (bh_kibiv h) prdb in
             Ok (extend_to 512 (extend_to 128 ekib ++ eprdb))
       end.

(* ---------------- BEE hardware (specification side) ----------------
   An engine holds the AES key, the 128-bit counter whose low word is replaced by address[31:4], and up to four FAC
   regions [start, end).  A 16-byte fetch inside a FAC region is decrypted with AES-CTR. *)
Record bctx := { bc_key : list N; bc_counter : list N; bc_regions : list (Z * Z) }.
Definition bctx_of (h : bhdr) : bctx :=
  {| bc_key := bh_swkey h; bc_counter := bh_counter h; bc_regions := map (fun f => (fc_start f, fc_end f)) (bh_facs h) |}.
Definition bc_hit (c : bctx) (a : Z) : bool := existsb (fun r => (fst r <=? a) && (a <? snd r)) (bc_regions c).

Definition bee_hw_engine (E : cipher) (c : bctx) (a : Z) (blk : list N) : list N :=
  if bc_hit c a
  then xor_bytes blk (E (bc_key c) (firstn 12 (bc_counter c)
                                      ++ be32 ((Z.of_N (be_dec (skipn 12 (bc_counter c))) + a / 16) mod M32)))
  else blk.

Definition bee_hw_block (E : cipher) (ctxs : list bctx) (a : Z) (blk : list N) : list N :=
  fold_right (fun c b => bee_hw_engine E c a b) blk ctxs.

Definition bee_hw (E : cipher) (ctxs : list bctx) (base : Z) (data : list N) : list N :=
  concat (pieces (bee_hw_block E ctxs) 16 base data).

(* header unwrapping by the ROM: EKIB with the SW key (ECB), EPRDB with the KIB key/IV (CBC), tags and version checked *)
Record prdb_fields := { pf_counter : list N; pf_mode : Z; pf_lock : Z; pf_start : Z; pf_end : Z;
                        pf_regions : list (Z * Z * Z) }.
Definition u32_at (p : list N) (off : nat) : Z := Z.of_N (le_dec (firstn 4 (skipn off p))).
Definition bee_unwrap (D : cipher) (swkey : list N) (hdr : list N) : option (list N * list N * prdb_fields) :=
  let kib := ecb (D swkey) (firstn 32 hdr) in
  let kkey := firstn 16 kib in let kiv := skipn 16 kib in
  let p := cbc_dec (D kkey) kiv (firstn 256 (skipn 128 hdr)) in
  if (u32_at p 0 =? 1598505300) && (u32_at p 4 =? 1380206661) && (u32_at p 8 =? 1442906112) then
    let n := Z.to_nat (u32_at p 12) in
    Some (kkey, kiv,
          {| pf_counter := rev (firstn 16 (skipn 32 p)); pf_mode := u32_at p 24; pf_lock := u32_at p 28;
             pf_start := u32_at p 16; pf_end := u32_at p 20;
             pf_regions := map (fun i => (u32_at p (80 + 32 * i), u32_at p (84 + 32 * i), u32_at p (88 + 32 * i))) (seq 0 n) |})
  else None.

(* ---------------- BEE: specification-side vocabulary of the theorems ---------------- *)
Definition bee_actives (ohs : list (option bhdr)) : list bhdr :=
  concat (map (fun o => match o with Some h => [h] | None => [] end) ohs).
Definition fac_covers (f : fac) (a : Z) : bool := (fc_start f <=? a) && (a <? fc_end f).
Definition bh_covers (h : bhdr) (a : Z) : bool := existsb (fun f => fac_covers f a) (bh_facs h).
(* FAC region [start, start+length) on the 1 KiB grid *)
Definition fac_wf (f : fac) : Prop :=
  0 <= fc_start f /\ fc_start f mod 1024 = 0 /\ fc_len f mod 1024 = 0 /\ 0 < fc_len f /\ fc_end f <= 4294967295.
(* what BeeProtectRegionBlock.validate accepts: AES-CTR, 16-byte counter whose last four bytes are zero, 16-byte key *)
Definition bh_wf (h : bhdr) : Prop :=
  bh_mode h = 1 /\ length (bh_swkey h) = 16%nat /\ length (bh_counter h) = 16%nat /\ wf_bytes (bh_counter h) /\
  skipn 12 (bh_counter h) = [0; 0; 0; 0]%N /\ Forall fac_wf (bh_facs h).
Definition bheaders_disjoint (hs : list bhdr) : Prop :=
  ForallOrdPairs (fun h1 h2 => forall a, bh_covers h1 a = true -> bh_covers h2 a = false) hs.
Definition bee_outside (hs : list bhdr) (a : Z) : Prop := forall h, In h hs -> bh_covers h a = false.

(* ================================================================== run_case ========================= *)
Definition vb (r : res (list N)) : value := vres VBytes r.
Definition zb (z : Z) : bool := negb (z =? 0).

Definition kblob_of (v : value) : option kblob :=
  match v with
  | VList [VBytes key; VBytes ctr; VInt s; VInt e; VInt fl; VBytes zf; VBytes cf] =>
      Some {| kb_key := key; kb_ctr := ctr; kb_start := s; kb_end := e; kb_flags := fl; kb_zero := zf; kb_crcfill := cf |}
  | _ => None
  end.
Definition iblob_of (v : value) : option iblob :=
  match v with
  | VList [VInt lock; VInt ka; VInt mode; VInt s; VInt e; VBytes k1; VBytes k2; VInt po] =>
      Some {| ib_lock := lock; ib_keyattr := ka; ib_mode := mode; ib_start := s; ib_end := e;
              ib_key1 := k1; ib_key2 := k2; ib_po := po |}
  | _ => None
  end.
Definition fac_of (v : value) : option fac :=
  match v with
  | VList [VInt s; VInt l; VInt lv] => Some {| fc_start := s; fc_len := l; fc_level := lv |}
  | _ => None
  end.
Fixpoint all_some {A B} (f : A -> option B) (l : list A) : option (list B) :=
  match l with
  | [] => Some []
  | a :: t => match f a, all_some f t with Some b, Some r => Some (b :: r) | _, _ => None end
  end.
(* VList [] stands for None (engine not configured) *)
Definition bhdr_of (v : value) : option (option bhdr) :=
  match v with
  | VList [] => Some None
  | VList [VBytes ctr; VInt mode; VInt lock; VList facs; VBytes sw; VBytes kk; VBytes kiv] =>
      match all_some fac_of facs with
      | Some fs => Some (Some {| bh_counter := ctr; bh_mode := mode; bh_lock := lock; bh_facs := fs;
                                 bh_swkey := sw; bh_kibkey := kk; bh_kibiv := kiv |})
      | None => None
      end
  | _ => None
  end.

Definition octx_value (c : octx) : value := VList [VBytes (oc_key c); VBytes (oc_ctr c); VInt (oc_w0 c); VInt (oc_w1 c)].
Definition ictx_value (c : ictx) : value :=
  VList [VInt (ic_mode c); VInt (ic_keyattr c); VBytes (ic_key1 c); VBytes (ic_key2 c); VInt (ic_start c); VInt (ic_end c)].

Definition first_bad_ctor {B} (ok : B -> bool) (l : list B) : bool := negb (forallb ok l).
Definition plains_ok (ps : list (res (list N))) : option (list (list N)) :=
  all_some (fun r => match r with Ok p => Some p | Err _ => None end) ps.

Definition run_case (fn : Z) (args : list value) : value :=
  match fn, args with
  (* ---- OTFAD ---- *)
  | 1, [VList bl; VBytes img; VInt base; VInt swap; VInt nxp] =>
      match all_some kblob_of bl with
      | Some blobs => if first_bad_ctor kb_ctor_ok blobs then VErr 1
                      else vb ((if zb nxp then otfad_nxp_encrypt else otfad_encrypt_image) aes_c blobs img base (zb swap))
      | None => VErr E_BADCASE end
  | 2, [b] => match kblob_of b with
              | Some k => if kb_ctor_ok k then vb (kb_plain k) else VErr 1 | None => VErr E_BADCASE end
  | 3, [b; VBytes kek; VInt cnt] =>
      match kblob_of b with
      | Some k => if kb_ctor_ok k then vb (kb_export aes_c k kek cnt) else VErr 1 | None => VErr E_BADCASE end
  | 4, [VList bl; VBytes kek; VInt mask; VInt align; VInt reversed; VInt cnt] =>
      match all_some kblob_of bl with
      | Some blobs => if first_bad_ctor kb_ctor_ok blobs then VErr 1
                      else vb (otfad_encrypt_key_blobs aes_c blobs kek
                                 (if (mask <? 0) || (align <? 0) then None else Some (mask, align)) (zb reversed) cnt)
      | None => VErr E_BADCASE end
  | 5, [VList bl] =>
      match all_some kblob_of bl with
      | Some blobs => if first_bad_ctor kb_ctor_ok blobs then VErr 1 else vb (otfad_get_key_blobs blobs)
      | None => VErr E_BADCASE end
  (* the hardware model applied to a ciphertext: contexts are taken from the plain key blobs *)
  | 6, [VList bl; VBytes data; VInt base; VInt swap] =>
      match all_some kblob_of bl with
      | Some blobs => match plains_ok (map kb_plain blobs) with
                      | Some ps => VBytes (otfad_hw aes_c (map octx_of_plain ps) (zb swap) base data)
                      | None => VErr 1 end
      | None => VErr E_BADCASE end
  | 7, [VBytes kek; VInt cnt; VBytes rec] =>
      vopt octx_value (otfad_unwrap aes_d kek cnt rec)
  (* ---- IEE ---- *)
  | 10, [VList bl; VBytes img; VInt base] =>
      match all_some iblob_of bl with
      | Some blobs => if first_bad_ctor ib_ctor_ok blobs then VErr 1 else vb (iee_encrypt_image aes_c blobs img base)
      | None => VErr E_BADCASE end
  | 11, [b] => match iblob_of b with
               | Some k => if ib_ctor_ok k then vb (ib_plain k) else VErr 1 | None => VErr E_BADCASE end
  | 12, [VList bl; VBytes k1; VBytes k2; VInt addr] =>
      match all_some iblob_of bl with
      | Some blobs => if first_bad_ctor ib_ctor_ok blobs then VErr 1 else vb (iee_encrypt_key_blobs aes_c blobs k1 k2 addr)
      | None => VErr E_BADCASE end
  | 13, [VList bl; VBytes data; VInt base] =>
      match all_some iblob_of bl with
      | Some blobs => match plains_ok (map ib_plain blobs) with
                      | Some ps => VBytes (iee_hw aes_c aes_d (map ictx_of_plain ps) base data)
                      | None => VErr 1 end
      | None => VErr E_BADCASE end
  | 14, [VBytes k1; VBytes k2; VInt addr; VInt n; VBytes table] =>
      vopt (fun l => VList (map ictx_value l)) (iee_unwrap aes_c aes_d k1 k2 addr (Z.to_nat n) table)
  (* ---- BEE ---- *)
  | 20, [VList hl; VBytes img; VInt base] =>
      match all_some bhdr_of hl with
      | Some hs => if negb (forallb (fun o => match o with Some h => forallb fac_ok (bh_facs h) | None => true end) hs)
                   then VErr 1 else vb (bee_export_image aes_c hs img base)
      | None => VErr E_BADCASE end
  | 21, [hv] =>
      match bhdr_of hv with
      | Some (Some h) => if negb (forallb fac_ok (bh_facs h)) then VErr 1 else vb (bee_header_export aes_c h)
      | _ => VErr E_BADCASE end
  | 22, [VList hl; VBytes data; VInt base] =>
      match all_some bhdr_of hl with
      | Some hs => VBytes (bee_hw aes_c (map bctx_of (bee_actives hs)) base data)
      | None => VErr E_BADCASE end
  | 23, [VBytes sw; VBytes hdr] =>
      match bee_unwrap aes_d sw hdr with
      | Some (kk, kiv, pf) =>
          VList [VBytes kk; VBytes kiv; VBytes (pf_counter pf); VInt (pf_mode pf); VInt (pf_lock pf); VInt (pf_start pf);
                 VInt (pf_end pf); VList (map (fun r => VList [VInt (fst (fst r)); VInt (snd (fst r)); VInt (snd r)]) (pf_regions pf))]
      | None => VList [] end
  | _, _ => VErr E_BADCASE
  end.

(* comparison inside Coq (printing long byte strings is slower than computing them): VInt 1 when the model's value is the
   expected one, otherwise the model's value itself (for the diagnostic) *)
Definition same_as (got want : value) : value :=
  match got, want with
  | VBytes a, VBytes b => if eqb_list a b then VInt 1 else got
  | VErr a, VErr b => if (a =? b)%N then VInt 1 else got
  | _, _ => got
  end.
