(* Model/CacheModel.v -- faithful executable model of the two on-disk database caches of
   spsdk/utils/database.py (C18):
     * db_quick_info_<version>.cache   DatabaseManager._get_quick_info_db
     * db_data_<hash>_<version>.cache  Database.DatabaseData.__init__ / make_cache
   The lock nesting, the `except` tuples, the complete_load arguments and Python's exception hierarchy are NOT
   written here: they come from Gen/GenCache.v, regenerated from the source on every run (record [config]).
   Definitions only.  Two layers:
     1. sequential start of one process on an arbitrary cache file content ([quick_start], [data_start]);
     2. a small-step system of any number of processes with atomic actions and the lock as shared state ([step], [run]).
*)
From Coq Require Import ZArith NArith List Bool.
Require Import Value GenCache.
Import ListNotations.
Local Open Scope Z_scope.

Definition exn := N.

(* ------------------------------------------------------------------ exception matching *)
Fixpoint assoc_N {A : Type} (k : N) (l : list (N * A)) : option A :=
  match l with
  | [] => None
  | (k', v) :: r => if N.eqb k k' then Some v else assoc_N k r
  end.

Definition is_subclass (e h : exn) : bool :=
  match assoc_N e exn_ancestors with
  | Some anc => existsb (N.eqb h) anc
  | None => false
  end.

(* `except (h1, h2, ...)` catches e *)
Definition catches (tuple : list exn) (e : exn) : bool := existsb (is_subclass e) tuple.

(* index of the innermost enclosing try whose except tuple catches e *)
Fixpoint catch_level (chain : list (list exn)) (e : exn) : option nat :=
  match chain with
  | [] => None
  | t :: r => if catches t e then Some O else option_map S (catch_level r e)
  end.

Definition guarded (chain : list (list exn)) (e : exn) : bool :=
  match catch_level chain e with Some _ => true | None => false end.

Definition all_classes : list exn := map fst exn_ancestors.
(* what a damaged pickle may raise: every subclass of Exception (unpickling runs arbitrary reducers) *)
Definition exception_classes : list exn := filter (fun e => is_subclass e EXN_Exception) all_classes.

(* ------------------------------------------------------------------ what the source says (from Gen/GenCache.v) *)
Record config := {
  (* quick-info cache, load *)
  q_read_locked : bool; q_lock_r_guard : list (list exn); q_open_r_guard : list (list exn);
  q_read_guard : list (list exn); q_type_guard : list (list exn); q_type_exn : exn; q_hash_checked : bool;
  (* quick-info cache, store *)
  q_write_locked : bool; q_lock_w_guard : list (list exn);
  (* data cache, DatabaseData.__init__ *)
  i_read_locked : bool; i_lock_guard : list (list exn); i_open_r_guard : list (list exn);
  i_read_guard : list (list exn); i_type_guard : list (list exn); i_type_exn : exn; i_hash_checked : bool;
  i_stale_rm_guard : list (list exn); i_hrm_guard : list (list exn);
  (* data cache, make_cache *)
  m_locked : bool; m_lock_guard : list (list exn); m_read_guard : list (list exn);
  m_type_guard : list (list exn); m_type_exn : exn; m_outer_guard : list (list exn);
  (* which database the quick info is computed from *)
  disabled_complete : bool; rebuild_complete : bool
}.

Definition gen_config : config := {|
  q_read_locked := quick_read_locked && quick_open_r_locked;
  q_lock_r_guard := quick_lock_r_guard; q_open_r_guard := quick_open_r_guard;
  q_read_guard := quick_read_guard; q_type_guard := quick_typecheck_guard; q_type_exn := quick_typecheck_raises;
  q_hash_checked := quick_hash_checked;
  q_write_locked := quick_write_locked && quick_open_w_locked; q_lock_w_guard := quick_lock_w_guard;
  i_read_locked := init_read_locked && init_open_r_locked; i_lock_guard := init_lock_guard;
  i_open_r_guard := init_open_r_guard; i_read_guard := init_read_guard; i_type_guard := init_typecheck_guard;
  i_type_exn := init_typecheck_raises; i_hash_checked := init_hash_checked;
  i_stale_rm_guard := init_stale_remove_guard; i_hrm_guard := init_handler_remove_guard;
  m_locked := make_exists_locked && make_read_locked && make_open_r_locked && make_write_locked && make_open_w_locked;
  m_lock_guard := make_lock_guard; m_read_guard := make_read_guard; m_type_guard := make_typecheck_guard;
  m_type_exn := make_typecheck_raises; m_outer_guard := make_open_w_guard;
  disabled_complete := disabled_branch_complete_load; rebuild_complete := rebuild_complete_load
|}.

(* ------------------------------------------------------------------ file contents *)
Definition cfgmap := list (Z * Z).      (* absolute path of a config file (id) -> its parsed content (id) *)

Inductive content : Type :=
| CMissing                       (* no file *)
| CDamaged (e : exn)             (* empty / truncated / garbage: unpickling raises e *)
| CWrongType                     (* unpickles to an object of an unrelated type *)
| CHollow                        (* object of the expected class without its attributes *)
| CQuick (h : Z) (p : Z)         (* pickled QuickDatabase: stored fingerprint hash, payload *)
| CData (h : Z) (m : cfgmap)     (* pickled DatabaseData: stored fingerprint (of the listed files), config cache *)
| CPartial (w : nat).            (* open for rewriting by process w: between open("wb") and close *)

(* payloads of the quick database *)
Definition DB_EMPTY : Z := 0.    (* QuickDatabase.create of a database whose devices were not loaded *)
Definition DB_FULL : Z := 1.     (* QuickDatabase.create of the completely loaded database *)
Definition quick_db (complete : bool) : Z := if complete then DB_FULL else DB_EMPTY.

Inductive outcome : Type :=
| Started (ans : Z)              (* the process is up; ans is what its query returns *)
| Failed (site : N) (e : exn).   (* uncaught exception e raised at cache operation [site] *)

(* sites (for reporting only) *)
Definition S_LOCK : N := 1.  Definition S_OPEN : N := 2.  Definition S_LOAD : N := 3.  Definition S_TYPE : N := 4.
Definition S_STALE_RM : N := 5.  Definition S_HANDLER_RM : N := 6.  Definition S_MAKE : N := 7.

(* ------------------------------------------------------------------ 1a. quick-info cache, one process *)
Inductive loadres : Type :=
| LHit (p : Z)                   (* cache accepted, payload returned to the caller *)
| LMiss                          (* cache rejected (or exception handled): rebuild *)
| LCrash (site : N) (e : exn).

Definition on_exn (site : N) (chain : list (list exn)) (e : exn) : loadres :=
  if guarded chain e then LMiss else LCrash site e.

(* evaluation of what open+pickle.load observed, quick-info routine *)
Definition quick_eval (g : config) (cur : Z) (o : content) : loadres :=
  match o with
  | CMissing => on_exn S_OPEN (q_open_r_guard g) EXN_FileNotFoundError
  | CDamaged e => on_exn S_LOAD (q_read_guard g) e
  | CPartial _ => on_exn S_LOAD (q_read_guard g) EXN_EOFError
  | CWrongType | CData _ _ => on_exn S_TYPE (q_type_guard g) (q_type_exn g)
  | CHollow => on_exn S_TYPE (q_type_guard g) EXN_AttributeError
  | CQuick h p => if (h =? cur) || negb (q_hash_checked g) then LHit p else LMiss
  end.

Definition quick_start (g : config) (cur : Z) (c : content) : outcome * content :=
  let fresh := quick_db (rebuild_complete g) in
  match c with
  | CMissing => (Started fresh, CQuick cur fresh)
  | _ => match quick_eval g cur c with
         | LHit p => (Started p, c)
         | LMiss => (Started fresh, CQuick cur fresh)
         | LCrash s e => (Failed s e, c)
         end
  end.

(* SPSDK_CACHE_DISABLED: no cache file is read or written *)
Definition disabled_start (g : config) : outcome := Started (quick_db (disabled_complete g)).

(* ------------------------------------------------------------------ 1b. data cache, one process *)
Fixpoint lookup (k : Z) (m : cfgmap) : option Z :=
  match m with
  | [] => None
  | (k', v) :: r => if k =? k' then Some v else lookup k r
  end.
Definition has_key (k : Z) (m : cfgmap) : bool := match lookup k m with Some _ => true | None => false end.
Definition keys (m : cfgmap) : list Z := map fst m.
Fixpoint keys_eqb (a b : list Z) : bool :=
  match a, b with
  | [], [] => true
  | x :: a', y :: b' => (x =? y) && keys_eqb a' b'
  | _, _ => false
  end.
(* make_cache: records of the concurrently written cache that this process does not have are taken over *)
Fixpoint merge (mine other : cfgmap) : cfgmap :=
  match other with
  | [] => mine
  | (k, v) :: r => if has_key k mine then merge mine r else merge (mine ++ [(k, v)]) r
  end.

Inductive evalres : Type :=
| EValid (m : cfgmap)
| EStale
| EExn (site : N) (chain : list (list exn)) (e : exn).

Definition data_eval (g : config) (cur : Z) (o : content) : evalres :=
  match o with
  | CMissing => EExn S_OPEN (i_open_r_guard g) EXN_FileNotFoundError
  | CDamaged e => EExn S_LOAD (i_read_guard g) e
  | CPartial _ => EExn S_LOAD (i_read_guard g) EXN_EOFError
  | CWrongType | CQuick _ _ => EExn S_TYPE (i_type_guard g) (i_type_exn g)
  | CHollow => EExn S_TYPE (i_type_guard g) EXN_AttributeError
  | CData h m => if (h =? cur) || negb (i_hash_checked g) then EValid m else EStale
  end.

Inductive initres : Type :=
| IReady (m : cfgmap)            (* DatabaseData constructed with this config cache *)
| ICrash (site : N) (e : exn).

(* DatabaseData.__init__ of a single process (nobody else touches the file) *)
Definition data_init (g : config) (cur : Z) (c : content) : initres * content :=
  match c with
  | CMissing => (IReady [], CMissing)
  | _ => match data_eval g cur c with
         | EValid m => (IReady m, c)
         | EStale => (IReady [], CMissing)                       (* os.remove *)
         | EExn s ch e => if guarded ch e then (IReady [], CMissing)   (* handler: exists -> remove *)
                          else (ICrash s e, c)
         end
  end.

(* what make_cache does with the file it finds under the lock *)
Inductive makeres : Type :=
| MWrite (m : cfgmap)            (* (merged) cache is written *)
| MSkip                          (* an outer handler swallowed an exception: nothing is written *)
| MCrash (site : N) (e : exn).

(* an exception inside the inner try (open/load/type check): the inner handler sets cached_data = None and the file
   is rewritten; one that only the outer handler catches skips the rewrite *)
Definition make_inner (chain : list (list exn)) (mine : cfgmap) (e : exn) : makeres :=
  match catch_level chain e with
  | Some O => if Nat.leb 2 (length chain) then MWrite mine else MSkip   (* no inner try: only the outer handler *)
  | Some (S _) => MSkip
  | None => MCrash S_MAKE e
  end.
(* an exception after the inner try (attribute access on the loaded object) *)
Definition make_outer (chain : list (list exn)) (e : exn) : makeres :=
  if guarded chain e then MSkip else MCrash S_MAKE e.

Definition make_eval (g : config) (cur : Z) (mine : cfgmap) (o : content) : makeres :=
  match o with
  | CMissing => MWrite mine
  | CDamaged e => make_inner (m_read_guard g) mine e
  | CPartial _ => make_inner (m_read_guard g) mine EXN_EOFError
  | CWrongType | CQuick _ _ => make_inner (m_type_guard g) mine (m_type_exn g)
  | CHollow => make_outer (m_outer_guard g) EXN_AttributeError
  | CData h m => if (h =? cur) && keys_eqb (keys m) (keys mine) then MWrite mine else MWrite (merge mine m)
  end.

(* first load_db_cfg_file(x) of a process whose config cache is m: answer, content *)
Definition data_query (g : config) (cur : Z) (src : Z -> Z) (m : cfgmap) (x : Z) (c : content) : outcome * content :=
  match lookup x m with
  | Some v => (Started v, c)
  | None =>
      let mine := m ++ [(x, src x)] in
      match make_eval g cur mine c with
      | MWrite m' => (Started (src x), CData cur m')
      | MSkip => (Started (src x), c)
      | MCrash s e => (Failed s e, c)
      end
  end.

Definition data_start (g : config) (cur : Z) (src : Z -> Z) (x : Z) (c : content) : outcome * content :=
  match data_init g cur c with
  | (IReady m, c') => data_query g cur src m x c'
  | (ICrash s e, c') => (Failed s e, c')
  end.

(* ------------------------------------------------------------------ 2. processes, atomic actions, shared lock *)
Inductive action : Type :=
| AExists                        (* os.path.exists(cache file) *)
| AAcquire                       (* FileLock.__enter__ succeeds *)
| ATimeout                       (* FileLock gives up after its timeout: raises filelock.Timeout *)
| AReadAll (torn : content)      (* open("rb") + pickle.load; [torn] = what the bytes decode to if a writer is active *)
| ARelease                       (* FileLock.__exit__ *)
| ARemove                        (* os.remove(cache file) *)
| ATruncOpen                     (* open("wb"): the file is truncated *)
| AWriteChunk                    (* part of pickle.dump reaches the file *)
| AClose                         (* the rest is flushed, file closed: content complete *)
| ACrash (e : exn).              (* the process is killed; a prefix it leaves raises e when unpickled *)

Inductive pc : Type :=
(* quick-info cache *)
| QStart | QWantR | QHoldR | QGotR (o : content) | QWantW | QHoldW | QWriting (k : nat) | QClosed
(* data cache: DatabaseData.__init__ *)
| DStart | DWantR | DHoldR | DGotR (o : content) | DStaleRm | DHandler | DHandlerRm
(* data cache: load_db_cfg_file -> make_cache *)
| MWant (m : cfgmap) | MHold (m : cfgmap) | MMerged (m : cfgmap) | MWriting (m : cfgmap) (k : nat) | MClosed (m : cfgmap)
(* final *)
| Done (ans : Z) | Fail (site : N) (e : exn) | Killed.

Record sys : Type := mkSys { file : content; lock : option nat; procs : nat -> pc }.

Definition upd (f : nat -> pc) (i : nat) (v : pc) : nat -> pc := fun j => if Nat.eqb j i then v else f j.

(* parameters of a run *)
Record world : Type := mkWorld {
  w_cur : Z;                     (* fingerprint hash of the data files as they are now *)
  w_src : Z -> Z;                (* parsed content of config file x as it is now *)
  w_key : nat -> Z;              (* the config file process i asks for *)
  w_chunks : nat                 (* number of partial writes between open("wb") and close *)
}.

Definition holding (p : pc) : bool :=
  match p with
  | QHoldR | QGotR _ | QHoldW | QWriting _ | QClosed | DHoldR | DGotR _
  | MHold _ | MMerged _ | MWriting _ _ | MClosed _ => true
  | _ => false
  end.

Definition final (p : pc) : bool := match p with Done _ | Fail _ _ | Killed => true | _ => false end.

Definition lock_free (s : sys) : bool := match lock s with None => true | Some _ => false end.

Definition set_pc (s : sys) (i : nat) (p : pc) : sys := mkSys (file s) (lock s) (upd (procs s) i p).
Definition set_file (s : sys) (c : content) : sys := mkSys c (lock s) (procs s).
Definition set_lock (s : sys) (l : option nat) : sys := mkSys (file s) l (procs s).

(* enter / leave `with FileLock(...)`; an unlocked site does neither *)
Definition acquire (locked : bool) (s : sys) (i : nat) : option sys :=
  if locked then (if lock_free s then Some (set_lock s (Some i)) else None) else Some s.
Definition release (locked : bool) (s : sys) (i : nat) : sys :=
  if locked then
    match lock s with
    | Some j => if Nat.eqb j i then set_lock s None else s
    | None => s
    end
  else s.
Definition can_timeout (locked : bool) (s : sys) (i : nat) : bool :=
  locked && match lock s with Some j => negb (Nat.eqb j i) | None => false end.

Definition observe (s : sys) (i : nat) (torn : content) : content :=
  match file s with
  | CPartial w => if Nat.eqb w i then file s else torn
  | c => c
  end.

Definition exists_file (s : sys) : bool := match file s with CMissing => false | _ => true end.

(* the process has its DatabaseData; it now loads config file [w_key i] *)
Definition ready (w : world) (i : nat) (m : cfgmap) : pc :=
  match lookup (w_key w i) m with
  | Some v => Done v
  | None => MWant (m ++ [(w_key w i, w_src w (w_key w i))])
  end.

Definition answer (w : world) (i : nat) (m : cfgmap) : Z :=
  match lookup (w_key w i) m with Some v => v | None => w_src w (w_key w i) end.

Definition close_file (s : sys) (i : nat) (c : content) : sys :=
  match file s with
  | CPartial w => if Nat.eqb w i then set_file s c else s
  | _ => s                        (* the name was unlinked meanwhile: the data goes to an orphan inode *)
  end.

Definition writing (p : pc) : bool := match p with QWriting _ | MWriting _ _ => true | _ => false end.

Definition step (g : config) (w : world) (s : sys) (i : nat) (a : action) : option sys :=
  let fresh := quick_db (rebuild_complete g) in
  match procs s i, a with
  (* ---- killed at any instant *)
  | p, ACrash e =>
      if final p then None else
      let s1 := if writing p then close_file s i (CDamaged e) else s in
      let s2 := match lock s1 with
                | Some j => if Nat.eqb j i && holding p then set_lock s1 None else s1
                | None => s1
                end in
      Some (set_pc s2 i Killed)
  (* ---- quick-info cache *)
  | QStart, AExists => Some (set_pc s i (if exists_file s then QWantR else QWantW))
  | QWantR, AAcquire => option_map (fun s' => set_pc s' i QHoldR) (acquire (q_read_locked g) s i)
  | QWantR, ATimeout =>
      if can_timeout (q_read_locked g) s i then
        Some (set_pc s i (if guarded (q_lock_r_guard g) EXN_filelock_Timeout then QWantW else Fail S_LOCK EXN_filelock_Timeout))
      else None
  | QHoldR, AReadAll t => Some (set_pc s i (QGotR (observe s i t)))
  | QGotR o, ARelease =>
      let s' := release (q_read_locked g) s i in
      Some (set_pc s' i (match quick_eval g (w_cur w) o with
                         | LHit p => Done p
                         | LMiss => QWantW
                         | LCrash st e => Fail st e
                         end))
  | QWantW, AAcquire => option_map (fun s' => set_pc s' i QHoldW) (acquire (q_write_locked g) s i)
  | QWantW, ATimeout =>
      if can_timeout (q_write_locked g) s i then
        Some (set_pc s i (if guarded (q_lock_w_guard g) EXN_filelock_Timeout then Done fresh else Fail S_LOCK EXN_filelock_Timeout))
      else None
  | QHoldW, ATruncOpen => Some (set_pc (set_file s (CPartial i)) i (QWriting (w_chunks w)))
  | QWriting (S k), AWriteChunk => Some (set_pc s i (QWriting k))
  | QWriting O, AClose => Some (set_pc (close_file s i (CQuick (w_cur w) fresh)) i QClosed)
  | QClosed, ARelease => Some (set_pc (release (q_write_locked g) s i) i (Done fresh))
  (* ---- data cache: DatabaseData.__init__ *)
  | DStart, AExists => Some (set_pc s i (if exists_file s then DWantR else ready w i []))
  | DWantR, AAcquire => option_map (fun s' => set_pc s' i DHoldR) (acquire (i_read_locked g) s i)
  | DWantR, ATimeout =>
      if can_timeout (i_read_locked g) s i then
        Some (set_pc s i (if guarded (i_lock_guard g) EXN_filelock_Timeout then DHandler else Fail S_LOCK EXN_filelock_Timeout))
      else None
  | DHoldR, AReadAll t => Some (set_pc s i (DGotR (observe s i t)))
  | DGotR o, ARelease =>
      let s' := release (i_read_locked g) s i in
      Some (set_pc s' i (match data_eval g (w_cur w) o with
                         | EValid m => ready w i m
                         | EStale => DStaleRm
                         | EExn st ch e => if guarded ch e then DHandler else Fail st e
                         end))
  | DStaleRm, ARemove =>
      if exists_file s then Some (set_pc (set_file s CMissing) i (ready w i []))
      else Some (set_pc s i (if guarded (i_stale_rm_guard g) EXN_FileNotFoundError then DHandler
                             else Fail S_STALE_RM EXN_FileNotFoundError))
  | DHandler, AExists => Some (set_pc s i (if exists_file s then DHandlerRm else ready w i []))
  | DHandlerRm, ARemove =>
      if exists_file s then Some (set_pc (set_file s CMissing) i (ready w i []))
      else Some (set_pc s i (if guarded (i_hrm_guard g) EXN_FileNotFoundError then ready w i []
                             else Fail S_HANDLER_RM EXN_FileNotFoundError))
  (* ---- data cache: make_cache *)
  | MWant m, AAcquire => option_map (fun s' => set_pc s' i (MHold m)) (acquire (m_locked g) s i)
  | MWant m, ATimeout =>
      if can_timeout (m_locked g) s i then
        Some (set_pc s i (if guarded (m_lock_guard g) EXN_filelock_Timeout then Done (answer w i m)
                          else Fail S_LOCK EXN_filelock_Timeout))
      else None
  | MHold m, AReadAll t =>
      match make_eval g (w_cur w) m (observe s i t) with
      | MWrite m' => Some (set_pc s i (MMerged m'))
      | MSkip => Some (set_pc (release (m_locked g) s i) i (Done (answer w i m)))
      | MCrash st e => Some (set_pc (release (m_locked g) s i) i (Fail st e))
      end
  | MMerged m, ATruncOpen => Some (set_pc (set_file s (CPartial i)) i (MWriting m (w_chunks w)))
  | MWriting m (S k), AWriteChunk => Some (set_pc s i (MWriting m k))
  | MWriting m O, AClose => Some (set_pc (close_file s i (CData (w_cur w) m)) i (MClosed m))
  | MClosed m, ARelease => Some (set_pc (release (m_locked g) s i) i (Done (answer w i m)))
  | _, _ => None
  end.

(* a schedule is any list of (process, action); actions that are not enabled are skipped *)
Definition step_or_skip (g : config) (w : world) (s : sys) (ia : nat * action) : sys :=
  match step g w s (fst ia) (snd ia) with Some s' => s' | None => s end.

Definition run (g : config) (w : world) (s : sys) (sched : list (nat * action)) : sys :=
  fold_left (step_or_skip g w) sched s.

Definition init_sys (c : content) (start : pc) : sys := mkSys c None (fun _ => start).

(* the canonical schedule of one process running alone: every action offered often enough *)
Definition solo_round (i : nat) : list (nat * action) :=
  [(i, AExists); (i, AAcquire); (i, AReadAll CMissing); (i, ARelease); (i, ARemove); (i, AExists); (i, ARemove);
   (i, AAcquire); (i, AReadAll CMissing); (i, ATruncOpen)].
Definition solo_tail (i : nat) (chunks : nat) : list (nat * action) :=
  repeat (i, AWriteChunk) chunks ++ [(i, AClose); (i, ARelease)].
Definition solo (i : nat) (chunks : nat) : list (nat * action) := solo_round i ++ solo_tail i chunks.

Definition outcome_of (p : pc) : option outcome :=
  match p with
  | Done a => Some (Started a)
  | Fail st e => Some (Failed st e)
  | _ => None
  end.

(* ------------------------------------------------------------------ interchange with the harness *)
Definition v_of_map (m : cfgmap) : value := VList (map (fun kv => VList [VInt (fst kv); VInt (snd kv)]) m).

Definition v_of_content (c : content) : value :=
  match c with
  | CMissing => VList [VInt 0]
  | CDamaged e => VList [VInt 1; VInt (Z.of_N e)]
  | CWrongType => VList [VInt 2]
  | CHollow => VList [VInt 3]
  | CQuick h p => VList [VInt 4; VInt h; VInt p]
  | CData h m => VList [VInt 5; VInt h; v_of_map m]
  | CPartial w => VList [VInt 6; VInt (Z.of_nat w)]
  end.

Fixpoint map_of_v (l : list value) : option cfgmap :=
  match l with
  | [] => Some []
  | VList [VInt k; VInt v] :: r => option_map (cons (k, v)) (map_of_v r)
  | _ => None
  end.

Definition content_of_v (v : value) : option content :=
  match v with
  | VList [VInt 0] => Some CMissing
  | VList [VInt 1; VInt e] => Some (CDamaged (Z.to_N e))
  | VList [VInt 2] => Some CWrongType
  | VList [VInt 3] => Some CHollow
  | VList [VInt 4; VInt h; VInt p] => Some (CQuick h p)
  | VList [VInt 5; VInt h; VList m] => option_map (CData h) (map_of_v m)
  | VList [VInt 6; VInt w] => Some (CPartial (Z.to_nat w))
  | _ => None
  end.

Definition v_of_outcome (o : outcome) : value :=
  match o with
  | Started a => VList [VInt 0; VInt a]
  | Failed st e => VList [VInt 1; VInt (Z.of_N st); VInt (Z.of_N e)]
  end.

Definition v_of_pc (p : pc) : value :=
  match p with
  | Done a => VList [VInt 0; VInt a]
  | Fail st e => VList [VInt 1; VInt (Z.of_N st); VInt (Z.of_N e)]
  | Killed => VList [VInt 2]
  | _ => VList [VInt 3]          (* still running *)
  end.

Definition action_of_v (v : value) : option (nat * action) :=
  match v with
  | VList [VInt i; VInt 0] => Some (Z.to_nat i, AExists)
  | VList [VInt i; VInt 1] => Some (Z.to_nat i, AAcquire)
  | VList [VInt i; VInt 2] => Some (Z.to_nat i, ATimeout)
  | VList [VInt i; VInt 3; t] => option_map (fun c => (Z.to_nat i, AReadAll c)) (content_of_v t)
  | VList [VInt i; VInt 4] => Some (Z.to_nat i, ARelease)
  | VList [VInt i; VInt 5] => Some (Z.to_nat i, ARemove)
  | VList [VInt i; VInt 6] => Some (Z.to_nat i, ATruncOpen)
  | VList [VInt i; VInt 7] => Some (Z.to_nat i, AWriteChunk)
  | VList [VInt i; VInt 8] => Some (Z.to_nat i, AClose)
  | VList [VInt i; VInt 9; VInt e] => Some (Z.to_nat i, ACrash (Z.to_N e))
  | _ => None
  end.

Fixpoint sched_of_v (l : list value) : option (list (nat * action)) :=
  match l with
  | [] => Some []
  | v :: r => match action_of_v v, sched_of_v r with
              | Some a, Some s => Some (a :: s)
              | _, _ => None
              end
  end.

(* the harness' world: hash of the current data files is 1, config file k parses to 100+k, process i asks for
   file (i mod nkeys) *)
Definition h_world (nkeys : Z) (chunks : nat) : world :=
  mkWorld 1 (fun k => 100 + k) (fun i => Z.of_nat i mod (Z.max 1 nkeys)) chunks.

Definition v_of_sys (s : sys) (n : nat) : value :=
  VList [VList (map (fun i => v_of_pc (procs s i)) (seq 0 n)); v_of_content (file s); vbool (lock_free s)].

Definition pair_v (r : outcome * content) : value := VList [v_of_outcome (fst r); v_of_content (snd r)].

Definition run_case (fn : Z) (args : list value) : value :=
  match fn, args with
  | 1, [c] =>                                   (* quick-info cache, one process *)
      match content_of_v c with
      | Some c => pair_v (quick_start gen_config 1 c)
      | None => VErr E_BADCASE
      end
  | 2, [c; VInt x] =>                           (* data cache, one process, first use of config file x *)
      match content_of_v c with
      | Some c => pair_v (data_start gen_config 1 (fun k => 100 + k) x c)
      | None => VErr E_BADCASE
      end
  | 3, [c; VInt n; VInt nkeys; VInt chunks; VList sched] =>     (* n processes on the quick-info cache *)
      match content_of_v c, sched_of_v sched with
      | Some c, Some sc => v_of_sys (run gen_config (h_world nkeys (Z.to_nat chunks)) (init_sys c QStart) sc) (Z.to_nat n)
      | _, _ => VErr E_BADCASE
      end
  | 4, [c; VInt n; VInt nkeys; VInt chunks; VList sched] =>     (* n processes on the data cache *)
      match content_of_v c, sched_of_v sched with
      | Some c, Some sc => v_of_sys (run gen_config (h_world nkeys (Z.to_nat chunks)) (init_sys c DStart) sc) (Z.to_nat n)
      | _, _ => VErr E_BADCASE
      end
  | 5, [VInt e; VList hs] =>                    (* does `except (hs)` catch class e *)
      vbool (catches (map (fun v => match v with VInt z => Z.to_N z | _ => 0%N end) hs) (Z.to_N e))
  | 6, [] => v_of_outcome (disabled_start gen_config)     (* SPSDK_CACHE_DISABLED=1 *)
  | 7, [VInt e; VInt h] => vbool (is_subclass (Z.to_N e) (Z.to_N h))
  | _, _ => VErr E_BADCASE
  end.

