(* Model/RegsModel.v -- executable model of spsdk/utils/registers.py (Register, RegsBitField, _RegistersBase).
   Definitions only.  The arithmetic lines (mask/shift, range tests, sub-register positions, config processors) are NOT
   written here: they are translated from the current source into Gen/GenRegs.v on every run (T1).  The control skeleton
   below (value_to_int, alternative widths, byte reversal, loops over sub-registers, export/parse, configuration) is
   hand-written, faithful to the code (defects included) and tied by the correspondence run of tools/props/c11.py (T2).

   Scope: a register file is a list of top-level registers; a top-level register is either plain or a group of
   sub-registers (one level, as `_add_group_reg` builds them); registers and bit-fields are addressed by position
   (the harness uses unique names).  Widths are positive multiples of 8, alternative widths do not exceed the width. *)
From Coq Require Import ZArith NArith List Bool.
Require Import Value Bytes GenMisc MiscModel GenRegs.
Import ListNotations.
Local Open Scope Z_scope.

(* ------------------------------------------------------------------ layout + state *)
Record field := mkField {
  f_name : list N; f_off : Z; f_width : Z;
  f_proc : bool; f_count : Z;                    (* SHIFT_RIGHT config processor (f_proc = false: base ConfigProcessor) *)
  f_enums : list (list N * Z); f_hidden : bool; f_reset : Z }.

(* a register without sub-registers (a plain top-level register, the own part of a group, or a sub-register) *)
Record sreg := mkSreg {
  s_name : list N; s_offset : Z; s_width : Z; s_reverse : bool; s_alt : list Z;
  s_hidden : bool; s_hex : bool; s_reset : Z;    (* s_reset = get_reset_value(), constant *)
  s_fields : list field;
  s_value : Z }.                                 (* Register._value *)

Record reg := mkReg { r_base : sreg; r_rev_sub : bool; r_subs : list sreg }.
Record regs := mkRegs { g_big : bool; g_regs : list reg }.

Definition set_value (r : sreg) (v : Z) : sreg :=
  mkSreg (s_name r) (s_offset r) (s_width r) (s_reverse r) (s_alt r) (s_hidden r) (s_hex r) (s_reset r) (s_fields r) v.
Definition set_base (r : reg) (b : sreg) : reg := mkReg b (r_rev_sub r) (r_subs r).
Definition set_subs_of (r : reg) (l : list sreg) : reg := mkReg (r_base r) (r_rev_sub r) l.
Definition set_regs (g : regs) (l : list reg) : regs := mkRegs (g_big g) l.

(* ------------------------------------------------------------------ helpers *)
Fixpoint list_set {A} (l : list A) (n : nat) (x : A) : list A :=
  match l, n with
  | [], _ => []
  | _ :: t, O => x :: t
  | h :: t, S k => h :: list_set t k x
  end.

(* value_to_int on an interchange value: int, bytes (big endian), str (documented grammar, Model/MiscModel) *)
Definition to_int (v : value) : res Z :=
  match v with
  | VInt z => Ok z
  | VBytes l => Ok (Z.of_N (be_dec l))
  | VStr s => value_to_int_str s
  | _ => Err 1%N
  end.

Fixpoint insert_z (x : Z) (l : list Z) : list Z :=
  match l with [] => [x] | h :: t => if x <=? h then x :: l else h :: insert_z x t end.
Definition sort_z (l : list Z) : list Z := fold_right insert_z [] l.

Fixpoint pick_alt (cnt : Z) (alts : list Z) (dflt : Z) : Z :=
  match alts with
  | [] => dflt
  | a :: t => if cnt <=? a / 8 then a else pick_alt cnt t dflt
  end.

(* Register.get_alt_width *)
Definition alt_width (width : Z) (alts : list Z) (v : Z) : res Z :=
  match alts with
  | [] => Ok width
  | _ => bind (py_get_bytes_cnt_of_int (bytes_fuel v) v false 0) (fun c => Ok (pick_alt c (sort_z alts) width))
  end.

(* value_to_bytes(v, align_to_2n=False, byte_cnt=n, endianness=E) read back in the opposite byte order *)
Definition rev_in (big : bool) (n : Z) (v : Z) : res Z :=
  bind (value_to_bytes_int v false n big) (fun l => Ok (Z.of_N ((if big then le_dec else be_dec) l))).

(* ------------------------------------------------------------------ Register.set_value / get_value *)
Definition set_common (width : Z) (reverse : bool) (alts : list Z) (value : Z) (raw : bool) : res (Z * Z) :=
  bind (py_reg_check value width) (fun value =>
  bind (alt_width width alts value) (fun aw =>
  bind (if negb raw && reverse then rev_in true (aw / 8) value else Ok value) (fun value =>
  Ok (aw, value)))).

Definition sreg_set (r : sreg) (value : Z) (raw : bool) : res sreg :=
  bind (set_common (s_width r) (s_reverse r) (s_alt r) value raw) (fun p => Ok (set_value r (snd p))).

Definition get_common (big : bool) (width : Z) (reverse : bool) (alts : list Z) (value : Z) (raw : bool) : res Z :=
  bind (alt_width width alts value) (fun aw =>
  if negb raw && reverse then rev_in big (aw / 8) value else Ok value).

Definition sreg_get (big : bool) (r : sreg) (raw : bool) : res Z :=
  get_common big (s_width r) (s_reverse r) (s_alt r) (s_value r) raw.

Fixpoint subs_set (subs : list sreg) (index aw sw : Z) (rev_sub : bool) (value : Z) (raw : bool) : res (list sreg) :=
  match subs with
  | [] => Ok []
  | s :: t =>
      bind (py_sub_pos_set aw index sw rev_sub) (fun pos =>
      bind (py_sub_slice value pos sw) (fun sl =>
      bind (sreg_set s sl raw) (fun s' =>
      bind (subs_set t (index + 1) aw sw rev_sub value raw) (fun t' => Ok (s' :: t')))))
  end.

Fixpoint subs_get (big : bool) (subs : list sreg) (index width sw : Z) (rev_sub raw : bool) (acc : Z) : res Z :=
  match subs with
  | [] => Ok acc
  | s :: t =>
      bind (py_sub_pos_get width index sw rev_sub) (fun pos =>
      bind (sreg_get big s raw) (fun sv =>
      bind (py_sub_acc acc sv pos) (fun acc' => subs_get big t (index + 1) width sw rev_sub raw acc')))
  end.

(* the sub-registers above the selected (alternative) width are written with 0 *)
Fixpoint subs_zero (subs : list sreg) (raw : bool) : res (list sreg) :=
  match subs with
  | [] => Ok []
  | s :: t => bind (sreg_set s 0 raw) (fun s' => bind (subs_zero t raw) (fun t' => Ok (s' :: t')))
  end.

Definition reg_set (r : reg) (value : Z) (raw : bool) : res reg :=
  let b := r_base r in
  bind (set_common (s_width b) (s_reverse b) (s_alt b) value raw) (fun p =>
  let '(aw, value) := p in
  match r_subs r with
  | [] => Ok (set_base r (set_value b value))
  | s0 :: _ =>
      let sw := s_width s0 in
      let n := Z.to_nat (aw / sw) in
      bind (subs_set (firstn n (r_subs r)) 1 aw sw (r_rev_sub r) value raw) (fun l =>
      bind (subs_zero (skipn n (r_subs r)) raw) (fun z =>
      Ok (set_subs_of r (l ++ z))))
  end).

Definition reg_raw_value (big : bool) (r : reg) (raw : bool) : res Z :=
  match r_subs r with
  | [] => Ok (s_value (r_base r))
  | s0 :: _ => subs_get big (r_subs r) 1 (s_width (r_base r)) (s_width s0) (r_rev_sub r) raw 0
  end.

Definition reg_get (big : bool) (r : reg) (raw : bool) : res Z :=
  let b := r_base r in
  bind (reg_raw_value big r raw) (fun value => get_common big (s_width b) (s_reverse b) (s_alt b) value raw).

(* ------------------------------------------------------------------ targets: a top-level register or a sub-register *)
Inductive ref := Top (i : nat) | Sub (i j : nat).

Definition E_NOTFOUND : N := 1%N.     (* SPSDKRegsErrorRegisterNotFound / BitfieldNotFound are SPSDK errors *)

Definition t_get (g : regs) (t : ref) (raw : bool) : res Z :=
  match t with
  | Top i => match nth_error (g_regs g) i with Some r => reg_get (g_big g) r raw | None => Err E_NOTFOUND end
  | Sub i j => match nth_error (g_regs g) i with
               | Some r => match nth_error (r_subs r) j with Some s => sreg_get (g_big g) s raw | None => Err E_NOTFOUND end
               | None => Err E_NOTFOUND
               end
  end.

Definition t_set (g : regs) (t : ref) (value : Z) (raw : bool) : res regs :=
  match t with
  | Top i => match nth_error (g_regs g) i with
             | Some r => bind (reg_set r value raw) (fun r' => Ok (set_regs g (list_set (g_regs g) i r')))
             | None => Err E_NOTFOUND
             end
  | Sub i j => match nth_error (g_regs g) i with
               | Some r => match nth_error (r_subs r) j with
                           | Some s => bind (sreg_set s value raw) (fun s' =>
                                       Ok (set_regs g (list_set (g_regs g) i (set_subs_of r (list_set (r_subs r) j s')))))
                           | None => Err E_NOTFOUND
                           end
               | None => Err E_NOTFOUND
               end
  end.

(* the attribute part of the addressed register *)
Definition t_sreg (g : regs) (t : ref) : option sreg :=
  match t with
  | Top i => option_map r_base (nth_error (g_regs g) i)
  | Sub i j => match nth_error (g_regs g) i with Some r => nth_error (r_subs r) j | None => None end
  end.

Definition t_field (g : regs) (t : ref) (k : nat) : option field :=
  match t_sreg g t with Some s => nth_error (s_fields s) k | None => None end.

(* ------------------------------------------------------------------ RegsBitField *)
Definition field_of (regval : Z) (f : field) : res Z :=
  py_bf_get regval (f_off f) (f_width f) (f_proc f) (f_count f).

Definition f_get (g : regs) (t : ref) (k : nat) : res Z :=
  match t_field g t k with
  | Some f => bind (t_get g t false) (fun rv => field_of rv f)
  | None => Err E_NOTFOUND
  end.

(* RegsBitField.set_value with an already converted integer *)
Definition f_set_int (g : regs) (t : ref) (k : nat) (x : Z) (raw nopre : bool) : res regs :=
  match t_field g t k with
  | Some f =>
      bind (t_get g t raw) (fun rv =>
      bind (py_bf_set x rv (f_off f) (f_width f) (f_proc f) (f_count f) nopre) (fun rv' =>
      t_set g t rv' raw))
  | None => Err E_NOTFOUND
  end.

Definition f_set (g : regs) (t : ref) (k : nat) (v : value) (raw nopre : bool) : res regs :=
  match t_field g t k with
  | Some _ => bind (to_int v) (fun x => f_set_int g t k x raw nopre)
  | None => Err E_NOTFOUND
  end.

Fixpoint enum_const (enums : list (list N * Z)) (s : list N) : option Z :=
  match enums with
  | [] => None
  | (n, v) :: t => if eqb_list n s then Some v else enum_const t s
  end.

Fixpoint enum_name (enums : list (list N * Z)) (v : Z) : option (list N) :=
  match enums with
  | [] => None
  | (n, x) :: t => if x =? v then Some n else enum_name t v
  end.

Definition RAW_PREFIX : list N := [82; 65; 87; 58]%N.    (* "RAW:" *)
Definition starts_raw (s : list N) : bool := eqb_list (firstn 4 s) RAW_PREFIX.

(* RegsBitField.set_enum_value *)
Definition f_set_enum (g : regs) (t : ref) (k : nat) (v : value) (raw : bool) : res regs :=
  match t_field g t k with
  | None => Err E_NOTFOUND
  | Some f =>
      match v with
      | VStr s =>
          match enum_const (f_enums f) s with
          | Some c => f_set_int g t k c raw false
          | None =>
              if starts_raw s then bind (value_to_int_str (skipn 4 s)) (fun x => f_set_int g t k x true true)
              else bind (value_to_int_str s) (fun x => f_set_int g t k x raw false)
          end
      | _ => bind (to_int v) (fun x => f_set_int g t k x raw false)
      end
  end.

(* ------------------------------------------------------------------ text output *)
Fixpoint hex_rev (fuel : nat) (v : Z) : list N :=
  match fuel with
  | O => []
  | S k => if v =? 0 then [] else hexchar (v mod 16) :: hex_rev k (v / 16)
  end.
(* format(v, "0{w}X") for v >= 0 *)
Definition hex_upper_pad (v w : Z) : list N :=
  let d := rev (hex_rev (S (Z.to_nat (Z.log2 v))) v) in
  let d := match d with [] => [48%N] | _ => d end in
  repeat 48%N (Z.to_nat (w - Z.of_nat (length d))) ++ d.

Definition f_hex (g : regs) (t : ref) (k : nat) : res (list N) :=
  match t_field g t k with
  | Some f => bind (f_get g t k) (fun v =>
              bind (py_cp_width (f_width f) (f_proc f) (f_count f)) (fun cw =>
              Ok ([48; 120]%N ++ hex_upper_pad v (cw / 4))))
  | None => Err E_NOTFOUND
  end.

Definition f_enum (g : regs) (t : ref) (k : nat) : res (list N) :=
  match t_field g t k with
  | Some f => bind (f_get g t k) (fun v =>
              match enum_name (f_enums f) v with Some n => Ok n | None => f_hex g t k end)
  | None => Err E_NOTFOUND
  end.

Definition t_hex (g : regs) (t : ref) (raw : bool) : res (list N) :=
  match t_sreg g t with
  | Some s => bind (t_get g t raw) (fun v =>
              bind (alt_width (s_width s) (s_alt s) v) (fun aw =>
              Ok ((if s_hex s then [] else [48; 120]%N) ++ hex_upper_pad v (aw / 4))))
  | None => Err E_NOTFOUND
  end.

Definition t_bytes (g : regs) (t : ref) (raw : bool) : res (list N) :=
  match t_sreg g t with
  | Some s => bind (t_get g t raw) (fun v =>
              bind (alt_width (s_width s) (s_alt s) v) (fun aw => value_to_bytes_int v false (aw / 8) (g_big g)))
  | None => Err E_NOTFOUND
  end.

(* ------------------------------------------------------------------ reset *)
Definition t_reset (g : regs) (t : ref) (raw : bool) : res regs :=
  match t_sreg g t with
  | Some s => t_set g t (s_reset s) raw
  | None => Err E_NOTFOUND
  end.

(* reset_values(): every non-hidden top-level register, raw *)
Fixpoint reset_all_from (g : regs) (i : nat) (n : nat) : res regs :=
  match n with
  | O => Ok g
  | S k => match nth_error (g_regs g) i with
           | Some r => if s_hidden (r_base r) then reset_all_from g (S i) k
                       else bind (t_reset g (Top i) true) (fun g' => reset_all_from g' (S i) k)
           | None => Ok g
           end
  end.
Definition reset_all (g : regs) : res regs := reset_all_from g 0 (length (g_regs g)).

(* ------------------------------------------------------------------ export / parse *)
(* one BinaryImage child: (offset, bytes of length width/8) *)
Definition reg_image (g : regs) (i : nat) (r : reg) : res (Z * list N) :=
  bind (t_bytes g (Top i) true) (fun b =>
  let size := Z.to_nat (s_width (r_base r) / 8) in
  let data := if Nat.eqb (length b) size then b else splice (zeros size) 0 b in
  Ok (s_offset (r_base r), data)).

Fixpoint images_from (g : regs) (i : nat) (l : list reg) : res (list (Z * list N)) :=
  match l with
  | [] => Ok []
  | r :: t => bind (reg_image g i r) (fun im => bind (images_from g (S i) t) (fun ims => Ok (im :: ims)))
  end.

(* BinaryImage.add_image keeps children ordered by offset, later ones after earlier ones of the same offset *)
Fixpoint insert_img (x : Z * list N) (l : list (Z * list N)) : list (Z * list N) :=
  match l with
  | [] => [x]
  | c :: t => if fst x <? fst c then x :: l else c :: insert_img x t
  end.

Definition image_size (ims : list (Z * list N)) : Z :=
  fold_left (fun m im => Z.max m (fst im + zlen (snd im))) ims 0.

Definition export (g : regs) : res (list N) :=
  bind (images_from g 0 (g_regs g)) (fun ims =>
  let sorted := fold_left (fun l x => insert_img x l) ims [] in
  let total := Z.to_nat (image_size ims) in
  Ok (fold_left (fun buf im => splice buf (Z.to_nat (fst im)) (snd im)) sorted (zeros total))).

Definition dec_bytes (big : bool) (l : list N) : Z := Z.of_N ((if big then be_dec else le_dec) l).

(* parse(): walks get_registers() (non-hidden top-level), stops at the first register that does not fit *)
Fixpoint parse_from (g : regs) (bin : list N) (i : nat) (n : nat) : res regs :=
  match n with
  | O => Ok g
  | S k => match nth_error (g_regs g) i with
           | None => Ok g
           | Some r =>
               let b := r_base r in
               if s_hidden b then parse_from g bin (S i) k
               else if zlen bin <? s_offset b + s_width b / 8 then Ok g
               else
                 let chunk := slice bin (Z.to_nat (s_offset b)) (Z.to_nat (s_offset b + s_width b / 8)) in
                 bind (t_set g (Top i) (dec_bytes (g_big g) chunk) true) (fun g' => parse_from g' bin (S i) k)
           end
  end.
Definition parse (g : regs) (bin : list N) : res regs := parse_from g bin 0 (length (g_regs g)).

(* ------------------------------------------------------------------ configuration *)
Inductive centry := CVal (v : value) | CFields (l : list (nat * value)).

(* state after the failing step is kept: load_yml_config is not atomic.
   A value that value_to_int refuses raises SPSDKError; the handler of load_yml_config then calls
   bitfield_val.replace(...), which is an AttributeError when the value is not a string. *)
Definition cfg_scalar (v : value) : bool :=
  match v with VInt _ | VStr _ | VBytes _ => true | _ => false end.

Fixpoint load_fields (g : regs) (t : ref) (l : list (nat * value)) : regs * res unit :=
  match l with
  | [] => (g, Ok tt)
  | (k, v) :: rest =>
      match t_field g t k with
      | None => (g, Err E_NOTFOUND)
      | Some _ =>
          match f_set_enum g t k v true with
          | Ok g' => load_fields g' t rest
          | Err e => (g, Err (if cfg_scalar v then e else 2%N))
          end
      end
  end.

Definition cfg_value (hexstr : bool) (v : value) : res Z :=
  match v with
  | VStr s => if hexstr then match py_int16_text s with Some x => Ok x | None => Err 2%N end
              else value_to_int_str s
  | _ => to_int v
  end.

Definition load_entry (g : regs) (t : ref) (e : centry) : regs * res unit :=
  match t_sreg g t with
  | None => (g, Err E_NOTFOUND)
  | Some s =>
      match e with
      | CVal v => match bind (cfg_value (s_hex s) v) (fun x => t_set g t x false) with
                  | Ok g' => (g', Ok tt)
                  | Err e => (g, Err e)
                  end
      | CFields l =>
          match load_fields g t l with
          | (g1, Ok _) => match bind (t_get g1 t true) (fun x => t_set g1 t x false) with
                          | Ok g2 => (g2, Ok tt)
                          | Err e => (g1, Err e)
                          end
          | (g1, Err e) => (g1, Err e)
          end
      end
  end.

Fixpoint load_cfg (g : regs) (cfg : list (ref * centry)) : regs * res unit :=
  match cfg with
  | [] => (g, Ok tt)
  | (t, e) :: rest => match load_entry g t e with
                      | (g', Ok _) => load_cfg g' rest
                      | (g', Err k) => (g', Err k)
                      end
  end.

(* get_config: one entry per top-level register *)
Inductive cout := CoHex (name : list N) (s : list N) | CoFields (name : list N) (l : list (list N * list N)).

Fixpoint cfg_fields (g : regs) (t : ref) (diff : bool) (k : nat) (fs : list field) : res (list (nat * list N * list N)) :=
  match fs with
  | [] => Ok []
  | f :: rest =>
      bind (f_get g t k) (fun v =>
      bind (if (diff || f_hidden f) && (v =? f_reset f) then Ok [] else bind (f_enum g t k) (fun s => Ok [(k, f_name f, s)])) (fun here =>
      bind (cfg_fields g t diff (S k) rest) (fun more => Ok (here ++ more))))
  end.

Fixpoint get_cfg_from (g : regs) (diff : bool) (i : nat) (l : list reg) : res (list (nat * cout * list (nat * value))) :=
  match l with
  | [] => Ok []
  | r :: rest =>
      let b := r_base r in
      bind (if diff then bind (t_get g (Top i) true) (fun v => Ok (v =? s_reset b)) else Ok false) (fun skip =>
      bind (if skip then Ok []
            else match s_fields b with
                 | [] => bind (t_hex g (Top i) false) (fun s => Ok [(i, CoHex (s_name b) s, [])])
                 | fs => bind (cfg_fields g (Top i) diff 0 fs) (fun l =>
                         Ok [(i, CoFields (s_name b) (map (fun x => (snd (fst x), snd x)) l),
                              map (fun x => (fst (fst x), VStr (snd x))) l)])
                 end) (fun here =>
      bind (get_cfg_from g diff (S i) rest) (fun more => Ok (here ++ more))))
  end.
Definition get_cfg (g : regs) (diff : bool) := get_cfg_from g diff 0 (g_regs g).

(* the configuration as load_yml_config consumes it *)
Definition cfg_as_input (c : list (nat * cout * list (nat * value))) : list (ref * centry) :=
  map (fun x => match snd (fst x) with
                | CoHex _ s => (Top (fst (fst x)), CVal (VStr s))
                | CoFields _ _ => (Top (fst (fst x)), CFields (snd x))
                end) c.

(* ------------------------------------------------------------------ register names *)
Definition reg_names (g : regs) (include_group_regs : bool) : list (list N) :=
  let tops := map r_base (g_regs g) in
  let subs := if include_group_regs then flat_map r_subs (g_regs g) else [] in
  map s_name (filter (fun s => negb (s_hidden s)) (tops ++ subs)).

(* ------------------------------------------------------------------ operations *)
Inductive op :=
| OSetReg (t : ref) (v : value) (raw : bool)
| OSetField (t : ref) (k : nat) (v : value) (raw nopre : bool)
| OSetEnum (t : ref) (k : nat) (v : value) (raw : bool)
| OReset (t : ref) (raw : bool)
| OResetAll
| OParse (b : list N)
| OReparse                                   (* parse(export()) on the same object *)
| OLoadCfg (c : list (ref * centry))
| OGetReg (t : ref) (raw : bool)             (* queries from here on *)
| OGetField (t : ref) (k : nat)
| OGetEnum (t : ref) (k : nat)
| OGetFieldHex (t : ref) (k : nat)
| OGetHex (t : ref) (raw : bool)
| OGetBytes (t : ref) (raw : bool)
| OExport
| OGetCfg (diff : bool)
| ONames (include_group_regs : bool)
| OFreshParse                                (* fresh object of the same layout .parse(this.export()); snapshot of it *)
| OFreshCfg (diff : bool)                    (* fresh object .load_yml_config(this.get_config(diff)); snapshot of it *)
| OQueryAll (t : ref).                       (* the remaining read-only methods; no output of interest *)

Definition is_query (o : op) : bool :=
  match o with
  | OSetReg _ _ _ | OSetField _ _ _ _ _ | OSetEnum _ _ _ _ | OReset _ _ | OResetAll | OParse _ | OReparse | OLoadCfg _ => false
  | _ => true
  end.

(* snapshot of every observable value *)
Definition vz (r : res Z) : value := vres VInt r.
(* bit-field values are derived from one read of the register (this is f_get for every valid index) *)
Definition snap_fields (rv : res Z) (fs : list field) : list value :=
  map (fun f => vz (bind rv (fun v => field_of v f))) fs.
Definition snap_target (g : regs) (t : ref) (s : sreg) : list value :=
  let lv := t_get g t false in
  [VInt (s_offset s); VInt (s_width s); vz (t_get g t true); vz lv;
   vnat (length (s_fields s)); VList (snap_fields lv (s_fields s))].
Fixpoint snap_subs (g : regs) (i j : nat) (l : list sreg) : list value :=
  match l with [] => [] | s :: rest => VList (snap_target g (Sub i j) s) :: snap_subs g i (S j) rest end.
Fixpoint snap_regs (g : regs) (i : nat) (l : list reg) : list value :=
  match l with
  | [] => []
  | r :: rest => VList (snap_target g (Top i) (r_base r) ++ [vnat (length (r_subs r)); VList (snap_subs g i 0 (r_subs r))])
                 :: snap_regs g (S i) rest
  end.
Definition snap (g : regs) : value := VList [vnat (length (g_regs g)); VList (snap_regs g 0 (g_regs g))].

Definition vunit (g0 : regs) (r : res regs) : regs * value :=
  match r with Ok g => (g, VList []) | Err k => (g0, VErr k) end.
Definition vstr_res (r : res (list N)) : value := vres VStr r.

Definition cout_value (c : cout) : value :=
  match c with
  | CoHex n s => VList [VStr n; VInt 0; VStr s]
  | CoFields n l => VList [VStr n; VInt 1; VList (map (fun p => VList [VStr (fst p); VStr (snd p)]) l)]
  end.

(* init: the freshly built object of this layout (used by the Fresh* operations) *)
Definition step (init : regs) (g : regs) (o : op) : regs * value :=
  match o with
  | OSetReg t v raw => vunit g (bind (to_int v) (fun x => t_set g t x raw))
  | OSetField t k v raw nopre => vunit g (f_set g t k v raw nopre)
  | OSetEnum t k v raw => vunit g (f_set_enum g t k v raw)
  | OReset t raw => vunit g (t_reset g t raw)
  | OResetAll => vunit g (reset_all g)
  | OParse b => vunit g (parse g b)
  | OReparse => vunit g (bind (export g) (fun b => parse g b))
  | OLoadCfg c => match load_cfg g c with (g', Ok _) => (g', VList []) | (g', Err k) => (g', VErr k) end
  | OGetReg t raw => (g, vz (t_get g t raw))
  | OGetField t k => (g, vz (f_get g t k))
  | OGetEnum t k => (g, vstr_res (f_enum g t k))
  | OGetFieldHex t k => (g, vstr_res (f_hex g t k))
  | OGetHex t raw => (g, vstr_res (t_hex g t raw))
  | OGetBytes t raw => (g, vres VBytes (t_bytes g t raw))
  | OExport => (g, vres VBytes (export g))
  | OGetCfg diff => (g, vres (fun c => VList (map (fun x => cout_value (snd (fst x))) c)) (get_cfg g diff))
  | ONames inc => (g, VList (map VStr (reg_names g inc)))
  | OFreshParse => (g, vres snap (bind (export g) (fun b => parse init b)))
  | OFreshCfg diff => (g, match get_cfg g diff with
                          | Ok c => match load_cfg init (cfg_as_input c) with
                                    | (g', Ok _) => snap g'
                                    | (_, Err k) => VErr k
                                    end
                          | Err k => VErr k
                          end)
  | OQueryAll _ => (g, VList [])
  end.

Fixpoint run (init g : regs) (ops : list op) : regs :=
  match ops with [] => g | o :: rest => run init (fst (step init g o)) rest end.

(* equality of interchange values; used only to print the part of a snapshot that an operation changed *)
Fixpoint value_eqb (a b : value) {struct a} : bool :=
  match a, b with
  | VInt x, VInt y => x =? y
  | VBytes x, VBytes y => eqb_list x y
  | VStr x, VStr y => eqb_list x y
  | VErr x, VErr y => N.eqb x y
  | VList x, VList y =>
      (fix go (l m : list value) : bool :=
         match l, m with
         | [], [] => true
         | p :: l', q :: m' => value_eqb p q && go l' m'
         | _, _ => false
         end) x y
  | _, _ => false
  end.

Fixpoint diff_list (i : Z) (prev cur : list value) : list value :=
  match prev, cur with
  | p :: prev', c :: cur' => (if value_eqb p c then [] else [VList [VInt i; c]]) ++ diff_list (i + 1) prev' cur'
  | _, _ => []
  end.

(* the snapshot relative to the previous one: register count, and the registers whose snapshot changed *)
Definition snap_diff (prev cur : regs) : value :=
  if Nat.eqb (length (g_regs prev)) (length (g_regs cur))
  then VList [vnat (length (g_regs cur)); VList (diff_list 0 (snap_regs prev 0 (g_regs prev)) (snap_regs cur 0 (g_regs cur)))]
  else VList [vnat (length (g_regs cur)); VList []; snap cur].

Fixpoint trace (init g : regs) (ops : list op) : list value :=
  match ops with
  | [] => []
  | o :: rest => let '(g', out) := step init g o in VList [out; snap_diff g g'] :: trace init g' rest
  end.

(* ------------------------------------------------------------------ decoding of harness input *)
Fixpoint traverse {A B} (f : A -> option B) (l : list A) : option (list B) :=
  match l with
  | [] => Some []
  | x :: t => match f x, traverse f t with Some y, Some r => Some (y :: r) | _, _ => None end
  end.
Definition zb (z : Z) : bool := negb (z =? 0).

Definition dec_enum (v : value) : option (list N * Z) :=
  match v with VList [VStr n; VInt x] => Some (n, x) | _ => None end.
Definition dec_z (v : value) : option Z := match v with VInt z => Some z | _ => None end.

Definition dec_field (v : value) : option field :=
  match v with
  | VList [VStr n; VInt off; VInt w; VInt hp; VInt cnt; VList en; VInt hid; VInt rst] =>
      match traverse dec_enum en with
      | Some en => Some (mkField n off w (zb hp) cnt en (zb hid) rst)
      | None => None
      end
  | _ => None
  end.

Definition dec_sreg (v : value) : option sreg :=
  match v with
  | VList [VStr n; VInt off; VInt w; VInt rev; VList alt; VInt hid; VInt hex; VInt rst; VList fs; VInt val] =>
      match traverse dec_z alt, traverse dec_field fs with
      | Some alt, Some fs => Some (mkSreg n off w (zb rev) alt (zb hid) (zb hex) rst fs val)
      | _, _ => None
      end
  | _ => None
  end.

Definition dec_reg (v : value) : option reg :=
  match v with
  | VList [b; VInt rs; VList subs] =>
      match dec_sreg b, traverse dec_sreg subs with
      | Some b, Some subs => Some (mkReg b (zb rs) subs)
      | _, _ => None
      end
  | _ => None
  end.

Definition dec_regs (v : value) : option regs :=
  match v with
  | VList [VInt big; VList rs] => option_map (mkRegs (zb big)) (traverse dec_reg rs)
  | _ => None
  end.

Definition dec_ref (v : value) : option ref :=
  match v with
  | VList [VInt i] => Some (Top (Z.to_nat i))
  | VList [VInt i; VInt j] => Some (Sub (Z.to_nat i) (Z.to_nat j))
  | _ => None
  end.

Definition dec_fv (v : value) : option (nat * value) :=
  match v with VList [VInt k; x] => Some (Z.to_nat k, x) | _ => None end.

Definition dec_centry (v : value) : option (ref * centry) :=
  match v with
  | VList [t; VInt 0; x] => option_map (fun t => (t, CVal x)) (dec_ref t)
  | VList [t; VInt 1; VList l] =>
      match dec_ref t, traverse dec_fv l with Some t, Some l => Some (t, CFields l) | _, _ => None end
  | _ => None
  end.

Definition dec_op (v : value) : option op :=
  match v with
  | VList [VInt 1; t; x; VInt raw] => option_map (fun t => OSetReg t x (zb raw)) (dec_ref t)
  | VList [VInt 2; t; VInt k; x; VInt raw; VInt np] => option_map (fun t => OSetField t (Z.to_nat k) x (zb raw) (zb np)) (dec_ref t)
  | VList [VInt 3; t; VInt k; x; VInt raw] => option_map (fun t => OSetEnum t (Z.to_nat k) x (zb raw)) (dec_ref t)
  | VList [VInt 4; t; VInt raw] => option_map (fun t => OReset t (zb raw)) (dec_ref t)
  | VList [VInt 5] => Some OResetAll
  | VList [VInt 6; VBytes b] => Some (OParse b)
  | VList [VInt 7] => Some OReparse
  | VList [VInt 8; VList c] => option_map OLoadCfg (traverse dec_centry c)
  | VList [VInt 9; t; VInt raw] => option_map (fun t => OGetReg t (zb raw)) (dec_ref t)
  | VList [VInt 10; t; VInt k] => option_map (fun t => OGetField t (Z.to_nat k)) (dec_ref t)
  | VList [VInt 11; t; VInt k] => option_map (fun t => OGetEnum t (Z.to_nat k)) (dec_ref t)
  | VList [VInt 12; t; VInt k] => option_map (fun t => OGetFieldHex t (Z.to_nat k)) (dec_ref t)
  | VList [VInt 13; t; VInt raw] => option_map (fun t => OGetHex t (zb raw)) (dec_ref t)
  | VList [VInt 14; t; VInt raw] => option_map (fun t => OGetBytes t (zb raw)) (dec_ref t)
  | VList [VInt 15] => Some OExport
  | VList [VInt 16; VInt d] => Some (OGetCfg (zb d))
  | VList [VInt 17; VInt i] => Some (ONames (zb i))
  | VList [VInt 18] => Some OFreshParse
  | VList [VInt 19; VInt d] => Some (OFreshCfg (zb d))
  | VList [VInt 20; t] => option_map OQueryAll (dec_ref t)
  | _ => None
  end.

(* run_case 1 [layout; VList ops] = VList (snapshot of the fresh object :: [out; snapshot] per operation) *)
Definition run_case (fn : Z) (args : list value) : value :=
  match fn, args with
  | 1, [lay; VList ops] =>
      match dec_regs lay, traverse dec_op ops with
      | Some g, Some ops => VList (snap g :: trace g g ops)
      | _, _ => VErr E_BADCASE
      end
  | _, _ => VErr E_BADCASE
  end.
