(* Model/BimgPackModel.v -- harness-only helper for the C14 correspondence (no theorem depends on this file; it is kept
   apart from BimgModel.v so that the property theorems' closure does not load the primitive-integer library).
   Input encoding of long byte strings in case files: 7 bytes per primitive integer, little endian (a list literal of N
   costs ~50 us per byte to type-check, a primitive integer literal almost nothing).  Definitions only. *)
From Coq Require Import ZArith NArith List Bool Uint63.
Import ListNotations.
Local Open Scope Z_scope.

Fixpoint le_bytes (k : nat) (z : Z) : list N :=
  match k with O => [] | S k' => Z.to_N (Z.land z 255) :: le_bytes k' (Z.shiftr z 8) end.
Fixpoint unpack63 (n : nat) (l : list int) : list N :=
  match l with
  | [] => []
  | x :: tl => le_bytes (Nat.min n 7) (Uint63.to_Z x) ++ unpack63 (n - 7) tl
  end.

Example unpack63_example : unpack63 9 [0x07060504030201; 0x0908]%uint63 = [1; 2; 3; 4; 5; 6; 7; 8; 9]%N.
Proof. vm_compute. reflexivity. Qed.
