(* Model/FreshModel.v -- C17: where the secrets SPSDK invents come from.

   Entropy is one global stream of draws numbered 1,2,3,... (the OS generator; one stream for all interpreter
   processes).  The model is parametric in the draw-site table extracted from the source on every run
   (Gen/GenFresh.v : gen_sites, gen_closure): a site is evaluated either on every call (PerCall) or once when its
   module is imported (ImportTime: default argument, class body, module level); import-time values are kept in
   an interpreter-wide cache and copied into every artifact that uses them.

   A history is a list of operations: interpreter (re)start, module import, construction of an artifact
   (SB2.0/2.1 image, encrypted MBI, OTFAD/IEE key blob, BEE blocks, HAB DEK/nonce/container) with any subset of the
   secrets supplied by the user, and later actions on an artifact (export, lazy read).  The result records, for
   every secret slot of every artifact, where its value came from: the user, or draw number i.

   Definitions only.  Faithful to the code: which guard (falsy / is-None) protects which draw, order of the draws,
   discarded draws (HAB DEK drawn twice by load_from_config), lazily drawn MBI counter IV. *)
From Coq Require Import ZArith NArith List Bool.
Require Import Value GenFresh.
Import ListNotations.
Local Open Scope N_scope.

(* ---------- site table (generated) ---------- *)
Definition row := (N * N * bool * N)%type.          (* module, line, per_call, logical site id *)
Definition table := list row.
Definition row_mod (r : row) : N := fst (fst (fst r)).
Definition row_line (r : row) : N := snd (fst (fst r)).
Definition row_pc (r : row) : bool := snd (fst r).
Definition row_site (r : row) : N := snd r.

Definition all_percall (t : table) : bool := forallb row_pc t.
Definition site_percall (t : table) (s : N) : bool :=
  forallb (fun r => negb (row_site r =? s) || row_pc r) t.
Definition has_site (t : table) (s : N) : bool := existsb (fun r => row_site r =? s) t.

(* ---------- arguments, origins, items ---------- *)
Inductive guard := GFalsy | GNone.                   (* `x if x else draw` / `if x is None: x = draw` *)
Inductive arg := AAbsent | AEmpty | AGiven (v : N).  (* None / b"" / a user value *)
Inductive origin := OEmpty | OUser (v : N) | ODraw (i : N).

(* one potential draw: field it feeds, logical site, enclosing call edges that may be import-time,
   guard, the user's argument, number of bytes, and whether the value ends up in the artifact *)
Inductive item := Item (field site : N) (edges : list N) (g : guard) (a : arg) (len : N) (keep : bool).

Definition invents (g : guard) (a : arg) : bool :=
  match g, a with
  | GFalsy, AGiven _ => false
  | GFalsy, _ => true
  | GNone, AAbsent => true
  | GNone, _ => false
  end.
Definition user_origin (a : arg) : origin := match a with AGiven v => OUser v | _ => OEmpty end.

Fixpoint first_import_edge (t : table) (es : list N) : option N :=
  match es with
  | [] => None
  | e :: r => if site_percall t e then first_import_edge t r else Some e
  end.
Definition cache_key (t : table) (site : N) (edges : list N) : option N :=
  match first_import_edge t edges with
  | Some e => Some (e * 1000 + site)
  | None => if site_percall t site then None else Some site
  end.

Fixpoint lookup (k : N) (c : list (N * N)) : option N :=
  match c with
  | [] => None
  | (k', v) :: r => if k' =? k then Some v else lookup k r
  end.

(* ---------- entropy state of one interpreter ---------- *)
Record rs := RS { r_next : N; r_cache : list (N * N) }.
Definition slot := (N * origin)%type.
Definition draw := (N * N)%type.                     (* draw number, bytes *)

Definition keep_slot (keep : bool) (f : N) (o : origin) : list slot := if keep then [(f, o)] else [].

Definition exec_item (t : table) (s : rs) (it : item) : rs * list draw * list slot :=
  match it with
  | Item f site es g a len keep =>
      if invents g a then
        match cache_key t site es with
        | None => (RS (r_next s + 1) (r_cache s), [(r_next s, len)], keep_slot keep f (ODraw (r_next s)))
        | Some k =>
            match lookup k (r_cache s) with
            | Some i => (s, [], keep_slot keep f (ODraw i))
            | None => (RS (r_next s + 1) ((k, r_next s) :: r_cache s), [(r_next s, len)],
                       keep_slot keep f (ODraw (r_next s)))
            end
        end
      else (s, [], keep_slot keep f (user_origin a))
  end.

Fixpoint exec_items (t : table) (s : rs) (its : list item) : rs * list draw * list slot :=
  match its with
  | [] => (s, [], [])
  | it :: r =>
      let '(s1, d1, l1) := exec_item t s it in
      let '(s2, d2, l2) := exec_items t s1 r in
      (s2, d1 ++ d2, l1 ++ l2)
  end.

(* ---------- imports ---------- *)
(* cache entries created when an import-time row is evaluated: (key, bytes) *)
Definition import_entries (r : row) : list (N * N) :=
  let s := row_site r in
  if (s =? 31) || (s =? 32) then [(s * 1000 + 1, 32); (s * 1000 + 2, 32); (s * 1000 + 3, 16); (s * 1000 + 4, 8)]
  else if s =? 0 then [(500000 + row_line r, 0)]
  else [(s, 16)].

Fixpoint import_draws (s : rs) (es : list (N * N)) : rs * list draw :=
  match es with
  | [] => (s, [])
  | (k, len) :: r =>
      match lookup k (r_cache s) with
      | Some _ => import_draws s r
      | None =>
          let '(s2, d2) := import_draws (RS (r_next s + 1) ((k, r_next s) :: r_cache s)) r in
          (s2, (r_next s, len) :: d2)
      end
  end.

Definition import_rows (t : table) (s : rs) (m : N) : rs * list draw :=
  import_draws s (flat_map import_entries (filter (fun r => (row_mod r =? m) && negb (row_pc r)) t)).

Definition closure := list (N * list N).
Fixpoint closure_of (c : closure) (m : N) : list N :=
  match c with
  | [] => [m]
  | (m', l) :: r => if m' =? m then l else closure_of r m
  end.
Definition mem (x : N) (l : list N) : bool := existsb (N.eqb x) l.

Fixpoint import_list (t : table) (s : rs) (imp : list N) (ms : list N) : rs * list N * list draw :=
  match ms with
  | [] => (s, imp, [])
  | m :: r =>
      if mem m imp then import_list t s imp r
      else
        let '(s1, d1) := import_rows t s m in
        let '(s2, imp2, d2) := import_list t s1 (imp ++ [m]) r in
        (s2, imp2, d1 ++ d2)
  end.
Definition ensure_import (t : table) (c : closure) (s : rs) (imp : list N) (m : N) : rs * list N * list draw :=
  import_list t s imp (closure_of c m).

(* ---------- artifacts ---------- *)
Record obj := Obj { o_kind : N; o_flag : N; o_args : list arg }.
Definition wslot := (N * N * origin)%type.            (* artifact id, field, origin *)
Record world := W { w_rs : rs; w_imp : list N; w_objs : list obj; w_base : N; w_slots : list wslot }.

Inductive op :=
| Restart
| Import (m : N)
| New (k flag : N) (args : list arg)
| Act (j a : N) (x : arg)
| Again (j : N).          (* build once more from the SAME configuration object that artifact j was built from *)

Definition garg (a : list arg) (n : nat) : arg := nth n a AAbsent.

(* fields *)
Definition F_DEK := 1.  Definition F_MAC := 2.  Definition F_NONCE := 3. Definition F_PAD := 4.
Definition F_HPAD := 5. Definition F_FILL := 6. Definition F_IV := 7.    Definition F_KEY := 8.
Definition F_CTR := 9.  Definition F_KEY1 := 10. Definition F_KEY2 := 11. Definition F_BCTR := 12.
Definition F_KKEY := 13. Definition F_KIV := 14. Definition F_SW := 15.  Definition F_KEK := 16.

Definition sb_items (edges : list N) (a : list arg) (keep_pad : bool) : list item :=
  [ Item F_DEK 1 edges GFalsy (garg a 0) 32 true
  ; Item F_MAC 2 edges GFalsy (garg a 1) 32 true
  ; Item F_NONCE 3 edges GFalsy (garg a 2) 16 true
  ; Item F_PAD 4 edges GFalsy (garg a 3) 8 keep_pad ].

Definition is_empty (a : arg) : bool := match a with AEmpty => true | _ => false end.
Definition bit0 (n : N) : bool := N.odd n.
Definition bit1 (n : N) : bool := N.odd (n / 2).

(* BeeNxp.load_from_config, one engine: fresh PRDB and KIB, then the user key (drawn by load_hex_string when empty) *)
Definition bee_engine_items (h : N) (nokey : bool) : list item :=
  [ Item (F_BCTR + 20 * h) 15 [] GFalsy AAbsent 12 true
  ; Item (F_KKEY + 20 * h) 16 [] GFalsy AAbsent 16 true
  ; Item (F_KIV + 20 * h) 17 [] GFalsy AAbsent 16 true ]
  ++ (if nokey then [ Item (F_SW + 20 * h) 22 [] GFalsy AAbsent 16 true ] else []).

(* module to import, items, status (0 ok / 1 rejected) of constructing an artifact *)
Definition plan_new (t : table) (k flag : N) (a : list arg) : option (N * list item * N) :=
  match k with
  | 1 => Some (2, if flag =? 0 then sb_items [31] [] false else sb_items [] a false, 0)
  | 2 => Some (2, if flag =? 0 then sb_items [32] [] true else sb_items [] a true, 0)
  | 3 => (* load_from_config + export; flag 2: a 4-byte load command, padded to 16 with 12 random bytes unless zeroPadding *)
         Some (2, sb_items [] a true ++ (if flag =? 2 then [ Item 0 21 [] GFalsy (garg a 3) 12 false ] else []), 0)
  | 4 => Some (10, if (flag mod 4) =? 0 then [] else [Item F_IV 9 [] GFalsy (garg a 0) 16 true], 0)
  | 5 => Some (4, [ Item F_KEY 10 [] GNone (garg a 0) 16 true; Item F_CTR 11 [] GNone (garg a 1) 8 true ],
               if is_empty (garg a 0) && is_empty (garg a 1) then 1 else 0)
  | 6 => let l1 := if flag =? 0 then 16 else 32 in
         let l2 := if flag =? 1 then 32 else 16 in
         Some (5, [ Item F_KEY1 13 [] GNone (garg a 0) l1 true; Item F_KEY2 14 [] GNone (garg a 1) l2 true ], 0)
  | 7 => Some (6, [ Item F_BCTR 15 [] GFalsy (garg a 0) 12 true ], 0)
  | 8 => Some (6, [ Item F_KKEY 16 [] GFalsy (garg a 0) 16 true; Item F_KIV 17 [] GFalsy (garg a 1) 16 true ], 0)
  | 9 => let up := if bit0 flag then [ Item F_BCTR 15 [] GFalsy (garg a 0) 12 true ] else [] in
         let uk := if bit1 flag then [ Item F_KKEY 16 [] GFalsy (garg a 2) 16 true
                                     ; Item F_KIV 17 [] GFalsy (garg a 3) 16 true ] else [] in
         let dp := if bit0 flag then [] else [ Item F_BCTR 15 [] GFalsy AAbsent 12 true ] in
         let dk := if bit1 flag then [] else [ Item F_KKEY 16 [] GFalsy AAbsent 16 true
                                             ; Item F_KIV 17 [] GFalsy AAbsent 16 true ] in
         Some (6, up ++ uk ++ dp ++ [ Item F_SW 18 [] GNone (garg a 1) 16 true ] ++ dk, 0)
  | 10 => let sel := flag mod 3 in
          let nokey := 3 <=? flag in
          Some (6, (if (sel =? 0) || (sel =? 2) then bee_engine_items 0 nokey else [])
                   ++ (if (sel =? 1) || (sel =? 2) then bee_engine_items 1 nokey else []), 0)
  | 11 => let len := 16 + 8 * (flag mod 4) in
          (* bit 2: SecretKey_ReuseDek; flag >= 8: a key file of an earlier build already exists at the path --
             irrelevant for the code, the key is drawn unless ReuseDek is set *)
          Some (7, [ Item F_DEK 19 [] GNone (if N.odd (flag / 4) then AGiven 1 else AAbsent) len true ], 0)
  | 12 => let d := if bit0 flag then AGiven 1 else AAbsent in
          let n := if bit1 flag then AGiven 2 else AAbsent in
          Some (11, [ Item F_DEK 19 [] GNone d 32 false; Item F_DEK 19 [] GNone d 32 true
                    ; Item F_NONCE 20 [] GNone n 13 true ], 0)
  | 13 => Some (7, [ Item F_NONCE 20 [] GNone AAbsent (13 - flag) true ], 0)
  | 14 => (* IeeNxp.load_from_config: key1/key2 through load_hex_string (random when the config value is empty) *)
          let l1 := if flag =? 0 then 16 else 32 in
          let l2 := if flag =? 1 then 32 else 16 in
          Some (5, [ Item F_KEY1 22 [] GFalsy (garg a 0) l1 true; Item F_KEY2 22 [] GFalsy (garg a 1) l2 true ], 0)
  | 15 => (* OtfadNxp.load_from_config: kek through load_hex_string; blob key and counter are mandatory config values *)
          Some (4, [ Item F_KEK 22 [] GFalsy (garg a 0) 16 true
                   ; Item F_KEY 10 [] GNone (garg a 1) 16 true; Item F_CTR 11 [] GNone (garg a 2) 8 true ], 0)
  | 16 => (* BootImageV21.get_advanced_params(options) *)
          Some (2, sb_items [] a true, 0)
  | _ => None
  end.

(* artifacts built from a configuration object (dict) that the caller can pass again.  Configuration objects are
   immutable inputs: a builder reads its secrets from them and never writes a draw back, so building again from the
   same object is the same plan with the same arguments. *)
Definition config_driven (k flag : N) : bool :=
  (k =? 3) || ((k =? 4) && (flag mod 4 =? 2)) || (k =? 10) || (k =? 11) || (k =? 12) || (k =? 14) || (k =? 15) || (k =? 16).

Definition has_field (sl : list wslot) (j f : N) : bool :=
  existsb (fun e => (fst (fst e) =? j) && (snd (fst e) =? f)) sl.

(* actions on an existing artifact o (id j): export / lazy read *)
Definition plan_act (t : table) (sl : list wslot) (j : N) (o : obj) (a : N) (x : arg) : option (N * list item * N) :=
  match o_kind o, a with
  | 1, 1 => Some (2, [ Item F_HPAD 7 [] GFalsy x 8 true; Item F_FILL 6 [] GFalsy x 8 true ], 0)
  | 4, 1 => Some (10, if has_field sl j F_IV then []
                      else if has_site t 33 then [ Item F_IV 33 [] GNone AAbsent 16 true ]
                      else if has_site t 8 then [ Item F_IV 8 [] GNone AAbsent 16 true ]
                      else [], 0)
  | 5, 1 | 5, 2 =>      (* plain_data(): filler kept; export(kek) wraps only the first 40 bytes: filler drawn and dropped *)
      Some (4, [ Item F_FILL 12 [] GFalsy (garg (o_args o) 2) 4 (a =? 1) ],
            if is_empty (garg (o_args o) 0) || is_empty (garg (o_args o) 1) then 1 else 0)
  | _, _ => None
  end.

Definition opres := (N * list draw * list wslot * list N)%type.   (* status, draws, new slots, imported modules *)

Definition tag (j : N) (sl : list slot) : list wslot := map (fun e => (j, fst e, snd e)) sl.
Definition nlen {A} (l : list A) : N := N.of_nat (length l).

Definition run_plan (t : table) (c : closure) (w : world) (p : N * list item * N) (j : N) (newobj : list obj)
  : world * opres :=
  let '(m, its, status) := p in
  let '(s1, imp1, d1) := ensure_import t c (w_rs w) (w_imp w) m in
  let '(s2, d2, sl) := exec_items t s1 its in
  if status =? 0 then
    (W s2 imp1 (w_objs w ++ newobj) (w_base w) (w_slots w ++ tag j sl), (0, d1 ++ d2, tag j sl, imp1))
  else (W s2 imp1 (w_objs w) (w_base w) (w_slots w), (status, d1 ++ d2, [], imp1)).

Definition step (t : table) (c : closure) (w : world) (o : op) : world * opres :=
  match o with
  | Restart =>
      let '(s1, imp1, d1) := ensure_import t c (RS (r_next (w_rs w)) []) [] 0 in
      (W s1 imp1 (w_objs w) (nlen (w_objs w)) (w_slots w), (0, d1, [], imp1))
  | Import m =>
      let '(s1, imp1, d1) := ensure_import t c (w_rs w) (w_imp w) m in
      (W s1 imp1 (w_objs w) (w_base w) (w_slots w), (0, d1, [], imp1))
  | New k flag a =>
      match plan_new t k flag a with
      | Some p => run_plan t c w p (nlen (w_objs w)) [Obj k flag a]
      | None => (w, (9, [], [], w_imp w))
      end
  | Act j a x =>
      if j <? w_base w then (w, (9, [], [], w_imp w))
      else match nth_error (w_objs w) (N.to_nat j) with
           | Some o =>
               match plan_act t (w_slots w) j o a x with
               | Some p => run_plan t c w p j []
               | None => (w, (9, [], [], w_imp w))
               end
           | None => (w, (9, [], [], w_imp w))
           end
  | Again j =>
      if j <? w_base w then (w, (9, [], [], w_imp w))
      else match nth_error (w_objs w) (N.to_nat j) with
           | Some o =>
               if config_driven (o_kind o) (o_flag o) then
                 match plan_new t (o_kind o) (o_flag o) (o_args o) with
                 | Some p => run_plan t c w p (nlen (w_objs w)) [o]
                 | None => (w, (9, [], [], w_imp w))
                 end
               else (w, (9, [], [], w_imp w))
           | None => (w, (9, [], [], w_imp w))
           end
  end.

Definition init_world : world := W (RS 1 []) [] [] 0 [].

Fixpoint run_from (t : table) (c : closure) (w : world) (h : list op) : world :=
  match h with
  | [] => w
  | o :: r => run_from t c (fst (step t c w o)) r
  end.
Definition run (t : table) (c : closure) (h : list op) : world := run_from t c init_world h.

Fixpoint trace_from (t : table) (c : closure) (w : world) (h : list op) : list opres :=
  match h with
  | [] => []
  | o :: r => let '(w1, res) := step t c w o in res :: trace_from t c w1 r
  end.

(* ---------- what the property talks about ---------- *)
Definition slot_idx (o : origin) : list N := match o with ODraw i => [i] | _ => [] end.
Definition indices (sl : list wslot) : list N := flat_map (fun e => slot_idx (snd e)) sl.
Definition is_draw (o : origin) : bool := match o with ODraw _ => true | _ => false end.

(* ---------- interchange with the harness ---------- *)
Definition arg_of (v : value) : arg :=
  match v with
  | VInt 0%Z => AAbsent
  | VInt 1%Z => AEmpty
  | VInt z => AGiven (Z.to_N (z - 2))
  | _ => AAbsent
  end.
Definition zN (z : Z) : N := Z.to_N z.
Definition op_of (v : value) : option op :=
  match v with
  | VList [VInt 0%Z] => Some Restart
  | VList [VInt 1%Z; VInt m] => Some (Import (zN m))
  | VList [VInt 2%Z; VInt k; VInt flag; VList a] => Some (New (zN k) (zN flag) (map arg_of a))
  | VList [VInt 3%Z; VInt j; VInt a; x] => Some (Act (zN j) (zN a) (arg_of x))
  | VList [VInt 4%Z; VInt j] => Some (Again (zN j))
  | _ => None
  end.
Fixpoint ops_of (l : list value) : option (list op) :=
  match l with
  | [] => Some []
  | v :: r => match op_of v, ops_of r with Some o, Some os => Some (o :: os) | _, _ => None end
  end.

Definition v_origin (o : origin) : value :=
  match o with
  | OEmpty => VList [VInt 0]
  | OUser v => VList [VInt 1; vN v]
  | ODraw i => VList [VInt 2; vN i]
  end.
Definition v_res (r : opres) : value :=
  let '(st, dr, sl, imp) := r in
  VList [ vN st
        ; VList (map (fun d => VList [vN (fst d); vN (snd d)]) dr)
        ; VList (map (fun e => VList [vN (fst (fst e)); vN (snd (fst e)); v_origin (snd e)]) sl)
        ; VList (map vN imp) ].

(* fn 1: step-by-step trace of a history (what tools/props/c17.py compares with the implementation);
   fn 2: summary of the table.  run_case instantiates the table generated from the current source. *)
Definition run_case_with (t : table) (c : closure) (fn : Z) (args : list value) : value :=
  match fn, args with
  | 1%Z, [VList h] =>
      match ops_of h with
      | Some os => VList (map v_res (trace_from t c init_world os))
      | None => VErr E_BADCASE
      end
  | 2%Z, [] => VList [vbool (all_percall t); vN (nlen t)]
  | _, _ => VErr E_BADCASE
  end.

Definition run_case (fn : Z) (args : list value) : value := run_case_with gen_sites gen_closure fn args.

(* sanity *)
Example ex_two_sb21 :
  indices (w_slots (run [] [] [Restart; New 2 0 []; New 2 0 []])) = [1; 2; 3; 4; 5; 6; 7; 8].
Proof. vm_compute. reflexivity. Qed.
Example ex_d17_shape :
  indices (w_slots (run [((2, 511), false, 32)] [] [Restart; New 2 0 []; New 2 0 []])) = [1; 2; 3; 4; 1; 2; 3; 4].
Proof. vm_compute. reflexivity. Qed.
