(* Model/SdpModel.v -- C10, second part: executable model of the SDP host (spsdk/sdp/sdp.py over
   sdp/protocol/serial_protocol.py and sdp/protocol/bulk_protocol.py, sdp/commands.py).  Definitions only.
   Tags, response words, status codes, the command packet layout and the HID report table come from Gen/GenMboot.v.
   The monad, the exception type and the byte/report environments are those of Model/MbootModel.v:
     XConn = SdpConnectionError, XCmd s = SdpCommandError(error_value s), XMboot = SdpError. *)
From Coq Require Import ZArith NArith List Bool.
Require Import Value Bytes GenMboot MbootModel.
Import ListNotations.
Local Open Scope N_scope.

(* sdp.commands.CmdResponse(hab, raw_data); .value = unpack_from(">I", raw_data) *)
Record sresp : Type := mkSresp { sr_hab : bool; sr_raw : list N }.
Definition sr_value (r : sresp) : result N :=
  if nlen (sr_raw r) <? 4 then RExn (XCrash K_STRUCT) else ROk (be_dec (firstn 4 (sr_raw r))).

(* CmdPacket.to_bytes: pack(FORMAT, tag, address, format, count, value, 0) *)
Definition sdp_pkt (tag address fmt count value : N) : result (list N) :=
  let fields := [tag; address; fmt; count; value; 0] in
  if forallb (fun p => snd p <? 2 ^ (8 * N.of_nat (fst p))) (combine SDP_PKT_WIDTHS fields)
  then ROk (flat_map (fun p => be_enc (fst p) (snd p)) (combine SDP_PKT_WIDTHS fields))
  else RExn (XCrash K_STRUCT).

Record sdp_iface (E : Type) : Type := mkSdpIface {
  si_write_command : list N -> M E unit;
  si_write_data : list N -> M E unit;
  si_read : option N -> M E sresp;
  si_expect : bool -> E -> E }.          (* interface.expect_status = b *)
Arguments si_write_command {E}.
Arguments si_write_data {E}.
Arguments si_read {E}.
Arguments si_expect {E}.

(* ------------------------------------------------------------------ SDPSerialProtocol *)
Section SdpSerial.
  Variable D : Type.
  Variable dev_recv : D -> list N -> D * list N.
  Record ssenv : Type := mkSsenv { ss_env : senv D; ss_expect : bool }.
  Definition ss_lift {A} (m : M (senv D) A) : M ssenv A := fun e =>
    let '(r, e') := m (ss_env e) in (r, mkSsenv e' (ss_expect e)).
  (* _send_frame: expect_status = True; device.write(data) *)
  Definition ss_send (data : list N) : M ssenv unit := fun e =>
    ss_lift (swrite D dev_recv data) (mkSsenv (ss_env e) true).
  (* read(length): CmdResponse(expect_status, device.read(length or 4)) *)
  Definition ss_read (len : option N) : M ssenv sresp := fun e =>
    let n := match len with Some l => if l =? 0 then 4 else l | None => 4 end in
    let '(r, e') := ss_lift (sread D n) e in
    match r with ROk raw => (ROk (mkSresp (ss_expect e) raw), e') | RExn x => (RExn x, e') end.
  Definition sdp_serial_iface : sdp_iface ssenv :=
    mkSdpIface ssenv ss_send ss_send ss_read (fun b e => mkSsenv (ss_env e) b).
End SdpSerial.

(* ------------------------------------------------------------------ SDPBulkProtocol *)
Section SdpHid.
  Variable D : Type.
  Variable dev_recv : D -> list N -> D * list (list N).
  (* _create_frames: chunks of report_size bytes, each prefixed by the report id and zero padded to report_size *)
  Fixpoint sh_frames (fuel : nat) (rid size : N) (data : list N) : list (list N) :=
    match fuel with
    | O => []
    | S f => match data with
             | [] => []
             | _ => let ch := firstnN size data in
                    (rid :: ch ++ repeat 0 (N.to_nat (size - nlen ch))) :: sh_frames f rid size (skipnN size data)
             end
    end.
  Fixpoint sh_write_all (frames : list (list N)) : M (henv D) unit :=
    match frames with [] => mret tt | f :: t => hwrite D dev_recv f ;;; sh_write_all t end.
  Definition sh_write (rid size : N) (data : list N) : M (henv D) unit :=
    sh_write_all (sh_frames (length data) rid size data).
  (* read: device.read(1024); CmdResponse(raw[0] == HAB id, raw[1:]) *)
  Definition sh_read (len : option N) : M (henv D) sresp :=
    raw <- hread D ;; mret (mkSresp (nth 0 raw 0 =? SDP_HID_HAB_ID) (skipn 1 raw)).
  Definition sdp_hid_iface : sdp_iface (henv D) :=
    mkSdpIface (henv D) (sh_write SDP_HID_CMD_ID SDP_HID_CMD_SIZE) (sh_write SDP_HID_DATA_ID SDP_HID_DATA_SIZE) sh_read (fun _ e => e).
End SdpHid.

(* ------------------------------------------------------------------ SDP *)
Section Sdp.
  Variable E : Type.
  Variable I : sdp_iface E.
  Variable ce : bool.

  Record sdps : Type := mkSdps { sd_status : N; sd_hab : N; sd_cmd : N; sd_env : E }.
  Definition sd_set_env (s : sdps) (e : E) : sdps := mkSdps (sd_status s) (sd_hab s) (sd_cmd s) e.
  Definition sd_lift {A} (m : M E A) : M sdps A := fun s => let '(r, e') := m (sd_env s) in (r, sd_set_env s e').
  Definition sd_put_status (st : N) : M sdps unit := fun s => (ROk tt, mkSdps st (sd_hab s) (sd_cmd s) (sd_env s)).
  Definition sd_put_hab (h : N) : M sdps unit := fun s => (ROk tt, mkSdps (sd_status s) h (sd_cmd s) (sd_env s)).
  Definition sd_put_cmd (c : N) : M sdps unit := fun s => (ROk tt, mkSdps (sd_status s) (sd_hab s) c (sd_env s)).
  (* try: ... except Exception: raise SdpConnectionError *)
  Definition guarded {A} (m : M sdps A) : M sdps A := fun s =>
    match m s with (ROk a, s') => (ROk a, s') | (RExn XHang, s') => (RExn XHang, s') | (RExn _, s') => (RExn XConn, s') end.
  (* read a response and decode its word (str(response) inside the guarded block) *)
  Definition read_word (len : option N) : M sdps (sresp * N) :=
    r <- sd_lift (si_read I len) ;; v <- mlift (sr_value r) ;; mret (r, v).

  Definition sdp_process_cmd (tag address fmt count value : N) : M sdps unit :=
    sd_put_status SDPSC_SUCCESS ;;;
    rv <- guarded (b <- mlift (sdp_pkt tag address fmt count value) ;; sd_lift (si_write_command I b) ;;; read_word None) ;;
    if sr_hab (fst rv) then
      (sd_put_hab (snd rv) ;;; if negb (snd rv =? SDPRV_UNLOCKED) then sd_put_status SDPSC_HAB_IS_LOCKED else mret tt)
    else mret tt.

  Definition sdp_read_status : M sdps N := rv <- guarded (read_word None) ;; mret (snd rv).

  (* _read_data: 64-byte reads until `length` bytes arrived; HAB words in between update hab_status *)
  Fixpoint sdp_read_loop (fuel : nat) (length : N) (data : list N) : M sdps (list N) :=
    match fuel with
    | O => mraise XHang
    | S f =>
        if length <=? nlen data then mret (firstnN length data) else
        r <- guarded (fun s => sd_lift (si_read I (Some (N.min (length - nlen data) 64))) (sd_set_env s (si_expect I false (sd_env s)))) ;;
        if negb (sr_hab r) then sdp_read_loop f length (data ++ sr_raw r)
        else (v <- mlift (sr_value r) ;; sd_put_hab v ;;;
              (if v =? SDPRV_LOCKED then sd_put_status SDPSC_HAB_IS_LOCKED else mret tt) ;;;
              sdp_read_loop f length data)
    end.

  Definition sdp_send_data (tag address : N) (data : list N) : M sdps bool :=
    sd_put_status SDPSC_SUCCESS ;;;
    ok <- guarded (
      b <- mlift (sdp_pkt tag address 0 (nlen data) 0) ;;
      sd_lift (si_write_command I b) ;;;
      sd_lift (si_write_data I data) ;;;
      hv <- read_word None ;;
      sd_put_hab (if snd hv =? SDPRV_UNLOCKED then snd hv else SDPSC_HAB_IS_LOCKED) ;;;
      cv <- read_word None ;;
      sd_put_cmd (snd cv) ;;;
      if (tag =? SDPCT_WRITE_DCD) && negb (snd cv =? SDPRV_WRITE_DATA_OK) then (sd_put_status SDPSC_WRITE_DCD_FAILURE ;;; mret false)
      else if (tag =? SDPCT_WRITE_CSF) && negb (snd cv =? SDPRV_WRITE_DATA_OK) then (sd_put_status SDPSC_WRITE_CSF_FAILURE ;;; mret false)
      else if (tag =? SDPCT_WRITE_FILE) && negb (snd cv =? SDPRV_WRITE_FILE_OK) then (sd_put_status SDPSC_WRITE_IMAGE_FAILURE ;;; mret false)
      else mret true) ;;
    if negb ok && ce then (fun s => (RExn (XCmd (sd_status s)), s)) else mret ok.

  Definition checked_status (okword fail_status : N) : M sdps apival :=
    st <- sdp_read_status ;;
    if negb (st =? okword) then
      (sd_put_status fail_status ;;; if ce then mraise (XCmd fail_status) else mret (AVBool false))
    else mret (AVBool true).

  (* op numbers are those of sdp_call in tools/impl/c10_impl.py *)
  Definition sdp_api (fuel : nat) (c : call) : M sdps apival :=
    let '(Call op a d) := c in
    let a0 := nth 0 a 0 in let a1 := nth 1 a 0 in let a2 := nth 2 a 0 in let a3 := nth 3 a 0 in
    let fmt (x : N) := if x =? 0 then 32 else x in          (* data_format defaults to 32 *)
    match op with
    | 1 => sdp_process_cmd SDPCT_READ_REGISTER a0 (fmt a2) a1 0 ;;; v <- sdp_read_loop fuel a1 [] ;; mret (AVBytes v)
    | 2 => sdp_process_cmd SDPCT_WRITE_REGISTER a0 (fmt a3) a2 a1 ;;; checked_status SDPRV_WRITE_DATA_OK SDPSC_WRITE_REGISTER_FAILURE
    | 3 => b <- sdp_send_data SDPCT_WRITE_FILE a0 d ;; mret (AVBool b)
    | 4 => b <- sdp_send_data SDPCT_WRITE_DCD a0 d ;; mret (AVBool b)
    | 5 => b <- sdp_send_data SDPCT_WRITE_CSF a0 d ;; mret (AVBool b)
    | 6 => sdp_process_cmd SDPCT_SKIP_DCD_HEADER 0 0 0 0 ;;; checked_status SDPRV_SKIP_DCD_HEADER_OK SDPSC_SKIP_DCD_HEADER_FAILURE
    | 7 => sdp_process_cmd SDPCT_JUMP_ADDRESS a0 0 0 0 ;;; mret (AVBool true)
    | 8 => sdp_process_cmd SDPCT_ERROR_STATUS 0 0 0 0 ;;; st <- sdp_read_status ;; mret (AVInt st)
    | _ => mraise (XCrash 98)
    end.

  Fixpoint sdp_session (fuel : nat) (calls : list call) (s : sdps) : list (result apival * (N * N * N)) * sdps :=
    match calls with
    | [] => ([], s)
    | c :: t => let '(r, s1) := sdp_api fuel c s in
                let '(rs, s2) := sdp_session fuel t s1 in ((r, (sd_status s1, sd_hab s1, sd_cmd s1)) :: rs, s2)
    end.
End Sdp.

(* ------------------------------------------------------------------ run_case *)
Definition vsdp_outcome (o : result apival * (N * N * N)) : value :=
  let '(r, (st, hab, cmd)) := o in
  match r with
  | ROk v => VList [VInt 0; vapival v; vN st; vN hab; vN cmd]
  | RExn x => VList (vexn x ++ [vN st; vN hab; vN cmd])
  end.

Definition sdp_run_case (fn : Z) (args : list value) : value :=
  match fn, args with
  | 20%Z, [ce; VBytes stream; VList calls] =>
      let '(rs, s) := sdp_session _ (sdp_serial_iface unit null_recv) (zb ce) (S (S (length stream))) (map as_call calls)
                                  (mkSdps _ SDPSC_SUCCESS 0 0 (mkSsenv unit (mkSenv unit tt stream [] []) true)) in
      let e := ss_env unit (sd_env _ s) in
      VList [VList (map vsdp_outcome rs); VList (map VBytes (rev (se_out unit e))); vnat (length (se_in unit e))]
  | 21%Z, [ce; VList reports; VList calls] =>
      let '(rs, s) := sdp_session _ (sdp_hid_iface unit null_hrecv) (zb ce) (S (S (length reports))) (map as_call calls)
                                  (mkSdps _ SDPSC_SUCCESS 0 0 (mkHenv unit tt (map as_bytes reports) [] [])) in
      let e := sd_env _ s in
      VList [VList (map vsdp_outcome rs); VList (map VBytes (rev (he_out unit e))); vnat (length (he_in unit e))]
  | _, _ => VErr E_BADCASE
  end.
