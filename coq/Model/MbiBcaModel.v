(* Model/MbiBcaModel.v -- C01 extension: the BCA / FCF based Master Boot Images (mc56f81xxx, mwct20xx, mcxc families).
   Built on the frozen definitions of MbiModel.v (class = image type + mixin list, stage dispatch = Python MRO through
   `provider`, device data from Gen/GenMbi.v).  Faithful to the CURRENT code (findings C01-F13..F16 repaired).  Definitions only.

   What is new with respect to MbiModel.v:
   - an image is a BinaryImage with sub-images at FIXED offsets (spsdk/utils/images.py): export() draws every sub-image
     at its offset into a zero buffer of length max(offset + length); replacing the bytes of a sub-image by a shorter
     string leaves zeros, by a longer string overwrites what follows;
   - Mbi_MixinBcaObsolete.update_bca, Mbi_MixinFcfObsolete.update_fcf (Python slice assignment: may grow the data),
     Mbi_ExportMixinAppFcf / AppBcaFcf.collect_data (eleven slices of the application), Mbi_ExportMixinApp.collect_data
     with BCA / FCF objects (mcxc), Mbi_ExportMixinCrcSignBca.sign, Mbi_ExportMixinEccSignVx.sign, the mix_parse of the
     six mixins and disassemble_image.
   Opaque (parameters): signature, SHA-256 (C09), the certificate (ISK public key validity: C03/C08), the register level
   canonical form of a BCA / FCF area (spsdk.utils.registers: C11/C12). *)
From Coq Require Import ZArith NArith List Bool.
Require Import Value Bytes MbiMixinModel GenMbi MbiModel.
Import ListNotations.
Local Open Scope Z_scope.

(* ------------------------------------------------------------------ settings of a BCA/FCF based image *)
Record bx : Type := {
  b_app : list N;
  b_lifecycle : Z;                         (* Mbi_MixinFcfObsolete.lifecycle: tag of DSASSLifeCycle, 0xFF = NOT_SET *)
  b_fwver : Z;                             (* Mbi_MixinBcaObsolete.firmware_version *)
  b_cert : option (list N * list N);       (* CertBlockVx: export() (ISK certificate, 136 bytes), cert_hash (16 bytes) *)
  b_addhash : bool;
  b_justhdr : bool;
  b_bca : option (list N);                 (* Mbi_MixinBca.bca: BCA.export() *)
  b_fcf : option (list N)                  (* Mbi_MixinFcf.fcf: FCF.export() *)
}.
Definition bx_default : bx :=
  {| b_app := []; b_lifecycle := 255; b_fwver := 0; b_cert := None; b_addhash := true; b_justhdr := false;
     b_bca := None; b_fcf := None |}.
Record bcrypto : Type := { q_sign : list N -> list N; q_hash : list N -> list N }.
(* what parse gets from the layers below *)
Record bparse : Type := {
  p_pub_ok : list N -> bool;               (* convert_to_ecc_key accepts the 64 key bytes *)
  p_bca : list N -> option (list N);       (* BCA.parse(data).export(); None: SPSDKError (wrong tag, too short) *)
  p_fcf : list N -> list N;                (* FCF.parse(data).export() for >= 16 bytes *)
  p_cert_hash : list N -> list N           (* CertBlockVx.cert_hash of the parsed certificate: SHA-256(export)[:16] *)
}.

(* ------------------------------------------------------------------ BinaryImage with sub-images at fixed offsets *)
Definition oimage : Type := list (nat * list N).
Definition olen (im : oimage) : nat := fold_left (fun a p => Nat.max a (fst p + length (snd p))) im 0%nat.
Definition oappend (im : oimage) (d : list N) : oimage := im ++ [(olen im, d)].
Definition oexport (im : oimage) : list N :=
  fold_left (fun buf p => splice buf (fst p) (snd p)) im (zeros (olen im)).
Fixpoint oreplace (im : oimage) (i : nat) (d : list N) : oimage :=
  match im, i with
  | [], _ => []
  | (o, _) :: t, O => (o, d) :: t
  | p :: t, S j => p :: oreplace t j d
  end.
Definition obinary (im : oimage) (i : nat) : list N := match nth_error im i with Some p => snd p | None => [] end.

(* offsets of Mbi_MixinBcaTable (generated from the class: Gen/GenMbi.v) *)
Definition O_DIGEST : nat := natz G_BCA_IMG_DIGEST_OFFSET.               (* 0x360 *)
Definition O_SIG : nat := natz G_BCA_IMG_SIGNATURE_OFFSET.               (* 0x380 *)
Definition O_BCA : nat := natz G_BCA_IMG_BCA_OFFSET.                     (* 0x3C0 *)
Definition O_BCA_LEN : nat := natz G_BCA_IMG_BCA_IMAGE_LENGTH_OFFSET.    (* 0x3E0 *)
Definition O_BCA_FW : nat := natz G_BCA_IMG_BCA_FW_VERSION_OFFSET.       (* 0x3E4 *)
Definition O_FCF : nat := natz G_BCA_IMG_FCF_OFFSET.                     (* 0x400 *)
Definition O_LC : nat := natz G_BCA_IMG_FCF_LIFECYCLE_OFFSET.            (* 0x40C *)
Definition O_ISK : nat := natz G_BCA_IMG_ISK_OFFSET.                     (* 0x410 *)
Definition O_ISKH : nat := natz G_BCA_IMG_ISK_HASH_OFFSET.               (* 0x4A0 *)
Definition O_WPCH : nat := natz G_BCA_IMG_WPC_ROOT_CA_CERT_HASH_OFFSET.  (* 0x5E0 *)
Definition O_WPCM : nat := natz G_BCA_IMG_WPC_MFG_CA_CERT_OFFSET.        (* 0x600 *)
Definition O_DUK : nat := natz G_BCA_IMG_DUK_BLOCK_OFFSET.               (* 0x800 *)
Definition O_DATA : nat := natz G_BCA_IMG_DATA_START.                    (* 0xC00 *)
Definition O_HDR_END : nat := natz G_BCA_IMG_SIGNED_HEADER_END.          (* 0x400 *)
Definition X_BCA : nat := natz G_BCA_OFFSET.                             (* Mbi_MixinBca.BCA_OFFSET 0x3C0 *)
Definition X_FCF : nat := natz G_FCF_OFFSET.                             (* Mbi_MixinFcf.FCF_OFFSET 0x400 *)
Definition BCA_SIZE : nat := 64.
Definition FCF_SIZE : nat := 16.
Definition lifecycle_tags : list Z := [255; 254; 144; 149; 155; 107].

(* indices of the sub-images appended by Mbi_ExportMixinAppFcf / AppBcaFcf.collect_data *)
Definition I_HASH : nat := 1.   Definition I_SIG : nat := 2.   Definition I_BCA : nat := 3.
Definition I_ISK : nat := 5.    Definition I_ISKH : nat := 6.

Definition slices (b : list N) (just_header : bool) : oimage :=
  let hdr := [sub b 0 O_DIGEST; sub b O_DIGEST O_SIG; sub b O_SIG O_BCA; sub b O_BCA O_FCF; sub b O_FCF O_ISK;
              sub b O_ISK O_ISKH; sub b O_ISKH O_WPCH; sub b O_WPCH O_WPCM; sub b O_WPCM O_DUK] in
  fold_left oappend (if just_header then hdr else hdr ++ [sub b O_DUK O_DATA; skipn O_DATA b]) [].

(* ------------------------------------------------------------------ lengths *)
Definition mix_len_b (x : bx) (m : mixin) : Z :=
  match m with
  | MixinApp => zlen (b_app x)
  | MixinBcaObsolete => G_BCA_IMG_DIGEST_OFFSET + (G_BCA_IMG_FCF_OFFSET - G_BCA_IMG_BCA_OFFSET) - G_BCA_IMG_DATA_START
  | MixinBca => match b_bca x with Some _ => Z.of_nat BCA_SIZE | None => 0 end
  | MixinFcf => match b_fcf x with Some _ => Z.of_nat FCF_SIZE | None => 0 end
  | _ => 0
  end.
Definition total_len_b (c : mbi_class) (x : bx) : Z := fold_right Z.add 0 (map (mix_len_b x) (c_mixins c)).
Definition app_len_b (c : mbi_class) (x : bx) : Z := if has c MixinApp then zlen (b_app x) else 0.

(* ------------------------------------------------------------------ export *)
Definition validate_b (c : mbi_class) (x : bx) : res unit :=
  bind (if has c MixinApp then mix_validate c (set_app mbi_default (b_app x)) MixinApp else Ok tt) (fun _ =>
  bind (if has c MixinCertBlockVx then match b_cert x with Some _ => Ok tt | None => Err E_REJECT end else Ok tt) (fun _ =>
  if has c MixinFcf then match b_fcf x with Some _ => Ok tt | None => Err E_REJECT end else Ok tt)).

Definition update_bca (x : bx) (data : list N) (total : Z) : res (list N) :=
  bind (u32 total) (fun wl => bind (u32 (b_fwver x)) (fun wf => Ok (splice (splice data O_BCA_LEN wl) O_BCA_FW wf))).
(* a life cycle cannot be set when the application ends before the life-cycle byte (repaired: was appended at the end) *)
Definition update_fcf (x : bx) (data : list N) : res (list N) :=
  if b_lifecycle x =? 255 then Ok data
  else if Nat.leb (length data) O_LC then Err E_REJECT
  else Ok (splice data O_LC [Z.to_N (b_lifecycle x)]).

Definition collect_b (c : mbi_class) (x : bx) : res oimage :=
  match provider c SCollect with
  | Some ExportMixinAppFcf =>
      match b_app x with [] => Err E_REJECT | _ => bind (update_fcf x (b_app x)) (fun b => Ok (slices b false)) end
  | Some ExportMixinAppBcaFcf =>
      match b_app x with
      | [] => Err E_REJECT
      | _ => if Nat.ltb (length (b_app x)) O_DATA then Err E_REJECT   (* repaired: the whole header area is required *)
             else bind (update_bca x (b_app x) (total_len_b c x)) (fun b =>
                  bind (update_fcf x b) (fun b' => Ok (slices b' (has c MixinCertBlockVx && b_justhdr x))))
      end
  | Some ExportMixinApp =>
      match b_app x with
      | [] => Err E_REJECT
      | _ =>
        let bca := if has_attr c ABca then b_bca x else None in
        let fcf := if has_attr c AFcf then b_fcf x else None in
        match bca, fcf with
        | None, None => Ok (oappend [] (b_app x))
        | _, _ =>
            let off := match bca with Some _ => X_BCA | None => X_FCF end in
            let im1 := oappend [] (firstn off (b_app x)) in
            let '(im2, off2) := match bca with Some b => (oappend im1 b, (off + BCA_SIZE)%nat) | None => (im1, off) end in
            let '(im3, off3) := match fcf with Some f => (oappend im2 f, (off2 + FCF_SIZE)%nat) | None => (im2, off2) end in
            Ok (oappend im3 (skipn off3 (b_app x)))
        end
      end
  | _ => Err E_UNSUPPORTED
  end.

Definition signed_ranges (d : list N) : list N := firstn O_DIGEST d ++ sub d O_BCA O_HDR_END ++ skipn O_DATA d.

Definition sign_b (k : bcrypto) (c : mbi_class) (x : bx) (im : oimage) : res oimage :=
  match provider c SSign with
  | None => Ok im
  | Some ExportMixinCrcSignBca =>
      let input := oexport im in
      match obinary im I_BCA with
      | [] => Err E_REJECT                                   (* "Boot Config Area is missing" *)
      | bca =>
          if Nat.ltb (length bca) 16 then Err E_REJECT else     (* repaired: "Boot Config Area is incomplete" *)
          let body := skipn O_DATA input in
          bind (u32 (Z.of_N (mbi_crc32_mpeg body))) (fun wc =>
          bind (u32 G_BCA_IMG_DATA_START) (fun ws =>
          bind (u32 (zlen body)) (fun wn =>
          Ok (oreplace im I_BCA (splice (splice (splice bca 12 wc) 4 ws) 8 wn)))))
      end
  | Some ExportMixinEccSignVx =>
      match b_cert x with
      | None => Err E_REJECT
      | Some (cb, ch) =>
          let tbs := signed_ranges (oexport im) in
          let im1 := oreplace im I_HASH (q_hash k tbs) in
          let im2 := oreplace im1 I_SIG (q_sign k tbs) in
          let im3 := oreplace im2 I_ISK cb in
          Ok (if b_addhash x then oreplace im3 I_ISKH ch else im3)
      end
  | Some _ => Err E_UNSUPPORTED
  end.

Definition no_other_stage (c : mbi_class) : bool :=
  match provider c SEncrypt, provider c SPostEncrypt, provider c SFinalize with None, None, None => true | _, _, _ => false end.

Definition export_b (k : bcrypto) (c : mbi_class) (x : bx) : res (list N) :=
  if negb (no_other_stage c) then Err E_UNSUPPORTED else
  bind (validate_b c x) (fun _ => bind (collect_b c x) (fun im => bind (sign_b k c x im) (fun im' => Ok (oexport im')))).

(* ------------------------------------------------------------------ parse *)
Definition set_b_app (x : bx) (a : list N) : bx :=
  {| b_app := a; b_lifecycle := b_lifecycle x; b_fwver := b_fwver x; b_cert := b_cert x; b_addhash := b_addhash x;
     b_justhdr := b_justhdr x; b_bca := b_bca x; b_fcf := b_fcf x |}.
Definition set_b_lifecycle (x : bx) (v : Z) : bx :=
  {| b_app := b_app x; b_lifecycle := v; b_fwver := b_fwver x; b_cert := b_cert x; b_addhash := b_addhash x;
     b_justhdr := b_justhdr x; b_bca := b_bca x; b_fcf := b_fcf x |}.
Definition set_b_fwver (x : bx) (v : Z) : bx :=
  {| b_app := b_app x; b_lifecycle := b_lifecycle x; b_fwver := v; b_cert := b_cert x; b_addhash := b_addhash x;
     b_justhdr := b_justhdr x; b_bca := b_bca x; b_fcf := b_fcf x |}.
Definition set_b_cert (x : bx) (v : option (list N * list N)) : bx :=
  {| b_app := b_app x; b_lifecycle := b_lifecycle x; b_fwver := b_fwver x; b_cert := v; b_addhash := b_addhash x;
     b_justhdr := b_justhdr x; b_bca := b_bca x; b_fcf := b_fcf x |}.
Definition set_b_flags (x : bx) (ah jh : bool) : bx :=
  {| b_app := b_app x; b_lifecycle := b_lifecycle x; b_fwver := b_fwver x; b_cert := b_cert x; b_addhash := ah;
     b_justhdr := jh; b_bca := b_bca x; b_fcf := b_fcf x |}.
Definition set_b_bca (x : bx) (v : option (list N)) : bx :=
  {| b_app := b_app x; b_lifecycle := b_lifecycle x; b_fwver := b_fwver x; b_cert := b_cert x; b_addhash := b_addhash x;
     b_justhdr := b_justhdr x; b_bca := v; b_fcf := b_fcf x |}.
Definition set_b_fcf (x : bx) (v : option (list N)) : bx :=
  {| b_app := b_app x; b_lifecycle := b_lifecycle x; b_fwver := b_fwver x; b_cert := b_cert x; b_addhash := b_addhash x;
     b_justhdr := b_justhdr x; b_bca := b_bca x; b_fcf := v |}.

Definition lifecycle_of (data : list N) : Z :=
  match nth_error data O_LC with
  | Some b => if existsb (Z.eqb (Z.of_N b)) lifecycle_tags then Z.of_N b else 255
  | None => 255                                              (* value_to_int(b"") = 0 names no state *)
  end.
(* IskCertificateLite.parse + export: header re-packed from the class constants and bool(constraints) *)
Definition isk_header (constraints : Z) : list N :=
  [67%N; 77%N; 1%N; 0%N; (if Z.eqb constraints 0 then 0%N else 1%N); 0%N; 0%N; 0%N].

Definition mix_parse_b (q : bparse) (data : list N) (m : mixin) (st : bx) : res bx :=
  match m with
  | MixinBcaObsolete =>
      if Nat.ltb (length data) (O_BCA_FW + 4) then Err E_CRASH   (* struct.unpack on a short slice *)
      else Ok (set_b_fwver st (rd32 O_BCA_FW data))
  | MixinFcfObsolete => Ok (set_b_lifecycle st (lifecycle_of data))
  | MixinCertBlockVx =>
      let d := skipn O_ISK data in
      if Nat.ltb (length d) 8 then Err E_CRASH                  (* struct.unpack_from *)
      else let pub := sub d 8 72 in
           if p_pub_ok q pub
           then let cb := isk_header (rd32 4 d) ++ pub ++ sub d 72 136 in
                (* repaired: add_hash / just_header are restored from the image *)
                Ok (set_b_flags (set_b_cert st (Some (cb, [])))
                                (list_eqb N.eqb (sub data O_ISKH (O_ISKH + natz G_BCA_IMG_ISK_HASH_SIZE)) (p_cert_hash q cb))
                                (Nat.leb (length data) O_DUK))
           else Err E_REJECT
  | MixinBca => Ok (set_b_bca st (p_bca q (skipn X_BCA data)))
  | MixinFcf =>
      let d := skipn X_FCF data in
      if Nat.ltb (length d) FCF_SIZE then Err E_REJECT else Ok (set_b_fcf st (Some (p_fcf q d)))
  | _ => Ok st
  end.
Fixpoint parse_mixins_b (q : bparse) (data : list N) (l : list mixin) (st : bx) : res bx :=
  match l with
  | [] => Ok st
  | m :: t => bind (mix_parse_b q data m st) (fun st' => parse_mixins_b q data t st')
  end.
(* none of the six mixins has PRE_PARSED members: one round, in class order; sign(revert) is the identity *)
Definition parse_b (q : bparse) (c : mbi_class) (data : list N) : res bx :=
  if negb (no_other_stage c) then Err E_UNSUPPORTED else
  bind (parse_mixins_b q data (c_mixins c) bx_default) (fun st =>
  match provider c SDisassemble with
  | Some ExportMixinAppFcf | Some ExportMixinAppBcaFcf => Ok (set_b_app st (pad4 data))
  | Some ExportMixinApp =>
      match provider c SDisassemblyAppData, provider c SCleanIvt with
      | None, None => Ok (set_b_app st (pad4 data))
      | _, _ => Err E_UNSUPPORTED
      end
  | _ => Err E_UNSUPPORTED
  end).

(* the classes of this file *)
Definition bca_kind (c : mbi_class) : bool :=
  match provider c SCollect, provider c SDisassemble with
  | Some ExportMixinAppFcf, Some ExportMixinAppFcf => true
  | Some ExportMixinAppBcaFcf, Some ExportMixinAppBcaFcf => true
  | Some ExportMixinApp, Some ExportMixinApp => has c MixinBca || has c MixinFcf
  | _, _ => false
  end.

(* ------------------------------------------------------------------ value level entry for the correspondence cases *)
Definition dec_bx (v : value) : option bx :=
  match v with
  | VList [VBytes app; VInt lc; VInt fw; cbv; VInt ah; VInt jh; bcav; fcfv] =>
      match dec_opt_bytes bcav, dec_opt_bytes fcfv with
      | Some bca, Some fcf =>
          match cbv with
          | VList [] => Some {| b_app := app; b_lifecycle := lc; b_fwver := fw; b_cert := None; b_addhash := dec_bool ah;
                                b_justhdr := dec_bool jh; b_bca := bca; b_fcf := fcf |}
          | VList [VBytes cb; VBytes ch] =>
              Some {| b_app := app; b_lifecycle := lc; b_fwver := fw; b_cert := Some (cb, ch); b_addhash := dec_bool ah;
                      b_justhdr := dec_bool jh; b_bca := bca; b_fcf := fcf |}
          | _ => None
          end
      | _, _ => None
      end
  | _ => None
  end.
Definition enc_bx (x : bx) : value :=
  VList [VBytes (b_app x); VInt (b_lifecycle x); VInt (b_fwver x);
         match b_cert x with Some (cb, ch) => VList [VBytes cb; VBytes ch] | None => VList [] end;
         vbool (b_addhash x); vbool (b_justhdr x); enc_opt_bytes (b_bca x); enc_opt_bytes (b_fcf x)].
Definition dec_bcrypto (v : value) : option bcrypto :=
  match v with
  | VList [VBytes sg; VBytes dg] => Some {| q_sign := fun _ => sg; q_hash := fun _ => dg |}
  | _ => None
  end.
Definition dec_bparse (v : value) : option bparse :=
  match v with
  | VList [VInt ok; bcav; VBytes fcf; VBytes ch] =>
      match dec_opt_bytes bcav with
      | Some bca => Some {| p_pub_ok := fun _ => dec_bool ok; p_bca := fun _ => bca; p_fcf := fun _ => fcf;
                            p_cert_hash := fun _ => ch |}
      | None => None
      end
  | _ => None
  end.

(* export, (total_len, app_len), class selection on the exported bytes, parse with the class the implementation took *)
Definition run_bca (fam : Z) (cv xv kv pcv pv : value) : value :=
  match dec_class cv, dec_bx xv, dec_bcrypto kv with
  | Some c, Some x, Some k =>
      let lens := VList [VInt (total_len_b c x); VInt (app_len_b c x)] in
      match export_b k c x with
      | Ok img =>
          VList [VBytes img; lens; run_case 3 [VInt fam; VBytes (firstn 64 img)];
                 match pcv with
                 | VList [] => VList []
                 | _ => match dec_class pcv, dec_bparse pv with
                        | Some pc, Some q => vres enc_bx (parse_b q pc img)
                        | _, _ => VErr E_BADCASE
                        end
                 end]
      | Err e => VList [VErr e; lens]
      end
  | _, _, _ => VErr E_BADCASE
  end.
