(* C10 extension: the USB-HID report framing of spsdk/sdp/protocol/bulk_protocol.py (SDPBulkProtocol._create_frames /
   _create_frame) as SDPS.write_file uses it after configure({"pack_size": n}): the data stream is cut into reports of
   the negotiated size, each prefixed by the report id, the last one padded with zeros.  Hand model, tied to the
   implementation by the correspondence stream "sdps" of tools/props/c10_sdps.py. *)
From Coq Require Import ZArith NArith List Bool.
Require Import Value.
Import ListNotations.

(* while data_index < len(data): frame = [report_id] + data[off:off+size] + zeros(size - taken); off += taken
   fuel = len(data) iterations suffice when size > 0 (size = 0 never terminates in Python: excluded by the theorems) *)
Fixpoint sdps_frames (fuel : nat) (rid : N) (size : nat) (data : list N) : list (list N) :=
  match data with
  | [] => []
  | _ :: _ =>
      match fuel with
      | O => []
      | S f => (rid :: firstn size data ++ repeat 0%N (size - length (firstn size data)))
                 :: sdps_frames f rid size (skipn size data)
      end
  end.

Definition sdps_write_data (rid : N) (size : nat) (data : list N) : list (list N) :=
  sdps_frames (length data) rid size data.

Definition run_case_sdps (size : Z) (data : list N) : value :=
  if (size <=? 0)%Z then VErr 3 else VList (map VBytes (sdps_write_data 2%N (Z.to_nat size) data)).

Example sdps_ex1 : sdps_write_data 2 3 [1; 2; 3; 4]%N = [[2; 1; 2; 3]; [2; 4; 0; 0]]%N.
Proof. vm_compute. reflexivity. Qed.
