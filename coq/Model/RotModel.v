(* Model/RotModel.v -- C03: root-of-trust hashes and certificate blocks.  Definitions only.

   One function per TOOL PATH, written the way the code computes it (defects included):
     RKHT._calc_key_hash / RKHT.from_keys / RKHTv1 / RKHTv21            spsdk/utils/crypto/rkht.py
     Rot classes (cert_block_1/21, srk_table_ahab(_v2), srk_table_hab)   spsdk/utils/crypto/rot.py
     CertBlockV1, CertBlockV21, RootKeyRecord, IskCertificate             spsdk/utils/crypto/cert_blocks.py
     BaseConfigArea._calc_rotkh                                           spsdk/pfr/pfr.py
     RotMetaRSA / RotMetaEcc / RotMetaEdgeLockEnclave + DC calculate_hash spsdk/dat/debug_credential.py
     AHAB SRKRecord/SRKRecordV2/SRKData/SRKTable(V2)                      spsdk/image/ahab/ahab_srk.py
     HAB SrkItemRSA/SrkItemEcc/SrkTable                                   spsdk/image/secret.py
     extract_public_key_from_data / PublicKey.parse of NXP raw keys       spsdk/crypto/utils.py, keys.py
   plus the documented constructions (`*_spec`) the property compares them with.
   Constants, record layouts and database facts come from Gen/GenRot.v (regenerated from source on every run).

   Black boxes (cryptography/OpenSSL): PEM/DER/X.509 decoding yields the public numbers of the key it was made from;
   certificates are opaque byte strings; signing is a function parameter.  Both are tied by the correspondence run. *)
From Coq Require Import ZArith NArith List Bool.
Require Import Value Bytes Sha2 GenRot.
Import ListNotations.
Local Open Scope N_scope.

(* ------------------------------------------------------------------ keys and hashes *)
Inductive key : Type :=
| KRsa (n e : N)
| KEcc (c x y : N).        (* c = curve size in bits: 256 / 384 / 521 *)

Inductive halg : Type := A256 | A384 | A512.
Definition hash (a : halg) (m : list N) : list N :=
  match a with A256 => sha256 m | A384 => sha384 m | A512 => sha512 m end.
Definition hlen (a : halg) : nat := match a with A256 => 32 | A384 => 48 | A512 => 64 end%nat.
Definition halg_eqb (a b : halg) : bool :=
  match a, b with A256, A256 => true | A384, A384 => true | A512, A512 => true | _, _ => false end.

Fixpoint map_res {A B} (f : A -> res B) (l : list A) : res (list B) :=
  match l with
  | [] => Ok []
  | a :: t => match f a with
              | Err k => Err k
              | Ok b => match map_res f t with Err k => Err k | Ok bs => Ok (b :: bs) end
              end
  end.

Fixpoint lookup (tbl : list (N * N)) (k : N) : option N :=
  match tbl with [] => None | (a, b) :: t => if a =? k then Some b else lookup t k end.
Fixpoint lookup2 (tbl : list (N * (N * N))) (k : N) : option (N * N) :=
  match tbl with [] => None | (a, b) :: t => if a =? k then Some b else lookup2 t k end.

(* big-endian encoder on bit operations (linear in the size of v; Lib/Bytes.be_enc divides, which is quadratic on
   4096-bit moduli).  Proofs/RotProofs.v: be_encf = be_enc. *)
Fixpoint le_encf (w : nat) (n : N) : list N :=
  match w with O => [] | S w' => N.land n 255 :: le_encf w' (N.shiftr n 8) end.
Definition be_encf (w : nat) (n : N) : list N := rev (le_encf w n).

(* math.ceil(v.bit_length() / 8) *)
Definition byte_len (v : N) : nat := N.to_nat ((N.size v + 7) / 8).
(* v.to_bytes(byte_len v, "big"): minimal big-endian encoding (empty for 0) *)
Definition be_min (v : N) : list N := be_encf (byte_len v) v.
(* v.to_bytes(len, "big"): OverflowError when v does not fit *)
Definition to_bytes (len : nat) (v : N) : res (list N) :=
  if N.size v <=? 8 * N.of_nat len then Ok (be_encf len v) else Err 2.
Definition coord_size (c : N) : nat := N.to_nat ((c + 7) / 8).
Definition key_bits (k : key) : N := match k with KRsa n _ => N.size n | KEcc c _ _ => c end.

(* PublicKeyRsa.export(NXP) = modulus || exponent, both minimal; PublicKeyEcc.export(NXP) = X || Y fixed width *)
Definition raw_key (k : key) : res (list N) :=
  match k with
  | KRsa n e => Ok (be_min n ++ be_min e)
  | KEcc c x y => bind (to_bytes (coord_size c) x) (fun xb =>
                  bind (to_bytes (coord_size c) y) (fun yb => Ok (xb ++ yb)))
  end.

(* RKHT._get_hash_algorithm: RSA -> SHA-256; ECC -> from_label("sha<key_size>") (no "sha521") *)
Definition key_halg (k : key) : res halg :=
  match k with
  | KRsa _ _ => Ok A256
  | KEcc c _ _ => if c =? 256 then Ok A256 else if c =? 384 then Ok A384 else Err 1
  end.

(* RKHT._calc_key_hash *)
Definition calc_key_hash (k : key) : res (list N) :=
  match k with
  | KRsa n e => Ok (sha256 (be_min n ++ be_min e))
  | KEcc c x y => bind (to_bytes (coord_size c) y) (fun yb =>
                  bind (to_bytes (coord_size c) x) (fun xb =>
                  bind (key_halg k) (fun a => Ok (hash a (xb ++ yb)))))
  end.

(* PublicKey.key_hash() / Certificate.public_key_hash(): SHA-256 of the NXP export, whatever the key *)
Definition key_hash256 (k : key) : res (list N) := bind (raw_key k) (fun d => Ok (sha256 d)).

(* ------------------------------------------------------------------ how a key reaches SPSDK *)
Inductive supply : Type :=
| SPlain      (* public/private key or non-CA certificate in PEM/DER, or an SPSDK key object *)
| SRaw        (* NXP raw bytes (modulus||exponent or X||Y) *)
| SCaBytes    (* CA certificate given as bytes or as a file path *)
| SCaObj.     (* CA certificate given as a spsdk Certificate object (tagged like SCaBytes since the repair of C03-F2) *)

(* EllipticCurvePublicNumbers(x, y, curve).public_key(): the point must satisfy y^2 = x^3 - 3x + b (mod p)
   (NIST P-256 / P-384 / P-521 domain parameters, FIPS 186-4 D.1.2) *)
Definition curve_p (c : N) : N :=
  if c =? 256 then 2 ^ 256 - 2 ^ 224 + 2 ^ 192 + 2 ^ 96 - 1
  else if c =? 384 then 2 ^ 384 - 2 ^ 128 - 2 ^ 96 + 2 ^ 32 - 1 else 2 ^ 521 - 1.
Definition curve_b (c : N) : N :=
  if c =? 256 then 0x5AC635D8AA3A93E7B3EBBD55769886BC651D06B0CC53B0F63BCE3C3E27D2604B
  else if c =? 384 then 0xB3312FA7E23EE7E4988E056BE3F82D19181D9C6EFE8141120314088F5013875AC656398D8A2ED19D2A85C8EDD3EC2AEF
  else 0x0051953EB9618E1C9A1F929A21A0B68540EEA2DA725B99B315F3B8B489918EF109E156193951EC7E937B1652C0BD3BB1BF073573DF883D2C34F1EF451FD46B503F00.
Definition on_curve (c x y : N) : bool :=
  let p := curve_p c in
  (x <? p) && (y <? p) && ((y * y) mod p =? (x * x * x + (p - 3) * x + curve_b c) mod p).

(* PublicKey.parse on data that is neither PEM nor DER: PublicKeyEcc.recreate_from_data, then
   PublicKeyRsa.recreate_public_numbers (first supported size with size/8+3 <= len <= size/8+4) *)
Definition raw_decode (d : list N) : res key :=
  let L := nlen d in
  let ecc (c : N) := let h := (length d / 2)%nat in
                     let x := be_dec (firstn h d) in let y := be_dec (skipn h d) in
                     if on_curve c x y then Ok (KEcc c x y) else Err 1 in
  if L =? 64 then ecc 256 else if L =? 96 then ecc 384 else if L =? 132 then ecc 521
  else match find (fun ks => (ks / 8 + 3 <=? L) && (L <=? ks / 8 + 4)) g_rsa_sizes with
       | Some ks => let m := N.to_nat (ks / 8) in Ok (KRsa (be_dec (firstn m d)) (be_dec (skipn m d)))
       | None => Err 1
       end.

(* RKHT.convert_key / extract_public_key_from_data: the key and whether it carries the ad-hoc "ca" attribute
   (set on the public key of every CA certificate, whether it arrives as bytes, path or Certificate object). *)
Definition convert_key (p : key * supply) : res (key * bool) :=
  match snd p with
  | SPlain => Ok (fst p, false)
  | SCaBytes => Ok (fst p, true)
  | SCaObj => Ok (fst p, true)
  | SRaw => bind (raw_key (fst p)) (fun d => bind (raw_decode d) (fun k => Ok (k, false)))
  end.
Definition convert_all (inp : list (key * supply)) : res (list (key * bool)) := map_res convert_key inp.

(* ------------------------------------------------------------------ RKHT *)
Definition same_class (a b : key) : bool :=
  match a, b with KRsa _ _, KRsa _ _ => true | KEcc _ _ _, KEcc _ _ _ => true | _, _ => false end.

(* RKHT.from_keys followed by RKHT.__init__ *)
Definition rkht_from_keys (ks : list key) : res (list (list N)) :=
  match ks with
  | [] => Ok []
  | k0 :: _ =>
      if negb (forallb (same_class k0) ks) then Err 1 else
      match key_halg k0 with
      | Err e => Err e
      | Ok a0 =>
          if negb (forallb (fun k => match key_halg k with Ok a => halg_eqb a a0 | Err _ => false end) ks) then Err 1
          else bind (map_res calc_key_hash ks) (fun hs => if 4 <? nlen hs then Err 1 else Ok hs)
      end
  end.
(* RKHTv1.__init__: every hash 32 bytes *)
Definition rkht_v1 (ks : list key) : res (list (list N)) :=
  bind (rkht_from_keys ks) (fun hs => if forallb (fun h => nlen h =? g_rkh_size) hs then Ok hs else Err 1).

Definition slot_v1 (hs : list (list N)) (i : nat) : list N :=
  match nth_error hs i with
  | Some h => match h with [] => zeros (N.to_nat g_rkh_size) | _ => h end
  | None => zeros (N.to_nat g_rkh_size)
  end.
(* RKHTv1.export: RKHT_SIZE slots, missing/empty ones zero filled *)
Definition export_v1 (hs : list (list N)) : list N := concat (map (slot_v1 hs) (seq 0 (N.to_nat g_rkht_size))).
Definition rkth_v1 (hs : list (list N)) : list N := sha256 (export_v1 hs).

Definition export_v21 (hs : list (list N)) : list N := if 1 <? nlen hs then concat hs else [].
Definition halg_of_len (l : N) : res halg :=
  if l =? 32 then Ok A256 else if l =? 48 then Ok A384 else if l =? 64 then Ok A512 else Err 1.
(* RKHTv21.rkth: nothing / the single hash / hash of the table *)
Definition rkth_v21 (hs : list (list N)) : res (list N) :=
  match hs with
  | [] => Ok []
  | [h] => Ok h
  | h :: _ => bind (halg_of_len (nlen h)) (fun a => Ok (hash a (export_v21 hs)))
  end.

(* ------------------------------------------------------------------ Rot classes (also `nxpcrypto rot calculate-hash`) *)
Definition rot_v1 (inp : list (key * supply)) : res (list N) :=
  bind (convert_all inp) (fun ks => bind (rkht_v1 (map fst ks)) (fun hs => Ok (rkth_v1 hs))).
Definition rot_v1_export (inp : list (key * supply)) : res (list N) :=
  bind (convert_all inp) (fun ks => bind (rkht_v1 (map fst ks)) (fun hs => Ok (export_v1 hs))).
Definition rot_v21 (inp : list (key * supply)) : res (list N) :=
  bind (convert_all inp) (fun ks => bind (rkht_from_keys (map fst ks)) rkth_v21).
Definition rot_v21_export (inp : list (key * supply)) : res (list N) :=
  bind (convert_all inp) (fun ks => bind (rkht_from_keys (map fst ks)) (fun hs => Ok (export_v21 hs))).

(* ------------------------------------------------------------------ PFR _calc_rotkh *)
Definition pfr_rotkh (ver width : N) (ks : list key) : res (list N) :=
  bind (if ver =? 1 then rkht_v1 ks else rkht_from_keys ks) (fun hs =>
    match hs with
    | [] => Err 1                                   (* hash_algorithm_size: no key hashes *)
    | h :: _ =>
        if width <? 8 * nlen h then Err 1
        else bind (if ver =? 1 then Ok (rkth_v1 hs) else rkth_v21 hs) (fun r =>
             Ok (r ++ zeros (N.to_nat (width / 8) - length r)))
    end).

(* ------------------------------------------------------------------ AHAB SRK tables *)
Definition le16 (v : N) : list N := le_enc 2 v.
Definition le32 (v : N) : list N := le_enc 4 v.
Definition be16 (v : N) : list N := be_enc 2 v.

Record ahab_cfg := {
  a_v2 : bool; a_rec_tag : N; a_tab_tag : N; a_tab_version : N; a_count : N; a_hash : N; a_ca_mask : N;
  a_key_sizes : list (N * (N * N)); a_rsa_type : list (N * N); a_ecc_type : list (N * N);
  a_alg_rsa : N; a_alg_ecdsa : N; a_hash_tags : list (N * N) }.
Definition ahab1 : ahab_cfg := {| a_v2 := false; a_rec_tag := g_ahab1_rec_tag; a_tab_tag := g_ahab1_tab_tag;
  a_tab_version := g_ahab1_tab_version; a_count := g_ahab1_count; a_hash := g_ahab1_hash; a_ca_mask := g_ahab1_ca_mask;
  a_key_sizes := g_ahab1_key_sizes; a_rsa_type := g_ahab1_rsa_type; a_ecc_type := g_ahab1_ecc_type;
  a_alg_rsa := g_ahab1_alg_rsa_pss; a_alg_ecdsa := g_ahab1_alg_ecdsa; a_hash_tags := g_ahab1_hash_tags |}.
Definition ahab2 : ahab_cfg := {| a_v2 := true; a_rec_tag := g_ahab2_rec_tag; a_tab_tag := g_ahab2_tab_tag;
  a_tab_version := g_ahab2_tab_version; a_count := g_ahab2_count; a_hash := g_ahab2_hash; a_ca_mask := g_ahab2_ca_mask;
  a_key_sizes := g_ahab2_key_sizes; a_rsa_type := g_ahab2_rsa_type; a_ecc_type := g_ahab2_ecc_type;
  a_alg_rsa := g_ahab2_alg_rsa_pss; a_alg_ecdsa := g_ahab2_alg_ecdsa; a_hash_tags := g_ahab2_hash_tags |}.
Definition halg_of_id (i : N) : halg := if i =? 0 then A256 else if i =? 1 then A384 else A512.

(* what create_from_key derives from a key: (signing algorithm tag, hash id, key-size id, (len1, len2), key data) *)
Record srk_info := { si_alg : N; si_hash : N; si_ksid : N; si_l1 : N; si_l2 : N; si_data : list N }.
Definition srk_of_key (c : ahab_cfg) (k : key) : res srk_info :=
  match k with
  | KRsa n e =>
      match lookup (a_rsa_type c) (N.size n) with
      | None => Err 2                                  (* KeyError *)
      | Some ksid =>
          match lookup2 (a_key_sizes c) ksid with
          | None => Err 2
          | Some (l1, l2) => bind (to_bytes (N.to_nat l1) n) (fun nb => bind (to_bytes (N.to_nat l2) e) (fun eb =>
              Ok {| si_alg := a_alg_rsa c; si_hash := 0; si_ksid := ksid; si_l1 := l1; si_l2 := l2; si_data := nb ++ eb |}))
          end
      end
  | KEcc cv x y =>
      match lookup (a_ecc_type c) cv with
      | None => Err 2
      | Some ksid =>
          match lookup2 (a_key_sizes c) ksid with
          | None => Err 2
          | Some (l1, l2) => bind (to_bytes (N.to_nat l1) x) (fun xb => bind (to_bytes (N.to_nat l2) y) (fun yb =>
              Ok {| si_alg := a_alg_ecdsa c; si_hash := (if cv =? 256 then 0 else if cv =? 384 then 1 else 2);
                    si_ksid := ksid; si_l1 := l1; si_l2 := l2; si_data := xb ++ yb |}))
          end
      end
  end.
Definition hash_tag (c : ahab_cfg) (h : N) : N := match lookup (a_hash_tags c) h with Some t => t | None => 0 end.
(* SRKData.export *)
Definition srk_data_bytes (id : N) (data : list N) : list N :=
  [g_ahab_data_version] ++ le16 (8 + nlen data) ++ [g_ahab_data_tag] ++ le16 id ++ [0; 0] ++ data.
(* crypto_params of a record: the key data (v1) or the padded hash of the SRK data container (v2) *)
Definition srk_params (c : ahab_cfg) (si : srk_info) (id : N) : list N :=
  if a_v2 c then
    let h := hash (halg_of_id (si_hash si)) (srk_data_bytes id (si_data si)) in
    h ++ zeros (N.to_nat g_ahab2_crypto_params_len - length h)
  else si_data si.
Definition srk_flags (c : ahab_cfg) (ca : bool) : N := if ca then a_ca_mask c else 0.
(* SRKRecordBase.export *)
Definition srk_record_bytes (c : ahab_cfg) (si : srk_info) (ca : bool) (id : N) : list N :=
  let p := srk_params c si id in
  [a_rec_tag c] ++ le16 (12 + nlen p) ++ [si_alg si; hash_tag c (si_hash si); si_ksid si; 0; srk_flags c ca]
  ++ le16 (si_l1 si) ++ le16 (si_l2 si) ++ p.
(* record-level verify(): v2 checks the lengths of both parameters inside the SRK data against KEY_SIZES *)
Definition srk_record_ok (c : ahab_cfg) (si : srk_info) : bool :=
  if a_v2 c then (nlen (firstn (N.to_nat (si_l1 si)) (si_data si)) =? si_l1 si)
                 && negb (negb (si_l2 si =? 0) && negb (nlen (skipn (N.to_nat (si_l1 si)) (si_data si)) =? si_l2 si))
  else true.
Definition srk_sig (c : ahab_cfg) (si : srk_info) (ca : bool) (id : N) : N * N * N * N * N :=
  (si_alg si, si_hash si, si_ksid si, 12 + nlen (srk_params c si id), srk_flags c ca).
Definition sig_eqb (a b : N * N * N * N * N) : bool :=
  let '(a1, a2, a3, a4, a5) := a in let '(b1, b2, b3, b4, b5) := b in
  (a1 =? b1) && (a2 =? b2) && (a3 =? b3) && (a4 =? b4) && (a5 =? b5).
Fixpoint number_from {A} (i : N) (l : list A) : list (N * A) :=
  match l with [] => [] | a :: t => (i, a) :: number_from (i + 1) t end.

(* the table a Rot class builds: records, verify(), table bytes *)
Definition ahab_table (c : ahab_cfg) (ks : list (key * bool)) : res (list N) :=
  bind (map_res (fun p => bind (srk_of_key c (fst (snd p))) (fun si => Ok (fst p, si, snd (snd p)))) (number_from 0 ks))
  (fun recs =>
    match recs with
    | [] => Err 2                                     (* srk_records_info[0]: IndexError *)
    | (id0, si0, ca0) :: _ =>
        let idv (id : N) := if a_v2 c then id else 0 in
        if negb (nlen recs =? a_count c) then Err 1
        else if negb (forallb (fun r => let '(id, si, ca) := r in srk_record_ok c si) recs) then Err 1
        else if negb (forallb (fun r => let '(id, si, ca) := r in
                                sig_eqb (srk_sig c si ca (idv id)) (srk_sig c si0 ca0 (idv id0))) recs) then Err 1
        else
          let body := concat (map (fun r => let '(id, si, ca) := r in srk_record_bytes c si ca (idv id)) recs) in
          Ok ([a_tab_tag c] ++ le16 (4 + nlen body) ++ [a_tab_version c] ++ body)
    end).
Definition rot_ahab (c : ahab_cfg) (inp : list (key * supply)) : res (list N) :=
  bind (convert_all inp) (fun ks => bind (ahab_table c ks) (fun t => Ok (hash (halg_of_id (a_hash c)) t))).
Definition rot_ahab_export (c : ahab_cfg) (inp : list (key * supply)) : res (list N) :=
  bind (convert_all inp) (fun ks => ahab_table c ks).

(* ------------------------------------------------------------------ HAB SRK table (certificates only) *)
Definition hab_flag (ca : bool) : N := if ca then 128 else 0.
(* SrkItemRSA.export / SrkItemEcc.export; ca = keyUsage.keyCertSign of the certificate *)
Definition hab_item (p : key * bool) : res (list N) :=
  match fst p with
  | KRsa n e =>
      let m := be_min n in let x := be_min e in
      Ok ([g_hab_key_public] ++ be16 (12 + nlen m + nlen x) ++ [g_hab_pkcs1]
          ++ [0; 0; 0; hab_flag (snd p)] ++ be16 (nlen m) ++ be16 (nlen x) ++ m ++ x)
  | KEcc c x y =>
      match lookup g_hab_ecc_type c with
      | None => Err 2
      | Some cid => bind (to_bytes (coord_size c) x) (fun xb => bind (to_bytes (coord_size c) y) (fun yb =>
          Ok ([g_hab_key_public] ++ be16 (12 + nlen xb + nlen yb) ++ [g_hab_ecdsa]
              ++ [0; 0; 0; hab_flag (snd p); cid; 0; N.land (N.shiftr c 8) 255; N.land c 255] ++ xb ++ yb)))
      end
  end.
Definition hab_fuses (ks : list (key * bool)) : res (list N) :=
  bind (map_res hab_item ks) (fun items => Ok (sha256 (concat (map sha256 items)))).
Definition hab_table (version : N) (ks : list (key * bool)) : res (list N) :=
  bind (map_res hab_item ks) (fun items =>
    let body := concat items in Ok ([g_hab_crt] ++ be16 (4 + nlen body) ++ [version] ++ body)).

(* ------------------------------------------------------------------ debug credential RoT meta *)
(* RotMetaRSA.load_from_config + calculate_hash: SHA-256(modulus || exponent in THREE bytes) per key *)
Definition dc_rsa_item (k : key) : res (list N) :=
  match k with
  | KRsa n e => bind (to_bytes 3 e) (fun eb => Ok (sha256 (be_min n ++ eb)))
  | KEcc _ _ _ => Err 2                              (* assert isinstance(rot, PublicKeyRsa) *)
  end.
Definition dc_rsa_meta (ks : list key) : res (list N) :=
  if 4 <? nlen ks then Err 1 else
  bind (map_res dc_rsa_item ks) (fun items => Ok (concat items ++ zeros (128 - length (concat items)))).
Definition dc_rsa_hash (ks : list key) : res (list N) := bind (dc_rsa_meta ks) (fun m => Ok (sha256 m)).

(* RotMetaEcc.load_from_config + DebugCredentialCertificateEcc.calculate_hash *)
Definition dc_hash_of_size (s : N) : res halg :=      (* HASH_SIZES = {32: 256, 48: 384, 66: 512} *)
  if s =? 32 then Ok A256 else if s =? 48 then Ok A384 else if s =? 66 then Ok A512 else Err 2.
Definition dc_ecc_items (ks : list key) : res (list (list N)) :=
  match ks with
  | [] => Err 1
  | k0 :: _ =>
      if negb (forallb (fun k => match k with KEcc _ _ _ => true | _ => false end) ks) then Err 1 else
      let hs := N.of_nat (coord_size (key_bits k0)) in
      if negb (forallb (fun k => N.of_nat (coord_size (key_bits k)) =? hs) ks) then Err 1 else
      bind (dc_hash_of_size hs) (fun a =>
        if 1 <? nlen ks then map_res (fun k => bind (raw_key k) (fun d => Ok (hash a d))) ks else Ok [])
  end.
Definition dc_ecc_hash (ks : list key) (rot_id : N) : res (list N) :=
  bind (dc_ecc_items ks) (fun items =>
    if (4 <? nlen ks) || (nlen ks <? rot_id + 1) then Err 1 else
    let table := if 1 <? nlen items then concat items else [] in
    match table with
    | [] => match nth_error ks (N.to_nat rot_id) with
            | None => Err 2
            | Some k => bind (key_halg k) (fun a => bind (raw_key k) (fun d => Ok (hash a d)))
            end
    | _ => (* key_size = HASH_SIZES[HASH_SIZE] of the subclass chosen by load_from_config (32 -> 256, 48 -> 384, 66 -> 512) *)
           match ks with
           | [] => Err 1
           | k0 :: _ => bind (dc_hash_of_size (N.of_nat (coord_size (key_bits k0)))) (fun a => Ok (hash a table))
           end
    end).
(* RotMetaEdgeLockEnclave: exactly four keys, AHAB v1 table with the configured CA flag or-ed with the key's "ca" attribute *)
Definition dc_ele_hash (inp : list (key * supply)) (flag_ca : bool) (rot_id : N) : res (list N) :=
  bind (convert_all inp) (fun ks =>
    if (4 <? nlen ks) || (nlen ks <? rot_id + 1) then Err 1 else
    if negb (nlen ks =? 4) then Err 1 else
    bind (ahab_table ahab1 (map (fun p => (fst p, flag_ca || snd p)) ks)) (fun t => Ok (sha256 t))).

(* ------------------------------------------------------------------ certificate block v1 *)
Record cb1 := { c1_major : N; c1_minor : N; c1_flags : N; c1_build : N; c1_image_length : N;
                c1_certs : list (list N); c1_rkh : list (list N) }.

(* CertBlockV1.set_root_key_hash(i, certificate) for every slot given; None = slot never set *)
Definition cb1_rkh_of_keys (ks : list (option key)) : res (list (list N)) :=
  if 4 <? nlen ks then Err 1 else
  map_res (fun o => match o with Some k => key_hash256 k | None => Ok (zeros 32) end) ks.
Fixpoint find_index (h : list N) (l : list (list N)) (i : N) : option N :=
  match l with [] => None | x :: t => if eqb_list x h then Some i else find_index h t (i + 1) end.
(* CertBlockV1.rkh_index for a block whose first certificate holds key k *)
Definition cb1_rkh_index (rkh : list (list N)) (k : key) : res (option N) :=
  bind (key_hash256 k) (fun h => Ok (find_index h rkh 0)).
Definition cb1_rkth (b : cb1) : list N := rkth_v1 (c1_rkh b).
(* rkth_fuses: little-endian words *)
Fixpoint words_le (fuel : nat) (l : list N) : list N :=
  match fuel with O => [] | S f => match l with [] => [] | _ => le_dec (firstn 4 l) :: words_le f (skipn 4 l) end end.
Definition cb1_fuses (b : cb1) : list N := let r := cb1_rkth b in words_le (length r) r.

Definition cert_table (certs : list (list N)) : list N := concat (map (fun c => le32 (nlen c) ++ c) certs).
Definition cb1_header (b : cb1) : list N :=
  g_cb1_sig ++ le16 (c1_major b) ++ le16 (c1_minor b) ++ le32 g_cb1_hdr_size ++ le32 (c1_flags b) ++ le32 (c1_build b)
  ++ le32 (c1_image_length b) ++ le32 (nlen (c1_certs b)) ++ le32 (nlen (cert_table (c1_certs b))).
Definition pad_to (a : N) (d : list N) : list N :=
  let r := nlen d mod a in d ++ zeros (N.to_nat (if r =? 0 then 0 else a - r)).
(* CertBlockV1.export (the certificate-chain conditions are X.509 content and assumed) *)
Definition cb1_export (align : N) (b : cb1) : list N :=
  pad_to align (cb1_header b ++ cert_table (c1_certs b) ++ export_v1 (c1_rkh b)).

Fixpoint parse_certs (n : nat) (rest : list N) : res (list (list N) * list N) :=
  match n with
  | O => Ok ([], rest)
  | S n' =>
      if nlen rest <? 4 then Err 2                          (* struct.error from unpack_from *)
      else let len := N.to_nat (N.min (le_dec (firstn 4 rest)) (nlen rest)) in   (* slices clamp at the end of the data *)
           let c := firstn len (skipn 4 rest) in
           match parse_certs n' (skipn (4 + len) rest) with
           | Err k => Err k
           | Ok (cs, r) => Ok (c :: cs, r)
           end
  end.
Fixpoint split_n (fuel : nat) (k : nat) (l : list N) : list (list N) :=
  match fuel with O => [] | S f => firstn k l :: split_n f k (skipn k l) end.
(* CertBlockV1.parse: header (incl. image_length), certificates, RKHTv1.parse *)
Definition cb1_parse (d : list N) : res cb1 :=
  if nlen d <? g_cb1_hdr_size then Err 1 else
  if negb (eqb_list (firstn 4 d) g_cb1_sig) then Err 1 else
  let f16 (o : nat) := le_dec (firstn 2 (skipn o d)) in
  let f32 (o : nat) := le_dec (firstn 4 (skipn o d)) in
  if negb (f32 8%nat =? g_cb1_hdr_size) then Err 1 else
  let cnt := f32 24%nat in let tl := f32 28%nat in
  if nlen d <? tl + g_rkht_size * g_rkh_size then Err 1 else
  (* more certificates than bytes cannot be read: the loop ends in struct.error within nlen d iterations *)
  match parse_certs (N.to_nat (N.min cnt (nlen d))) (skipn (N.to_nat g_cb1_hdr_size) d) with
  | Err k => Err k
  | Ok (certs, rest) =>
      let tbl := firstn (N.to_nat (g_rkht_size * g_rkh_size)) rest in
      let hs := split_n (N.to_nat g_rkht_size) (length tbl / N.to_nat g_rkht_size) tbl in
      if negb (forallb (fun h => nlen h =? g_rkh_size) hs) then Err 1 else
      Ok {| c1_major := f16 4%nat; c1_minor := f16 6%nat; c1_flags := f32 12%nat; c1_build := f32 16%nat; c1_image_length := f32 20%nat;
            c1_certs := certs; c1_rkh := hs |}
  end.

(* ------------------------------------------------------------------ certificate block v2.1 *)
Definition curve_nibble (c : N) : N := (if c =? 256 then 1 else 0) + (if c =? 384 then 2 else 0).
Definition ecc_only (ks : list key) : bool := forallb (fun k => match k with KEcc _ _ _ => true | _ => false end) ks.

(* RootKeyRecord.calculate: (flags, CTRK hash table entries, root public key bytes) *)
Definition rkr_calc (ca : bool) (used : N) (ks : list key) : res (N * list (list N) * list N) :=
  match ks with
  | [] => Err 1
  | k0 :: _ =>
      if negb (ecc_only ks) then Err 1 else                  (* convert_to_ecc_key *)
      let flags := N.lor (N.lor (N.lor (if ca then 2 ^ 31 else 0) (N.shiftl used 8)) (N.shiftl (nlen ks) 4))
                         (curve_nibble (key_bits k0)) in
      bind (rkht_from_keys ks) (fun hs =>
        match nth_error ks (N.to_nat used) with
        | None => Err 2                                      (* IndexError *)
        | Some k => bind (raw_key k) (fun pub => Ok (flags, hs, pub))
        end)
  end.
Definition rkr_bytes (r : N * list (list N) * list N) : list N :=
  let '(flags, hs, pub) := r in le32 flags ++ export_v21 hs ++ pub.

Record isk_in := { i_constraints : N; i_key : key; i_user_data : list N }.
Definition isk_flags (i : isk_in) : N :=
  N.lor (match i_user_data i with [] => 0 | _ => 2 ^ 31 end) (curve_nibble (key_bits (i_key i))).
Definition isk_sig_offset (i : isk_in) : N := 12 + nlen (i_user_data i) + 2 * N.of_nat (coord_size (key_bits (i_key i))).
(* IskCertificate.__init__ with a family: user data limit and alignment from the database *)
Definition isk_check (lim_align : option (N * N)) (i : isk_in) : res unit :=
  match i_key i with
  | KRsa _ _ => Err 1
  | KEcc _ _ _ =>
      match lim_align with
      | None => Ok tt
      | Some (lim, al) => if lim <? nlen (i_user_data i) then Err 1
                          else if negb (nlen (i_user_data i) mod al =? 0) then Err 1 else Ok tt
      end
  end.
Definition isk_head (i : isk_in) : list N := le32 (isk_sig_offset i) ++ le32 (i_constraints i) ++ le32 (isk_flags i).
(* the message handed to the signature provider by create_isk_signature *)
Definition isk_tbs (rkr : list N) (i : isk_in) (pub : list N) : list N := rkr ++ isk_head i ++ pub ++ i_user_data i.

Record cb21_in := { b_ca : bool; b_used : N; b_keys : list key; b_isk : option isk_in; b_family : option (N * N) }.

(* CertBlockV21(...).calculate(); export()  -> (exported bytes, messages passed to the signer) *)
Definition cb21_export (sign : list N -> list N) (b : cb21_in) : res (list N * list (list N)) :=
  let isk := if b_ca b then None else b_isk b in             (* ISK only when not ca_flag *)
  bind (match isk with Some i => isk_check (b_family b) i | None => Ok tt end) (fun _ =>
  bind (rkr_calc (b_ca b) (b_used b) (b_keys b)) (fun r =>
    let rk := rkr_bytes r in
    match isk with
    | None => Ok (g_cb21_magic ++ le16 (snd g_cb21_version) ++ le16 (fst g_cb21_version)
                  ++ le32 (g_cb21_hdr_size + nlen rk) ++ rk, [])
    | Some i =>
        bind (raw_key (i_key i)) (fun pub =>
          let msg := isk_tbs rk i pub in
          let sg := sign msg in
          match sg with [] => Err 1 | _ =>                 (* "Signature is not set." *)
          let ic := isk_head i ++ pub ++ i_user_data i ++ sg in
          Ok (g_cb21_magic ++ le16 (snd g_cb21_version) ++ le16 (fst g_cb21_version)
              ++ le32 (g_cb21_hdr_size + nlen rk + nlen ic) ++ rk ++ ic, [msg])
          end)
    end)).
Definition cb21_rkth (b : cb21_in) : res (list N) :=
  bind (rkr_calc (b_ca b) (b_used b) (b_keys b)) (fun r => let '(_, hs, _) := r in rkth_v21 hs).

(* ---- parse *)
Record isk_out := { o_constraints : N; o_flags : N; o_pub : list N; o_user_data : list N; o_sig : list N;
                    o_offset_present : bool }.
Record cb21_out := { p_major : N; p_minor : N; p_size : N; p_flags : N; p_rkh : list (list N); p_root_pub : list N;
                     p_isk : option isk_out }.
Definition nib_len (nib : N) : res N := if nib <=? 1 then Ok 32 else if nib =? 2 then Ok 48 else Err 2.  (* dict KeyError *)
Definition nib_halg (nib : N) : res halg := if nib =? 1 then Ok A256 else if nib =? 2 then Ok A384 else Err 2.
Definition u32_at (d : list N) (o : nat) : res N :=
  if nlen d <? N.of_nat o + 4 then Err 2 else Ok (le_dec (firstn 4 (skipn o d))).

(* RootKeyRecord.parse *)
Definition rkr_parse (d : list N) : res (N * list (list N) * list N) :=
  bind (u32_at d 0) (fun flags =>
  let n := N.shiftr (N.land flags 240) 4 in
  bind (nib_len (N.land flags 15)) (fun hl =>
  let tbl := if 1 <? n then firstn (N.to_nat (hl * n)) (skipn 4 d) else [] in
  let pub := firstn (N.to_nat (2 * hl)) (skipn (if 1 <? n then N.to_nat (4 + hl * n) else 4%nat) d) in
  bind (nib_halg (N.land flags 15)) (fun a =>
    if 1 <? n then
      if negb (nlen tbl mod N.of_nat (hlen a) =? 0) then Err 1 else
      let hs := split_n (length tbl / hlen a) (hlen a) tbl in
      if 4 <? nlen hs then Err 1 else Ok (flags, hs, pub)
    else Ok (flags, [hash a pub], pub)))).
Definition rkr_out_size (r : N * list (list N) * list N) : nat :=
  let '(_, hs, pub) := r in (4 + length (export_v21 hs) + length pub)%nat.

(* IskCertificate.parse followed by the constructor (flags are RECOMPUTED from the recreated key and user data) *)
Definition isk_parse (d : list N) (sig_size : nat) : res isk_out :=
  bind (u32_at d 0) (fun w0 => bind (u32_at d 4) (fun w1 => bind (u32_at d 8) (fun w2 =>
  let heur := N.land w0 g_isk_heur_mask =? g_isk_heur_magic in
  let sig_off := N.min (if heur then g_isk_heur_offset else w0) (nlen d) in      (* slices clamp at the end of the data *)
  let constraints := if heur then w0 else w1 in
  let flags := if heur then w1 else w2 in
  let hw := if heur then 8%nat else 12%nat in
  bind (nib_len (N.land flags 15)) (fun kl =>
  let pub := firstn (N.to_nat (2 * kl)) (skipn hw d) in
  let uoff := (hw + N.to_nat (2 * kl))%nat in
  let ud := if N.testbit flags 31 then slice d uoff (N.to_nat sig_off) else [] in
  let sg := firstn sig_size (skipn (N.to_nat sig_off) d) in
  match pub with
  | [] => Err 1                                              (* no ISK key: _calculate_flags raises *)
  | _ => bind (raw_decode pub) (fun k =>
           match k with
           | KRsa _ _ => Err 1
           | KEcc c _ _ =>
               Ok {| o_constraints := constraints;
                     o_flags := N.lor (match ud with [] => 0 | _ => 2 ^ 31 end) (curve_nibble c);
                     o_pub := pub; o_user_data := ud; o_sig := sg; o_offset_present := negb heur |}
           end)
  end)))).

Definition cb21_parse (d : list N) : res cb21_out :=
  if nlen d <? g_cb21_hdr_size then Err 1 else
  if negb (eqb_list (firstn 4 d) g_cb21_magic) then Err 1 else
  let minor := le_dec (firstn 2 (skipn 4 d)) in
  let major := le_dec (firstn 2 (skipn 6 d)) in
  let size := le_dec (firstn 4 (skipn 8 d)) in
  let body := skipn (N.to_nat g_cb21_hdr_size) d in
  bind (rkr_parse body) (fun r =>
    let '(flags, hs, pub) := r in
    if N.testbit flags 31 then
      Ok {| p_major := major; p_minor := minor; p_size := size; p_flags := flags; p_rkh := hs; p_root_pub := pub; p_isk := None |}
    else
      bind (isk_parse (skipn (rkr_out_size r) body) (length pub)) (fun io =>
      Ok {| p_major := major; p_minor := minor; p_size := size; p_flags := flags; p_rkh := hs; p_root_pub := pub;
            p_isk := Some io |})).

(* export() of a parsed block: flags as parsed, ISK words recomputed by the constructor *)
Definition isk_out_bytes (o : isk_out) : res (list N) :=
  match o_sig o with
  | [] => Err 1
  | _ =>
    let off := (if o_offset_present o then 12 else 8) + nlen (o_user_data o) + nlen (o_pub o) in
    Ok ((if o_offset_present o then le32 off else []) ++ le32 (o_constraints o) ++ le32 (o_flags o)
        ++ o_pub o ++ o_user_data o ++ o_sig o)
  end.
Definition cb21_reexport (p : cb21_out) : res (list N) :=
  let rk := le32 (p_flags p) ++ export_v21 (p_rkh p) ++ p_root_pub p in
  bind (match p_isk p with Some o => isk_out_bytes o | None => Ok [] end) (fun ic =>
    Ok (g_cb21_magic ++ le16 (p_minor p) ++ le16 (p_major p) ++ le32 (g_cb21_hdr_size + nlen rk + nlen ic) ++ rk ++ ic)).
Definition cb21_out_rkth (p : cb21_out) : res (list N) := rkth_v21 (p_rkh p).

(* ------------------------------------------------------------------ the documented constructions *)
(* per-key record: SHA-256(modulus || exponent) for RSA, SHA-<curve>(X || Y) for ECC, all big-endian,
   RSA numbers without leading zero bytes, ECC coordinates in full curve width *)
Definition rkh_spec (k : key) : list N :=
  match k with
  | KRsa n e => sha256 (be_min n ++ be_min e)
  | KEcc c x y => hash (if c =? 256 then A256 else if c =? 384 then A384 else A512)
                       (be_encf (coord_size c) x ++ be_encf (coord_size c) y)
  end.
(* cert block v1 (RKTH): SHA-256 over four 32-byte slots, unused slots zero *)
Definition rot_spec_v1 (ks : list key) : list N :=
  sha256 (concat (map rkh_spec ks) ++ zeros (32 * (4 - length ks))).
(* cert block v2.1 (RoTKTH): one key: its hash; several: hash of the concatenated hashes *)
Definition rot_spec_v21 (ks : list key) : list N :=
  match ks with
  | [] => []
  | [k] => rkh_spec k
  | k :: _ => hash (match k with KEcc 384 _ _ => A384 | _ => A256 end) (concat (map rkh_spec ks))
  end.

(* ------------------------------------------------------------------ run_case *)
Definition key_of_value (v : value) : option key :=
  match v with
  | VList [VInt 0%Z; VInt n; VInt e] => Some (KRsa (Z.to_N n) (Z.to_N e))
  | VList [VInt 1%Z; VInt c; VInt x; VInt y] => Some (KEcc (Z.to_N c) (Z.to_N x) (Z.to_N y))
  | _ => None
  end.
Definition supply_of (z : Z) : supply :=
  (if z =? 1 then SRaw else if z =? 2 then SCaBytes else if z =? 3 then SCaObj else SPlain)%Z.
Fixpoint keys_of (l : list value) : option (list key) :=
  match l with
  | [] => Some []
  | v :: t => match key_of_value v, keys_of t with Some k, Some ks => Some (k :: ks) | _, _ => None end
  end.
Fixpoint inputs_of (l : list value) : option (list (key * supply)) :=
  match l with
  | [] => Some []
  | VList [kv; VInt s] :: t =>
      match key_of_value kv, inputs_of t with Some k, Some ks => Some ((k, supply_of s) :: ks) | _, _ => None end
  | _ => None
  end.
Fixpoint okeys_of (l : list value) : option (list (option key)) :=
  match l with
  | [] => Some []
  | VList [] :: t => match okeys_of t with Some ks => Some (None :: ks) | None => None end
  | v :: t => match key_of_value v, okeys_of t with Some k, Some ks => Some (Some k :: ks) | _, _ => None end
  end.
Fixpoint blobs_of (l : list value) : list (list N) :=
  match l with VBytes b :: t => b :: blobs_of t | _ => [] end.
Definition vb (r : res (list N)) : value := vres VBytes r.
Definition zb (z : Z) : bool := negb (z =? 0)%Z.
Definition vblist (l : list (list N)) : value := VList (map VBytes l).
Definition vopt_n (o : option N) : value := match o with Some i => VInt (Z.of_N i) | None => VInt (-1)%Z end.
(* the stand-in signer of the correspondence run: SHA-256(msg) repeated to the signature length *)
Definition hash_signer (len : nat) (m : list N) : list N :=
  let d := sha256 m in firstn len (d ++ d ++ d ++ d ++ d).

Definition isk_of_value (v : value) : option (option isk_in) :=
  match v with
  | VList [] => Some None
  | VList [VInt c; kv; VBytes ud] =>
      match key_of_value kv with
      | Some k => Some (Some {| i_constraints := Z.to_N c; i_key := k; i_user_data := ud |})
      | None => None
      end
  | _ => None
  end.
Definition fam_of_value (v : value) : option (N * N) :=
  match v with VList [VInt l; VInt a] => Some (Z.to_N l, Z.to_N a) | _ => None end.

Definition cb21_parsed_value (p : cb21_out) : value :=
  VList [vb (cb21_out_rkth p); vb (cb21_reexport p); vN (p_flags p);
         vN (N.shiftr (N.land (p_flags p) 3840) 8); vN (N.shiftr (N.land (p_flags p) 240) 4);
         vbool (N.testbit (p_flags p) 31); VBytes (p_root_pub p); vN (p_size p); vN (p_major p); vN (p_minor p);
         match p_isk p with
         | None => VList []
         | Some o => VList [vN (o_constraints o); vN (o_flags o); VBytes (o_pub o); VBytes (o_user_data o);
                            VBytes (o_sig o); vbool (o_offset_present o)]
         end].

Definition run_case (fn : Z) (args : list value) : value :=
  match fn, args with
  (* 1: Rot / nxpcrypto rot: rot type id, inputs -> [hash; export] *)
  | 1%Z, [VInt rt; VList inp] =>
      match inputs_of inp with
      | None => VErr E_BADCASE
      | Some i =>
          (* hash and exported table from ONE evaluation of the common prefix (same functions as rot_* above) *)
          let both {A} (r : res A) (f g : A -> res (list N)) : value :=
            match r with Err k => VList [VErr k; VErr k] | Ok a => VList [vb (f a); vb (g a)] end in
          if (rt =? 1)%Z then both (bind (convert_all i) (fun ks => rkht_v1 (map fst ks)))
                                   (fun hs => Ok (rkth_v1 hs)) (fun hs => Ok (export_v1 hs))
          else if (rt =? 21)%Z then both (bind (convert_all i) (fun ks => rkht_from_keys (map fst ks)))
                                   rkth_v21 (fun hs => Ok (export_v21 hs))
          else if (rt =? 3)%Z then both (rot_ahab_export ahab1 i) (fun t => Ok (hash (halg_of_id (a_hash ahab1)) t)) (fun t => Ok t)
          else if (rt =? 4)%Z then both (rot_ahab_export ahab2 i) (fun t => Ok (hash (halg_of_id (a_hash ahab2)) t)) (fun t => Ok t)
          else if (rt =? 5)%Z then VErr E_BADCASE
          else VList [VErr 1; VErr 1]
      end
  (* 2: HAB: keys with keyCertSign flag, table version -> [fuses; table] *)
  | 2%Z, [VInt ver; VList inp] =>
      match inputs_of inp with
      | None => VErr E_BADCASE
      | Some i => let ks := map (fun p => (fst p, match snd p with SCaBytes => true | SCaObj => true | _ => false end)) i in
                  match map_res hab_item ks with
                  | Err k => VList [VErr k; VErr k]
                  | Ok items => VList [VBytes (sha256 (concat (map sha256 items)));
                                       VBytes ([g_hab_crt] ++ be16 (4 + nlen (concat items)) ++ [Z.to_N ver] ++ concat items)]
                  end
      end
  (* 3: RKHT classes: version, inputs -> [rkth; export; rkh list] *)
  | 3%Z, [VInt ver; VList inp] =>
      match inputs_of inp with
      | None => VErr E_BADCASE
      | Some i =>
          match bind (convert_all i) (fun ks => if (ver =? 1)%Z then rkht_v1 (map fst ks) else rkht_from_keys (map fst ks)) with
          | Err k => VList [VErr k; VErr k; VErr k]
          | Ok hs => if (ver =? 1)%Z then VList [VBytes (rkth_v1 hs); VBytes (export_v1 hs); vblist hs]
                     else VList [vb (rkth_v21 hs); VBytes (export_v21 hs); vblist hs]
          end
      end
  (* 4: per-key functions -> [_calc_key_hash; key_hash; NXP export; parse(raw).export] *)
  | 4%Z, [kv] =>
      match key_of_value kv with
      | None => VErr E_BADCASE
      | Some k => VList [vb (calc_key_hash k); vb (key_hash256 k); vb (raw_key k);
                         vb (bind (raw_key k) (fun d => bind (raw_decode d) raw_key))]
      end
  (* 5: PFR: rkht version, register width, keys -> rotkh *)
  | 5%Z, [VInt ver; VInt width; VList ks] =>
      match keys_of ks with None => VErr E_BADCASE | Some l => vb (pfr_rotkh (Z.to_N ver) (Z.to_N width) l) end
  (* 6: cert block v1: slots, key of the first certificate, flags, build, image_length, alignment, certificates
        -> [rkth; fuses; rkh_index; rkh; export; parsed [rkth; rkh_index; reexport; build; flags; image_length; ncert; major; minor]] *)
  | 6%Z, [VList slots; rootk; VInt flags; VInt build; VInt il; VInt align; VList certs] =>
      match okeys_of slots, key_of_value rootk with
      | Some sl, Some rk =>
          match cb1_rkh_of_keys sl with
          | Err k => VErr k
          | Ok rkh =>
              let b := {| c1_major := 1; c1_minor := 0; c1_flags := Z.to_N flags; c1_build := Z.to_N build;
                          c1_image_length := Z.to_N il; c1_certs := blobs_of certs; c1_rkh := rkh |} in
              let ex := cb1_export (Z.to_N align) b in
              VList [VBytes (cb1_rkth b); VList (map vN (cb1_fuses b));
                     vres vopt_n (cb1_rkh_index rkh rk); vblist rkh; VBytes ex;
                     match cb1_parse ex with
                     | Err k => VErr k
                     | Ok p => VList [VBytes (cb1_rkth p); vres vopt_n (cb1_rkh_index (c1_rkh p) rk);
                                      VBytes (cb1_export g_cb1_align p); vN (c1_build p); vN (c1_flags p);
                                      vN (c1_image_length p); vnat (length (c1_certs p)); vN (c1_major p); vN (c1_minor p)]
                     end]
          end
      | _, _ => VErr E_BADCASE
      end
  (* 7: cert block v2.1: keys (with supply), used, ca, isk, family (limit, align), signature length
        -> [rkth; flags; rkr; export; signed messages; parsed ...] *)
  | 7%Z, [VList inp; VInt used; VInt ca; iskv; famv; VInt siglen] =>
      match inputs_of inp, isk_of_value iskv with
      | Some i, Some isk =>
          match convert_all i with
          | Err k => VErr k
          | Ok ks =>
              let b := {| b_ca := zb ca; b_used := Z.to_N used; b_keys := map fst ks; b_isk := isk;
                          b_family := fam_of_value famv |} in
              match cb21_export (hash_signer (Z.to_nat siglen)) b with
              | Err k => VErr k
              | Ok (ex, msgs) =>
                  match rkr_calc (b_ca b) (b_used b) (b_keys b) with
                  | Err k => VErr k
                  | Ok r => let '(f, hs, _) := r in
                            VList [vb (rkth_v21 hs); vN f; VBytes (rkr_bytes r);
                                   VBytes ex; vblist msgs; vres cb21_parsed_value (cb21_parse ex)]
                  end
              end
          end
      | _, _ => VErr E_BADCASE
      end
  (* 8: parse of arbitrary bytes as cert block v2.1 *)
  | 8%Z, [VBytes d] => vres cb21_parsed_value (cb21_parse d)
  (* 9: debug credential: kind (0 RSA, 1 ECC, 2 ELE), inputs, rot_id, flag_ca -> hash *)
  | 9%Z, [VInt kind; VList inp; VInt rot_id; VInt fca] =>
      match inputs_of inp with
      | None => VErr E_BADCASE
      | Some i =>
          if (kind =? 2)%Z then vb (dc_ele_hash i (zb fca) (Z.to_N rot_id))
          else match convert_all i with
               | Err k => VErr k
               | Ok ks => if (kind =? 0)%Z then vb (dc_rsa_hash (map fst ks)) else vb (dc_ecc_hash (map fst ks) (Z.to_N rot_id))
               end
      end
  (* 10: parse of arbitrary bytes as cert block v1 -> [rkth; reexport; build; flags; ncert] *)
  | 10%Z, [VBytes d] =>
      match cb1_parse d with
      | Err k => VErr k
      | Ok p => VList [VBytes (cb1_rkth p); VBytes (cb1_export g_cb1_align p); vN (c1_build p); vN (c1_flags p);
                       vnat (length (c1_certs p))]
      end
  | _, _ => VErr E_BADCASE
  end.

(* sanity: the model computes *)
Example rot_v1_empty_runs : rot_v1 [] = Ok (sha256 (zeros 128)).
Proof. vm_compute. reflexivity. Qed.
