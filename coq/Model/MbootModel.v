(* Model/MbootModel.v -- C10: executable model of the McuBoot host (spsdk/mboot/mcuboot.py over
   protocol/serial_protocol.py and protocol/bulk_protocol.py, commands.py) and, as the SPECIFICATION side, a reference
   MCU bootloader.  Definitions only.  Tables (tags, status codes, frame constants, CRC parameters, response classes,
   the command packet every API method builds) come from Gen/GenMboot.v, regenerated from the source on every run.

   The host is a state/exception monad over an environment that holds the device->host input still unread, everything
   the host wrote and everything it consumed.  The environment is parameterised by a device: a device that never answers
   (unit) turns the input into an arbitrary scripted byte stream ("for every device-to-host stream"), the reference
   bootloader gives the closed loop.  Time is not modelled: an exhausted input is the time-out event. *)
From Coq Require Import ZArith NArith List Bool.
Require Import Value Bytes GenMboot.
Import ListNotations.
Local Open Scope N_scope.

(* ------------------------------------------------------------------ exceptions and the monad *)
Inductive exn : Type :=
| XTimeout            (* SPSDKTimeoutError (an SPSDKError AND a TimeoutError) *)
| XConn               (* McuBootConnectionError *)
| XAbort              (* McuBootDataAbortError *)
| XCmd (status : N)   (* McuBootCommandError(error_value = status) *)
| XMboot              (* McuBootError *)
| XSpsdk              (* other SPSDKError *)
| XCrash (k : N)      (* any exception outside the SPSDKError family *)
| XHang.              (* loop fuel exhausted *)
Definition K_STRUCT : N := 10.   (* struct.error *)
Definition K_ASSERT : N := 11.   (* AssertionError *)
Definition K_VALUE : N := 12.    (* ValueError *)
Definition K_INDEX : N := 13.    (* IndexError *)
Definition K_ZERODIV : N := 14.  (* ZeroDivisionError *)

Inductive result (A : Type) : Type := ROk (a : A) | RExn (e : exn).
Arguments ROk {A} a.
Arguments RExn {A} e.

Definition M (S A : Type) : Type := S -> result A * S.
Definition mret {S A} (a : A) : M S A := fun s => (ROk a, s).
Definition mraise {S A} (e : exn) : M S A := fun s => (RExn e, s).
Definition mbind {S A B} (m : M S A) (f : A -> M S B) : M S B :=
  fun s => match m s with (ROk a, s') => f a s' | (RExn e, s') => (RExn e, s') end.
Notation "x <- m ;; k" := (mbind m (fun x => k)) (at level 61, m at next level, right associativity).
Notation "m ;;; k" := (mbind m (fun _ => k)) (at level 61, right associativity).
Definition mlift {S A} (r : result A) : M S A := fun s => (r, s).

(* except McuBootError: ... *)
Definition is_mcuboot_error (x : exn) : bool :=
  match x with XConn | XAbort | XCmd _ | XMboot => true | _ => false end.
(* except SPSDKError: ...  (XTimeout is handled by the earlier `except TimeoutError` clause wherever both occur) *)
Definition is_spsdk_error (x : exn) : bool :=
  match x with XTimeout | XConn | XAbort | XCmd _ | XMboot | XSpsdk => true | _ => false end.

(* ------------------------------------------------------------------ list helpers indexed by N (never N.to_nat an untrusted number) *)
Fixpoint firstnN {A} (n : N) (l : list A) : list A :=
  match l with [] => [] | x :: t => if n =? 0 then [] else x :: firstnN (N.pred n) t end.
Fixpoint skipnN {A} (n : N) (l : list A) : list A :=
  match l with [] => [] | x :: t => if n =? 0 then l else skipnN (N.pred n) t end.
Fixpoint chunks_fuelN {A} (fuel : nat) (k : N) (l : list A) : list (list A) :=
  match fuel with
  | O => []
  | S f => match l with [] => [] | _ => firstnN k l :: chunks_fuelN f k (skipnN k l) end
  end.
(* [data[i : i + k] for i in range(0, len(data), k)]  for k > 0 *)
Definition chunksN {A} (k : N) (l : list A) : list (list A) := chunks_fuelN (length l) k l.
Fixpoint assoc {B} (k : N) (l : list (N * B)) : option B :=
  match l with [] => None | (k', v) :: t => if k =? k' then Some v else assoc k t end.
Definition assocd {B} (k : N) (l : list (N * B)) (d : B) : B := match assoc k l with Some v => v | None => d end.
(* sorted association list update (python dict + sorted snapshot) *)
Fixpoint aset {B} (k : N) (v : B) (l : list (N * B)) : list (N * B) :=
  match l with
  | [] => [(k, v)]
  | (k', v') :: t => if k =? k' then (k, v) :: t else if k <? k' then (k, v) :: l else (k', v') :: aset k v t
  end.
Fixpoint words (n : nat) (l : list N) : list N :=
  match n with O => [] | S k => le_dec (firstn 4 l) :: words k (skipn 4 l) end.
Definition u32s (ws : list N) : list N := flat_map (le_enc 4) ws.
Definition memb (x : N) (l : list N) : bool := existsb (N.eqb x) l.

(* ------------------------------------------------------------------ CRC-16/XMODEM, bit serial *)
Definition crc_bit (crc : N) : N :=
  let c := N.shiftl crc 1 in
  if N.testbit crc 15 then N.land (N.lxor c CRC16_POLY) 65535 else N.land c 65535.
Definition crc_byte (crc b : N) : N :=
  crc_bit (crc_bit (crc_bit (crc_bit (crc_bit (crc_bit (crc_bit (crc_bit (N.lxor crc (N.shiftl b 8))))))))).
Definition crc16 (data : list N) : N := N.lxor (fold_left crc_byte data CRC16_INIT) CRC16_XOROUT.
(* the model implements the non-reflected algorithm only *)
Example crc16_not_reflected : CRC16_REV = false := eq_refl.
Example crc16_check_value : crc16 [49; 50; 51; 52; 53; 54; 55; 56; 57] = 12739 := eq_refl.   (* "123456789" -> 0x31C3 *)

(* ------------------------------------------------------------------ frames and reports *)
Definition le16 (n : N) : list N := le_enc 2 n.
Definition frame_crc (ftype : N) (payload : list N) : N :=
  crc16 (FRAME_START_BYTE :: ftype :: le16 (nlen payload) ++ payload).
(* MbootSerialProtocol._create_frame: struct.pack("<BBHH{n}B", 0x5A, type, len, crc, *data) *)
Definition mk_frame (ftype : N) (payload : list N) : list N :=
  FRAME_START_BYTE :: ftype :: le16 (nlen payload) ++ le16 (frame_crc ftype payload) ++ payload.
Definition create_frame (ftype : N) (payload : list N) : result (list N) :=
  if 65536 <=? nlen payload then RExn (XCrash K_STRUCT) else ROk (mk_frame ftype payload).
(* MbootBulkProtocol._create_frame: pack("<2BH", report_id, 0, len) + data *)
Definition mk_report (rid : N) (payload : list N) : list N := rid :: 0 :: le16 (nlen payload) ++ payload.
Definition create_report (rid : N) (payload : list N) : result (list N) :=
  if 65536 <=? nlen payload then RExn (XCrash K_STRUCT) else ROk (mk_report rid payload).

(* ------------------------------------------------------------------ command packets and responses *)
Definition cmdpkt : Type := (N * N * list N)%type.          (* tag, flags, params *)
Definition pkt_tag (p : cmdpkt) : N := fst (fst p).
(* CmdPacket.to_bytes(padding=False): pack("4B", tag, flags, 0, n) + pack("<nI", *params) *)
Definition pkt_bytes (p : cmdpkt) : result (list N) :=
  let '(tag, flags, params) := p in
  if existsb (fun x => 4294967296 <=? x) params || (256 <=? nlen params) then RExn (XCrash K_STRUCT)
  else ROk (tag :: flags :: 0 :: nlen params :: u32s params).

(* r_cls: class id of Gen.known_response (0 = plain CmdResponse, 8 = NoResponse); r_second: cmd_tag of a generic
   response, length of the read-memory like ones *)
Record resp : Type := mkResp { r_cls : N; r_tag : N; r_status : N; r_second : N; r_values : list N; r_data : list N }.
Inductive rx : Type := RxData (d : list N) | RxResp (r : resp).
Definition no_response (tag : N) : resp := mkResp 8 tag SC_NO_RESPONSE 0 [] [].

(* commands.parse_cmd_response + the __init__ of the response classes, driven by the extracted unpack shapes *)
Definition parse_cmd_response (data : list N) : result resp :=
  if nlen data <? CMD_HEADER_SIZE then RExn XMboot else
  let tag := nth 0 data 0 in
  let pc := nth 3 data 0 in
  let raw := skipn 4 data in
  if nlen raw <? 4 then RExn (XCrash K_STRUCT) else
  let status := le_dec (firstn 4 raw) in
  let cls := assocd tag known_response 0 in
  match assoc cls response_shape with
  | None => ROk (mkResp cls tag status 0 [] [])
  | Some (kind, nfix, nbefore, star, second) =>
      let nw := if kind =? 0 then nfix else pc in
      if (if kind =? 2 then negb (nlen raw =? 4 * nw) else nlen raw <? 4 * nw) then RExn (XCrash K_STRUCT) else
      let ws := words (N.to_nat nw) raw in
      if (if star =? 1 then nw <? nbefore else negb (nw =? nbefore)) then RExn (XCrash K_VALUE) else
      let sec := if 2 <=? nbefore then nth 1 ws 0 else 0 in
      let vals := if star =? 1 then skipn (N.to_nat nbefore) ws else [] in
      let dat := if (cls =? 4) && (0 <? sec) then firstnN sec (skipn 8 raw) else [] in
      ROk (mkResp cls tag status sec vals dat)
  end.
Definition parse_rx {S} (data : list N) : M S rx :=
  match parse_cmd_response data with ROk r => mret (RxResp r) | RExn e => mraise e end.

(* ------------------------------------------------------------------ the protocol interface seen by McuBoot *)
Record iface (E : Type) : Type := mkIface {
  i_write_command : list N -> M E unit;
  i_write_data : bool -> list N -> M E unit;       (* the flag is MbootProtocolBase.allow_abort *)
  i_read : M E rx;
  i_usb : bool;                                    (* isinstance(interface.device, UsbDevice) *)
  i_avail : E -> nat                               (* input units not yet consumed (fuel for the receive loops) *)
}.
Arguments i_write_command {E}.
Arguments i_write_data {E}.
Arguments i_read {E}.
Arguments i_usb {E}.
Arguments i_avail {E}.

(* ------------------------------------------------------------------ serial transport: MbootSerialProtocol over a byte device *)
Section Serial.
  Variable D : Type.
  Variable dev_recv : D -> list N -> D * list N.     (* what the device puts on the line when the host writes w *)

  Record senv : Type := mkSenv {
    se_dev : D;
    se_in : list N;               (* bytes the host can read now *)
    se_out : list (list N);       (* host writes, newest first *)
    se_cons : list (list N) }.    (* chunks the host has read, newest first *)

  (* DeviceBase.read(n) with pyserial semantics: up to n bytes; nothing available = SPSDKTimeoutError *)
  Definition sread (n : N) : M senv (list N) := fun e =>
    match firstnN n (se_in e) with
    | [] => (RExn XTimeout, e)
    | bs => (ROk bs, mkSenv (se_dev e) (skipnN n (se_in e)) (se_out e) (bs :: se_cons e))
    end.
  Definition swrite (w : list N) : M senv unit := fun e =>
    let '(d', r) := dev_recv (se_dev e) w in
    (ROk tt, mkSenv d' (se_in e ++ r) (w :: se_out e) (se_cons e)).

  (* _wait_for_data: skip the "not ready" bytes *)
  Fixpoint s_wait_loop (fuel : nat) : M senv N :=
    match fuel with
    | O => mraise XHang
    | S f => b <- sread 1 ;;
             let h := le_dec b in
             if memb h FRAME_START_NOT_READY_LIST then s_wait_loop f else mret h
    end.
  Definition s_wait_for_data : M senv N := fun e => s_wait_loop (S (length (se_in e))) e.

  (* _read_frame_header(expected_frame_type) *)
  Definition s_read_frame_header (expected : option N) : M senv (N * N) :=
    h <- s_wait_for_data ;;
    if negb ((h =? FRAME_START_BYTE) || (h =? FP_ACK)) then mraise XConn else
    ft <- (if h =? FP_ACK then mret h else (b <- sread 1 ;; mret (le_dec b))) ;;
    if ft =? FP_ABORT then mraise XAbort else
    match expected with
    | None => mret (h, ft)
    | Some ex => let ft' := if ft =? FRAME_START_BYTE then h else ft in
                 if ft' =? ex then mret (h, ft') else mraise XConn
    end.

  Definition s_send_ack : M senv unit := swrite [FRAME_START_BYTE; FP_ACK].
  Definition s_send_frame (frame : list N) (wait_for_ack : bool) : M senv unit :=
    swrite frame ;;;
    if wait_for_ack then (s_read_frame_header (Some FP_ACK) ;;; mret tt) else mret tt.

  (* MbootSerialProtocol.read: the frame is acknowledged BEFORE its CRC is checked *)
  Definition s_read : M senv rx :=
    hf <- s_read_frame_header None ;;
    lb <- sread 2 ;;
    cb <- sread 2 ;;
    if le_dec lb =? 0 then (s_send_ack ;;; mraise XAbort) else
    data <- sread (le_dec lb) ;;
    s_send_ack ;;;
    if negb (le_dec cb =? frame_crc (snd hf) data) then mraise XConn else
    if snd hf =? FP_CMD then parse_rx data else mret (RxData data).

  Definition s_write_data (allow_abort : bool) (data : list N) : M senv unit :=
    f <- mlift (create_frame FP_DATA data) ;; s_send_frame f true.
  Definition s_write_command (pkt : list N) : M senv unit :=
    f <- mlift (create_frame FP_CMD pkt) ;; s_send_frame f true.

  Definition serial_iface : iface senv :=
    mkIface senv s_write_command s_write_data s_read false (fun e => length (se_in e)).
End Serial.

(* ------------------------------------------------------------------ USB-HID transport: MbootBulkProtocol over a report device *)
Section Hid.
  Variable D : Type.
  Variable dev_recv : D -> list N -> D * list (list N).     (* reports the device queues when the host writes w *)

  Record henv : Type := mkHenv {
    he_dev : D;
    he_in : list (list N);        (* queued reports *)
    he_out : list (list N);
    he_cons : list (list N) }.

  (* UsbDevice.read(1024): the next report; no report (or an empty one) = SPSDKTimeoutError *)
  Definition hread : M henv (list N) := fun e =>
    match he_in e with
    | [] => (RExn XTimeout, e)
    | r :: q => match firstnN 1024 r with
                | [] => (RExn XTimeout, mkHenv (he_dev e) q (he_out e) (he_cons e))
                | d => (ROk d, mkHenv (he_dev e) q (he_out e) (d :: he_cons e))
                end
    end.
  Definition hwrite (w : list N) : M henv unit := fun e =>
    let '(d', r) := dev_recv (he_dev e) w in
    (ROk tt, mkHenv d' (he_in e ++ r) (w :: he_out e) (he_cons e)).

  (* MbootBulkProtocol._parse_frame: a report shorter than its header, or than the length its header announces, is a
     connection error; unpack_from("<2BH", raw); data = raw[4 : 4 + plen] *)
  Definition h_parse_frame (raw : list N) : M henv rx :=
    if nlen raw <? 4 then mraise XConn else
    let rid := nth 0 raw 0 in
    let plen := le_dec (firstn 2 (skipn 2 raw)) in
    if plen =? 0 then mraise XAbort else
    if nlen raw <? 4 + plen then mraise XConn else
    let data := firstnN plen (skipn 4 raw) in
    if rid =? RID_CMD_IN then parse_rx data else mret (RxData data).
  Definition h_read : M henv rx := raw <- hread ;; h_parse_frame raw.

  Definition h_write_data (allow_abort : bool) (data : list N) : M henv unit :=
    f <- mlift (create_report RID_DATA_OUT data) ;;
    (if allow_abort then
       (fun e => match hread e with
                 | (ROk _, e') => (RExn XAbort, e')          (* abort data arrived *)
                 | (RExn XTimeout, e') => (ROk tt, e')
                 | (RExn _, e') => (RExn XConn, e')
                 end)
     else mret tt) ;;;
    hwrite f.
  Definition h_write_command (pkt : list N) : M henv unit :=
    f <- mlift (create_report RID_CMD_OUT pkt) ;; hwrite f.

  Definition hid_iface : iface henv :=
    mkIface henv h_write_command h_write_data h_read true (fun e => length (he_in e)).
End Hid.

(* ------------------------------------------------------------------ McuBoot *)
Inductive apival : Type := AVNone | AVBool (b : bool) | AVBytes (l : list N) | AVInts (l : list N) | AVInt (n : N).
Inductive call : Type := Call (op : N) (ints : list N) (bytes : list N).

Section McuBoot.
  Variable E : Type.
  Variable I : iface E.
  Variable ce : bool.                 (* cmd_exception *)

  Record mbs : Type := mkMbs { mb_status : N; mb_mps : option N; mb_env : E }.
  Definition set_env (s : mbs) (e : E) : mbs := mkMbs (mb_status s) (mb_mps s) e.
  Definition set_status (s : mbs) (st : N) : mbs := mkMbs st (mb_mps s) (mb_env s).
  Definition set_mps (s : mbs) (m : N) : mbs := mkMbs (mb_status s) (Some m) (mb_env s).
  Definition put_status (st : N) : M mbs unit := fun s => (ROk tt, set_status s st).
  Definition get_status : M mbs N := fun s => (ROk (mb_status s), s).
  Definition lift {A} (m : M E A) : M mbs A := fun s => let '(r, e') := m (mb_env s) in (r, set_env s e').

  (* the tail of _process_cmd / _send_data once a response object exists *)
  Definition finish_cmd (rs : resp) : M mbs resp := fun s =>
    let s' := set_status s (r_status rs) in
    if ce && negb (r_status rs =? SC_SUCCESS) then (RExn (XCmd (r_status rs)), s') else (ROk rs, s').

  Definition process_cmd (p : cmdpkt) : M mbs resp := fun s =>
    let '(r, s1) := lift (b <- mlift (pkt_bytes p) ;; i_write_command I b ;;; i_read I) s in
    match r with
    | RExn XTimeout => finish_cmd (no_response (pkt_tag p)) (set_status s1 SC_NO_RESPONSE)
    | RExn x => (RExn x, s1)
    | ROk (RxData _) => (RExn XConn, s1)        (* a data packet where a response is expected *)
    | ROk (RxResp rs) => finish_cmd rs s1
    end.

  (* the receive loop of _read_data; acc = received data chunks, newest first *)
  Fixpoint read_data_loop (tag : N) (fuel : nat) (acc : list (list N)) : M mbs (list N * resp) :=
    match fuel with
    | O => mraise XHang
    | S f =>
        let handle (v : rx) : M mbs (list N * resp) :=
          match v with
          | RxData d => read_data_loop tag f (d :: acc)
          | RxResp rs =>
              if r_cls rs =? 1 then
                (put_status (r_status rs) ;;;
                 if r_second rs =? tag then mret (concat (rev acc), rs) else read_data_loop tag f acc)
              else read_data_loop tag f acc
          end in
        fun s =>
          let '(r, s1) := lift (i_read I) s in
          match r with
          | RExn XAbort => (v <- lift (i_read I) ;; handle v) s1
          | RExn XTimeout => (ROk (concat (rev acc), no_response tag), set_status s1 SC_NO_RESPONSE)
          | RExn x => (RExn x, s1)
          | ROk v => handle v s1
          end
    end.

  Definition read_data (fuel : nat) (tag length : N) : M mbs (list N) :=
    dr <- read_data_loop tag fuel [] ;;
    st <- get_status ;;
    if (nlen (fst dr) <? length) || negb (st =? SC_SUCCESS) then
      (* fewer bytes than announced never leaves status SUCCESS *)
      let st' := if st =? SC_SUCCESS then SC_FAIL else st in
      put_status st' ;;;
      if ce then mraise (XCmd st') else mret (firstnN length (fst dr))
    else mret (firstnN length (fst dr)).

  Fixpoint write_chunks (abort : bool) (chunks : list (list N)) : M E unit :=
    match chunks with
    | [] => mret tt
    | c :: t => i_write_data I abort c ;;; write_chunks abort t
    end.

  (* _send_data(cmd_tag, chunks); `abort` is enable_data_abort *)
  Definition send_data (abort : bool) (tag : N) (chunks : list (list N)) : M mbs bool :=
    let expect := negb (tag =? CT_NO_COMMAND) in
    let got (all_sent : bool) (v : rx) : M mbs bool :=
      match v with
      | RxData _ => mraise XConn
      | RxResp rs => put_status (r_status rs) ;;;
                     if negb (r_status rs =? SC_SUCCESS) then (if ce then mraise (XCmd (r_status rs)) else mret false)
                     else mret all_sent
      end in
    let on_exn (all_sent : bool) (x : exn) : M mbs bool :=
      match x with
      | XTimeout => put_status SC_NO_RESPONSE ;;; mraise XConn
      | _ => if is_spsdk_error x then
               (if expect then (v <- lift (i_read I) ;; got all_sent v)
                else (put_status SC_SENDING_OPERATION_CONDITION_ERROR ;;; mret all_sent))
             else mraise x
      end in
    fun s =>
      let '(r, s1) := lift (write_chunks abort chunks) s in
      match r with
      | RExn x => on_exn false x s1
      | ROk _ =>
          if expect then
            (let '(r2, s2) := lift (i_read I) s1 in
             match r2 with RExn x => on_exn true x s2 | ROk v => got true v s2 end)
          else (ROk true, s1)
      end.

  Definition get_property (tag index : N) : M mbs (option (list N)) :=
    rs <- process_cmd (pkt_get_property tag index) ;;
    if r_status rs =? SC_SUCCESS then (if r_cls rs =? 2 then mret (Some (r_values rs)) else mraise XMboot)
    else mret None.

  Definition get_max_packet_size : M mbs N := fun s =>
    match mb_mps s with
    | Some m => (ROk m, s)
    | None =>
        let '(r, s1) := get_property PT_MAX_PACKET_SIZE 0 s in
        let use (v : N) := (ROk v, set_mps s1 v) in
        match r with
        | ROk (Some []) => (RExn (XCrash K_INDEX), s1)
        | ROk (Some (v :: _)) => use v
        | ROk None => use DEFAULT_MAX_PACKET_SIZE
        | RExn x => if is_mcuboot_error x then use DEFAULT_MAX_PACKET_SIZE else (RExn x, s1)
        end
    end.

  Definition split_data (data : list N) : M mbs (list (list N)) :=
    if NEED_DATA_SPLIT then
      (m <- get_max_packet_size ;; if m =? 0 then mraise (XCrash K_VALUE) else mret (chunksN m data))
    else mret [data].

  Definition is_success (rs : resp) : bool := r_status rs =? SC_SUCCESS.

  Definition simple (p : cmdpkt) : M mbs apival := rs <- process_cmd p ;; mret (AVBool (is_success rs)).
  (* command, then an outgoing data phase *)
  Definition cmd_data_out (abort : bool) (p : cmdpkt) (data : list N) : M mbs apival :=
    ch <- split_data data ;;
    rs <- process_cmd p ;;
    if is_success rs then (b <- send_data abort (pkt_tag p) ch ;; mret (AVBool b)) else mret (AVBool false).
  (* command, typed response carrying a length, then an incoming data phase *)
  Definition cmd_data_in (fuel : nat) (p : cmdpkt) (cls : N) : M mbs apival :=
    rs <- process_cmd p ;;
    if is_success rs then
      (if r_cls rs =? cls then (d <- read_data fuel (pkt_tag p) (r_second rs) ;; mret (AVBytes d))
       else mraise XMboot)
    else mret AVNone.

  (* read_memory through the USB work-around: one command per max-packet-size block *)
  Fixpoint read_usb_loop (fuel : nat) (address mem_id ps remainder packets idx : N) (acc : list N) : M mbs apival :=
    match fuel with
    | O => mraise XHang
    | S f =>
        if packets <=? idx then mret (AVBytes acc) else
        let data_len := if (idx =? packets - 1) && negb (remainder =? 0) then remainder else ps in
        rs <- process_cmd (CT_READ_MEMORY, CF_NONE, [address + idx * ps; data_len; mem_id]) ;;
        if is_success rs then
          (d <- read_data (S fuel) CT_READ_MEMORY data_len ;;
           st <- get_status ;;
           if negb (st =? SC_SUCCESS) then mret (AVBytes (acc ++ d))
           else read_usb_loop f address mem_id ps remainder packets (idx + 1) (acc ++ d))
        else mret (AVBytes [])
    end.
  Definition read_memory (fuel : nat) (address length mem_id : N) (fast_mode : bool) : M mbs apival :=
    if i_usb I && negb fast_mode then
      (ps <- get_max_packet_size ;;
       if ps =? 0 then mraise (XCrash K_ZERODIV) else
       let remainder := length mod ps in
       let packets := length / ps + (if remainder =? 0 then 0 else 1) in
       read_usb_loop fuel address (clamp_down_memory_id mem_id) ps remainder packets 0 [])
    else cmd_data_in fuel (pkt_read_memory address length mem_id) 3.

  Definition efuse_read_once (index : N) : M mbs apival :=
    rs <- process_cmd (pkt_efuse_read_once index) ;;
    if is_success rs then
      (if r_cls rs =? 4 then
         match r_values rs with v :: _ => mret (AVInt v) | [] => mraise (XCrash K_INDEX) end
       else mraise XMboot)
    else mret AVNone.

  Definition efuse_program_once (index value : N) (verify : bool) : M mbs apival :=
    rs <- process_cmd (pkt_efuse_program_once index value) ;;
    if negb (is_success rs) then mret (AVBool false) else
    if verify then
      (rv <- efuse_read_once (N.land index 16777215) ;;
       match rv with
       | AVInt v => if N.land v value =? value then mret (AVBool true)
                    else (put_status SC_OTP_VERIFY_FAIL ;;; mret (AVBool false))
       | _ => mret (AVBool false)
       end)
    else mret (AVBool true).

  Definition flash_read_once (index count : N) : M mbs apival :=
    if negb ((count =? 4) || (count =? 8)) then mraise XSpsdk else
    rs <- process_cmd (pkt_flash_read_once index count) ;;
    if is_success rs then (if r_cls rs =? 4 then mret (AVBytes (r_data rs)) else mraise XMboot)
    else mret AVNone.

  (* CmdPacket(tag, flags, *args, data=d): d is zero padded to a multiple of 4 and appended as little-endian words *)
  Definition data_words (d : list N) : list N :=
    let pad := (4 - nlen d mod 4) mod 4 in
    words (N.to_nat ((nlen d + pad) / 4)) (d ++ repeat 0 (N.to_nat pad)).
  Definition flash_program_once (index : N) (data : list N) : M mbs apival :=
    if negb ((nlen data =? 4) || (nlen data =? 8)) then mraise XSpsdk else
    simple (CT_FLASH_PROGRAM_ONCE, CF_NONE, [index; nlen data] ++ data_words data).
  Definition flash_security_disable (key : list N) : M mbs apival :=
    if negb (nlen key =? 8) then mraise XMboot else
    simple (CT_FLASH_SECURITY_DISABLE, CF_NONE, data_words (rev (firstn 4 key) ++ rev (skipn 4 key))).

  Definition load_image (data : list N) : M mbs apival :=
    ch <- split_data data ;;
    put_status SC_SUCCESS ;;;
    b <- send_data false CT_NO_COMMAND ch ;; mret (AVBool b).


  (* op numbers are those of tools/impl/c10_impl.py *)
  Definition api (fuel : nat) (c : call) : M mbs apival :=
    let '(Call op a d) := c in
    let a0 := nth 0 a 0 in let a1 := nth 1 a 0 in let a2 := nth 2 a 0 in let a3 := nth 3 a 0 in
    match op with
    | 1 => simple (pkt_flash_erase_all a0)
    | 2 => simple (pkt_flash_erase_region a0 a1 a2)
    | 3 => read_memory fuel a0 a1 a2 false
    | 34 => read_memory fuel a0 a1 a2 true
    | 4 => cmd_data_out false (pkt_write_memory a0 d a1) d
    | 5 => simple (pkt_fill_memory a0 a1 a2)
    | 6 => flash_security_disable d
    | 7 => (v <- get_property a0 a1 ;; mret (match v with Some l => AVInts l | None => AVNone end))
    | 8 => cmd_data_out (negb (a0 =? 0)) (pkt_receive_sb_file d) d
    | 9 => simple (pkt_execute a0 a1 a2)
    | 10 => simple (pkt_call a0 a1)
    | 12 => simple (pkt_set_property a0 a1)
    | 13 => simple pkt_flash_erase_all_unsecure
    | 14 => efuse_program_once a0 a1 (negb (a2 =? 0))
    | 15 => efuse_read_once a0
    | 16 => flash_read_once a0 a1
    | 17 => flash_program_once a0 d
    | 18 => if negb (a1 mod 4 =? 0) then mraise XMboot else cmd_data_in fuel (pkt_flash_read_resource a0 a1 a2) 5
    | 19 => simple (pkt_configure_memory a0 a1)
    | 20 => simple (pkt_reliable_update a0)
    | 22 => simple pkt_kp_enroll
    | 23 => simple (pkt_kp_set_intrinsic_key a0 a1)
    | 24 => simple (pkt_kp_write_nonvolatile a0)
    | 25 => simple (pkt_kp_read_nonvolatile a0)
    | 26 => cmd_data_out false (pkt_kp_set_user_key a0 d) d
    | 27 => cmd_data_out false (pkt_kp_write_key_store d) d
    | 28 => cmd_data_in fuel pkt_kp_read_key_store 6
    | 29 => load_image d
    | 30 => cmd_data_out false (pkt_fuse_program a0 d a1) d
    | 31 => cmd_data_in fuel (pkt_fuse_read a0 a1 a2) 3
    | 32 => simple (pkt_update_life_cycle a0)
    | 33 => simple (pkt_ele_message a0 a1 a2 a3)
    | _ => mraise (XCrash 98)     (* not an operation of this model *)
    end.

  (* a session: every call is made, whatever the previous ones returned; observed: outcome + status_code *)
  Fixpoint session (fuel : nat) (calls : list call) (s : mbs) : list (result apival * N) * mbs :=
    match calls with
    | [] => ([], s)
    | c :: t => let '(r, s1) := api fuel c s in
                let '(rs, s2) := session fuel t s1 in ((r, mb_status s1) :: rs, s2)
    end.
End McuBoot.

(* ------------------------------------------------------------------ the reference bootloader (SPECIFICATION side) *)
Definition S_OK : N := 0.
Definition S_INVALID_ARG : N := 4.
Definition S_ALIGN : N := 101.
Definition S_UNKNOWN_CMD : N := 10000.
Definition S_RANGE : N := 10200.
Definition S_UNK_PROP : N := 10300.
Definition S_RO_PROP : N := 10301.
Definition WRITABLE_PROPS : list N := [10; 22; 28].

(* kind: 0 write-memory at ph_arg, 1 SB file, 2 user key of type ph_arg, 3 key store *)
Record phase : Type := mkPhase { ph_tag : N; ph_expected : N; ph_buf : list N; ph_kind : N; ph_arg : N; ph_fin : N }.
Record dcore : Type := mkCore {
  dc_base : N; dc_mem : list N; dc_mps : N; dc_props : list (N * list N); dc_fuses : list (N * N);
  dc_keystore : list N; dc_fail_cmd : list (N * N); dc_fail_final : list (N * N);
  dc_sb : list (list N); dc_images : list N; dc_userkeys : list (N * list N);
  dc_phase : option phase;
  dc_cmds : list (N * N * list N) }.     (* every command packet received, newest first *)

Definition response (tag : N) (params : list N) : list N := tag :: 0 :: 0 :: nlen params :: u32s (map (fun p => p mod 4294967296) params).
Definition generic (status tag : N) : list N := response RT_GENERIC [status; tag].
Definition in_range (c : dcore) (a n : N) : bool := (dc_base c <=? a) && (a + n <=? dc_base c + nlen (dc_mem c)).
Definition mem_put (c : dcore) (a : N) (new : list N) : list N :=
  let o := a - dc_base c in firstnN o (dc_mem c) ++ new ++ skipnN (o + nlen new) (dc_mem c).
Definition mem_get (c : dcore) (a n : N) : list N := firstnN n (skipnN (a - dc_base c) (dc_mem c)).

Definition upd_core (c : dcore) (mem : list N) (props : list (N * list N)) (fuses : list (N * N)) (ph : option phase)
           (cmds : list (N * N * list N)) : dcore :=
  mkCore (dc_base c) mem (dc_mps c) props fuses (dc_keystore c) (dc_fail_cmd c) (dc_fail_final c) (dc_sb c) (dc_images c)
         (dc_userkeys c) ph cmds.

(* one command packet -> new state, first response, data to send with (tag, status) of the final response *)
Definition dev_command (c0 : dcore) (pkt : list N) : dcore * list N * option (list N * (N * N)) :=
  let tag := nth 0 pkt 0 in let flags := nth 1 pkt 0 in let n := nth 3 pkt 0 in
  let params := if 4 + 4 * n <=? nlen pkt then words (N.to_nat n) (skipn 4 pkt) else [] in
  let c := upd_core c0 (dc_mem c0) (dc_props c0) (dc_fuses c0) (dc_phase c0) ((tag, flags, params) :: dc_cmds c0) in
  let p0 := nth 0 params 0 in let p1 := nth 1 params 0 in let p2 := nth 2 params 0 in
  let gen (st : N) := (c, generic st tag, None) in
  let with_mem (m : list N) := (upd_core c m (dc_props c) (dc_fuses c) (dc_phase c) (dc_cmds c), generic S_OK tag, None) in
  let out_phase (expected kind arg fin : N) :=
    (upd_core c (dc_mem c) (dc_props c) (dc_fuses c) (Some (mkPhase tag expected [] kind arg fin)) (dc_cmds c), generic S_OK tag, None) in
  match assoc tag (dc_fail_cmd c) with
  | Some st => gen st
  | None =>
    let fin := assocd tag (dc_fail_final c) S_OK in
    if (tag =? 1) || (tag =? 13) then with_mem (repeat 255 (length (dc_mem c)))
    else if tag =? 2 then (if in_range c p0 p1 then with_mem (mem_put c p0 (repeat 255 (N.to_nat p1))) else gen S_RANGE)
    else if tag =? 3 then (if in_range c p0 p1 then (c, response RT_READ_MEMORY [S_OK; p1], Some (mem_get c p0 p1, (tag, fin))) else gen S_RANGE)
    else if tag =? 4 then (if in_range c p0 p1 then out_phase p1 0 p0 fin else gen S_RANGE)
    else if tag =? 5 then
      (if negb ((p0 mod 4 =? 0) && (p1 mod 4 =? 0)) then gen S_ALIGN
       else if in_range c p0 p1 then with_mem (mem_put c p0 (flat_map (fun _ => le_enc 4 p2) (repeat tt (N.to_nat (p1 / 4))))) else gen S_RANGE)
    else if tag =? 7 then
      match assoc p0 (dc_props c) with
      | Some vals => (c, response RT_GET_PROPERTY (S_OK :: vals), None)
      | None => (c, response RT_GET_PROPERTY [S_UNK_PROP], None)
      end
    else if tag =? 12 then
      match assoc p0 (dc_props c) with
      | None => gen S_UNK_PROP
      | Some _ => if memb p0 WRITABLE_PROPS
                  then (upd_core c (dc_mem c) (aset p0 [p1] (dc_props c)) (dc_fuses c) (dc_phase c) (dc_cmds c), generic S_OK tag, None)
                  else gen S_RO_PROP
      end
    else if tag =? 8 then out_phase p0 1 0 fin
    else if tag =? 14 then
      (if negb (((p1 =? 4) || (p1 =? 8)) && (n =? 2 + p1 / 4)) then gen S_INVALID_ARG
       else let f1 := aset p0 (N.lor (assocd p0 (dc_fuses c) 0) p2) (dc_fuses c) in
            let f2 := if p1 =? 8 then aset (p0 + 1) (N.lor (assocd (p0 + 1) f1 0) (nth 3 params 0)) f1 else f1 in
            (upd_core c (dc_mem c) (dc_props c) f2 (dc_phase c) (dc_cmds c), generic S_OK tag, None))
    else if tag =? 15 then
      (if negb ((p1 =? 4) || (p1 =? 8)) then (c, response RT_FLASH_READ_ONCE [S_INVALID_ARG; 0], None)
       else let vals := assocd p0 (dc_fuses c) 0 :: (if p1 =? 8 then [assocd (p0 + 1) (dc_fuses c) 0] else []) in
            (c, response RT_FLASH_READ_ONCE (S_OK :: p1 :: vals), None))
    else if tag =? 16 then
      (if negb (p1 mod 4 =? 0) || negb (in_range c p0 p1) then gen S_RANGE
       else (c, response RT_FLASH_READ_RESOURCE [S_OK; p1], Some (mem_get c p0 p1, (tag, fin))))
    else if tag =? 21 then
      (if memb p0 [0; 2; 3; 4] then gen S_OK
       else if p0 =? 1 then out_phase p2 2 p1 fin
       else if p0 =? 5 then out_phase p2 3 0 fin
       else if p0 =? 6 then (c, response RT_KEY_PROVISIONING_RESPONSE [S_OK; nlen (dc_keystore c)], Some (dc_keystore c, (tag, fin)))
       else gen S_INVALID_ARG)
    else if memb tag [6; 9; 10; 17; 18; 24; 25] then gen S_OK
    else gen S_UNKNOWN_CMD
  end.

(* completion of an outgoing data phase *)
Definition phase_done (c : dcore) (ph : phase) : dcore :=
  let buf := firstnN (ph_expected ph) (ph_buf ph) in
  let c1 := mkCore (dc_base c) (dc_mem c) (dc_mps c) (dc_props c) (dc_fuses c) (dc_keystore c) (dc_fail_cmd c) (dc_fail_final c)
                   (dc_sb c) (dc_images c) (dc_userkeys c) None (dc_cmds c) in
  if negb (ph_fin ph =? S_OK) then c1 else
  if ph_kind ph =? 0 then upd_core c1 (mem_put c1 (ph_arg ph) buf) (dc_props c1) (dc_fuses c1) None (dc_cmds c1)
  else if ph_kind ph =? 1 then
    mkCore (dc_base c1) (dc_mem c1) (dc_mps c1) (dc_props c1) (dc_fuses c1) (dc_keystore c1) (dc_fail_cmd c1) (dc_fail_final c1)
           (dc_sb c1 ++ [buf]) (dc_images c1) (dc_userkeys c1) None (dc_cmds c1)
  else if ph_kind ph =? 2 then
    mkCore (dc_base c1) (dc_mem c1) (dc_mps c1) (dc_props c1) (dc_fuses c1) (dc_keystore c1) (dc_fail_cmd c1) (dc_fail_final c1)
           (dc_sb c1) (dc_images c1) (dc_userkeys c1 ++ [(ph_arg ph, buf)]) None (dc_cmds c1)
  else
    mkCore (dc_base c1) (dc_mem c1) (dc_mps c1) (dc_props c1) (dc_fuses c1) buf (dc_fail_cmd c1) (dc_fail_final c1)
           (dc_sb c1) (dc_images c1) (dc_userkeys c1) None (dc_cmds c1).

(* a data packet from the host: new state and the final response when the phase completes *)
Definition dev_data_out (c : dcore) (chunk : list N) : dcore * option (list N) :=
  match dc_phase c with
  | None => (mkCore (dc_base c) (dc_mem c) (dc_mps c) (dc_props c) (dc_fuses c) (dc_keystore c) (dc_fail_cmd c) (dc_fail_final c)
                    (dc_sb c) (dc_images c ++ chunk) (dc_userkeys c) None (dc_cmds c), None)
  | Some ph =>
      let ph' := mkPhase (ph_tag ph) (ph_expected ph) (ph_buf ph ++ chunk) (ph_kind ph) (ph_arg ph) (ph_fin ph) in
      if ph_expected ph <=? nlen (ph_buf ph') then (phase_done c ph', Some (generic (ph_fin ph) (ph_tag ph)))
      else (upd_core c (dc_mem c) (dc_props c) (dc_fuses c) (Some ph') (dc_cmds c), None)
  end.
(* an outgoing data phase of zero bytes completes at once *)
Definition dev_zero_phase (c : dcore) : dcore * option (list N) :=
  match dc_phase c with
  | Some ph => if ph_expected ph =? 0 then (phase_done c ph, Some (generic (ph_fin ph) (ph_tag ph))) else (c, None)
  | None => (c, None)
  end.

(* UART framing around the core: one frame in flight, the next one is released by the host's ACK *)
Record sdev : Type := mkSdev { sd_core : dcore; sd_queue : list (list N) }.
Definition ACK_BYTES : list N := [FRAME_START_BYTE; FP_ACK].
Definition NAK_BYTES : list N := [FRAME_START_BYTE; FP_NACK].
Definition sdev_recv (d : sdev) (w : list N) : sdev * list N :=
  if eqb_list w ACK_BYTES then
    match sd_queue d with [] => (d, []) | f :: q => (mkSdev (sd_core d) q, f) end
  else
  let ftype := nth 1 w 0 in
  let payload := skipn 6 w in
  if (nlen w <? 6) || negb (nth 0 w 0 =? FRAME_START_BYTE) || negb ((ftype =? FP_CMD) || (ftype =? FP_DATA)) then (d, NAK_BYTES) else
  if negb (le_dec (firstn 2 (skipn 2 w)) =? nlen payload) || (nlen payload =? 0)
     || negb (le_dec (firstn 2 (skipn 4 w)) =? frame_crc ftype payload) then (d, NAK_BYTES) else
  if ftype =? FP_CMD then
    let '(c1, first, din) := dev_command (sd_core d) payload in
    let '(c2, zfin) := dev_zero_phase c1 in
    let q1 := match zfin with Some r => [mk_frame FP_CMD r] | None => [] end in
    let q2 := match din with
              | Some (data, (tag, fin)) => map (mk_frame FP_DATA) (chunksN (dc_mps c2) data) ++ [mk_frame FP_CMD (generic fin tag)]
              | None => []
              end in
    (mkSdev c2 (q1 ++ q2), ACK_BYTES ++ mk_frame FP_CMD first)
  else
    let '(c1, fin) := dev_data_out (sd_core d) payload in
    (mkSdev c1 (sd_queue d), ACK_BYTES ++ match fin with Some r => mk_frame FP_CMD r | None => [] end).

(* USB-HID framing around the core *)
Definition hdev_recv (c : dcore) (w : list N) : dcore * list (list N) :=
  if nlen w <? 4 then (c, []) else
  let rid := nth 0 w 0 in
  let payload := firstnN (le_dec (firstn 2 (skipn 2 w))) (skipn 4 w) in
  if rid =? RID_CMD_OUT then
    let '(c1, first, din) := dev_command c payload in
    let '(c2, zfin) := dev_zero_phase c1 in
    let q1 := match zfin with Some r => [mk_report RID_CMD_IN r] | None => [] end in
    let q2 := match din with
              | Some (data, (tag, fin)) => map (mk_report RID_DATA_IN) (chunksN (dc_mps c2) data) ++ [mk_report RID_CMD_IN (generic fin tag)]
              | None => []
              end in
    (c2, mk_report RID_CMD_IN first :: q1 ++ q2)
  else if rid =? RID_DATA_OUT then
    let '(c1, fin) := dev_data_out c payload in
    (c1, match fin with Some r => [mk_report RID_CMD_IN r] | None => [] end)
  else (c, []).

(* the device that never answers: the input is then an arbitrary, fixed device->host stream *)
Definition null_recv (d : unit) (w : list N) : unit * list N := (tt, []).
Definition null_hrecv (d : unit) (w : list N) : unit * list (list N) := (tt, []).

(* ------------------------------------------------------------------ run_case for the correspondence check *)
Definition vexn (x : exn) : list value :=
  match x with
  | XTimeout => [VInt 1; VInt 0] | XConn => [VInt 2; VInt 0] | XAbort => [VInt 3; VInt 0]
  | XCmd st => [VInt 4; VInt (Z.of_N st)] | XMboot => [VInt 5; VInt 0] | XSpsdk => [VInt 6; VInt 0]
  | XCrash k => [VInt (Z.of_N k); VInt 0] | XHang => [VInt 99; VInt 0]
  end.
Definition vints (l : list N) : value := VList (map vN l).
Definition vapival (v : apival) : value :=
  match v with
  | AVNone => VList [] | AVBool b => vbool b | AVBytes l => VBytes l | AVInts l => vints l | AVInt n => vN n
  end.
Definition voutcome (o : result apival * N) : value :=
  match o with
  | (ROk v, st) => VList [VInt 0; vapival v; vN st]
  | (RExn x, st) => VList (vexn x ++ [vN st])
  end.

Definition as_N (v : value) : N := match v with VInt z => Z.to_N z | _ => 0 end.
Definition as_bytes (v : value) : list N := match v with VBytes l => l | _ => [] end.
Definition as_list (v : value) : list value := match v with VList l => l | _ => [] end.
(* big test data is generated from a seed on both sides and compared by length + polynomial hash (printing and
   parsing 64 KiB literals costs minutes) *)
Fixpoint gen_bytes_loop (n : nat) (x : N) : list N :=
  match n with
  | O => []
  | S k => let x' := N.land (x * 25173 + 13849) 65535 in N.shiftr x' 8 :: gen_bytes_loop k x'
  end.
Definition gen_bytes (seed n : N) : list N := gen_bytes_loop (N.to_nat n) seed.
(* Fletcher style position-sensitive checksum with power-of-two moduli (cheap in binary N) *)
Definition hashN (l : list N) : N :=
  let '(a, b) := fold_left (fun (h : N * N) x => let a := N.land (fst h + x + 1) 4294967295 in (a, N.land (snd h + a) 4294967295)) l (7, 0) in
  a + 4294967296 * b.
Definition vdig (l : list N) : value := VList [vN (nlen l); vN (hashN l)].
Definition as_data (v : value) : list N :=
  match v with VBytes l => l | VList [VInt seed; VInt n] => gen_bytes (Z.to_N seed) (Z.to_N n) | _ => [] end.
Definition as_call (v : value) : call :=
  match v with
  | VList [VInt op; VList ints; d] => Call (Z.to_N op) (map as_N ints) (as_data d)
  | _ => Call 0 [] []
  end.
Definition as_pairs (v : value) : list (N * N) :=
  map (fun p => match p with VList [a; b] => (as_N a, as_N b) | _ => (0, 0) end) (as_list v).
Definition as_core (v : value) : dcore :=
  match v with
  | VList [base; mem; mps; props; fuses; keystore; fail_cmd; fail_final] =>
      mkCore (as_N base) (as_data mem) (as_N mps)
             (map (fun p => match p with VList [k; VList vs] => (as_N k, map as_N vs) | _ => (0, []) end) (as_list props))
             (as_pairs fuses) (as_bytes keystore) (as_pairs fail_cmd) (as_pairs fail_final) [] [] [] None []
  | _ => mkCore 0 [] 0 [] [] [] [] [] [] [] [] None []
  end.
Definition vcore (c : dcore) : value :=
  VList [VBytes (dc_mem c);
         VList (map (fun p => VList [vN (fst p); vints (snd p)]) (dc_props c));
         VList (map (fun p => VList [vN (fst p); vN (snd p)]) (dc_fuses c));
         VBytes (dc_keystore c); VList (map VBytes (dc_sb c)); VBytes (dc_images c);
         VList (map (fun p => VList [vN (fst p); VBytes (snd p)]) (dc_userkeys c));
         VList (map (fun p => VList [vN (fst (fst p)); vN (snd (fst p)); vints (snd p)]) (rev (dc_cmds c)))].
Definition vcore_dig (c : dcore) : value :=
  match vcore c with
  | VList (_ :: t) => VList (vdig (dc_mem c) :: t)
  | v => v
  end.
Definition voutcome_dig (o : result apival * N) : value :=
  match o with
  | (ROk (AVBytes l), st) => VList [VInt 0; vdig l; vN st]
  | _ => voutcome o
  end.
Definition as_mps (v : value) : option N := match v with VList [m] => Some (as_N m) | _ => None end.
Definition vmps (m : option N) : value := match m with Some x => VList [vN x] | None => VList [] end.

Definition run_serial {D} (recv : D -> list N -> D * list N) (fuel : nat) (ce : bool) (mps : option N) (d : D) (stream : list N)
           (calls : list value) :=
  session (senv D) (serial_iface D recv) ce fuel (map as_call calls)
          (mkMbs (senv D) SC_SUCCESS mps (mkSenv D d stream [] [])).
Definition run_hid {D} (recv : D -> list N -> D * list (list N)) (fuel : nat) (ce : bool) (mps : option N) (d : D)
           (reports : list (list N)) (calls : list value) :=
  session (henv D) (hid_iface D recv) ce fuel (map as_call calls)
          (mkMbs (henv D) SC_SUCCESS mps (mkHenv D d reports [] [])).

Definition zb (v : value) : bool := negb (as_N v =? 0).
Definition LIVE_FUEL : nat := N.to_nat 70000.

Definition run_case (fn : Z) (args : list value) : value :=
  match fn, args with
  (* scripted serial stream *)
  | 1%Z, [ce; mps; VBytes stream; VList calls] =>
      let '(rs, s) := run_serial null_recv (S (S (length stream))) (zb ce) (as_mps mps) tt stream calls in
      VList [VList (map voutcome rs); VList (map VBytes (rev (se_out unit (mb_env _ s)))); vnat (length (se_in unit (mb_env _ s)));
             vmps (mb_mps _ s)]
  (* live serial device *)
  | 2%Z, [ce; mps; core; VList calls] =>
      let '(rs, s) := run_serial sdev_recv LIVE_FUEL (zb ce) (as_mps mps) (mkSdev (as_core core) []) [] calls in
      let e := mb_env _ s in
      VList [VList (map voutcome rs); VList (map VBytes (rev (se_out sdev e))); VBytes (concat (rev (se_cons sdev e)));
             vmps (mb_mps _ s); vcore (sd_core (se_dev sdev e)); vnat (length (se_in sdev e))]
  (* scripted HID reports *)
  | 3%Z, [ce; mps; VList reports; VList calls] =>
      let '(rs, s) := run_hid null_hrecv (S (S (length reports))) (zb ce) (as_mps mps) tt (map as_bytes reports) calls in
      VList [VList (map voutcome rs); VList (map VBytes (rev (he_out unit (mb_env _ s)))); vnat (length (he_in unit (mb_env _ s)));
             vmps (mb_mps _ s)]
  (* live HID device *)
  | 4%Z, [ce; mps; core; VList calls] =>
      let '(rs, s) := run_hid hdev_recv LIVE_FUEL (zb ce) (as_mps mps) (as_core core) [] calls in
      let e := mb_env _ s in
      VList [VList (map voutcome rs); VList (map VBytes (rev (he_out dcore e))); VList (map VBytes (rev (he_cons dcore e)));
             vmps (mb_mps _ s); vcore (he_dev dcore e); vnat (length (he_in dcore e))]
  (* live devices, large data: byte strings are reported as (length, hash) *)
  | 5%Z, [ce; mps; core; VList calls] =>
      let '(rs, s) := run_serial sdev_recv LIVE_FUEL (zb ce) (as_mps mps) (mkSdev (as_core core) []) [] calls in
      let e := mb_env _ s in
      VList [VList (map voutcome_dig rs); VList (map vdig (rev (se_out sdev e))); vdig (concat (rev (se_cons sdev e)));
             vmps (mb_mps _ s); vcore_dig (sd_core (se_dev sdev e)); vnat (length (se_in sdev e))]
  | 6%Z, [ce; mps; core; VList calls] =>
      let '(rs, s) := run_hid hdev_recv LIVE_FUEL (zb ce) (as_mps mps) (as_core core) [] calls in
      let e := mb_env _ s in
      VList [VList (map voutcome_dig rs); VList (map vdig (rev (he_out dcore e))); VList (map vdig (rev (he_cons dcore e)));
             vmps (mb_mps _ s); vcore_dig (he_dev dcore e); vnat (length (he_in dcore e))]
  (* codec units *)
  | 10%Z, [VBytes d] => vN (crc16 d)
  | 11%Z, [VInt t; VBytes d] => match create_frame (Z.to_N t) d with ROk f => VBytes f | RExn x => VList (vexn x) end
  | 12%Z, [VInt t; VBytes d] => match create_report (Z.to_N t) d with ROk f => VBytes f | RExn x => VList (vexn x) end
  | 13%Z, [VBytes d] =>
      match parse_cmd_response d with
      | ROk r => VList [vN (r_cls r); vN (r_tag r); vN (r_status r); vN (r_second r); vints (r_values r); VBytes (r_data r)]
      | RExn x => VList (vexn x)
      end
  | _, _ => VErr E_BADCASE
  end.
