(* Model/MbiIoModel.v -- fast literal input / output for the C01 correspondence cases.  Definitions only.
   Byte strings travel as lists of primitive 63-bit integers (7 bytes each, little endian): primitive integer literals are
   parsed and printed natively by coqc, whereas N / Z / string literals of several KiB go through notation functions
   evaluated by the (slow) interpreter.  Nothing in Proofs/ or Props/ depends on this file. *)
From Coq Require Import ZArith NArith List Bool Uint63.
Require Import Value Bytes MbiMixinModel GenMbi MbiModel.
Import ListNotations.

Definition w7 (w : int) : list N := le_enc 7 (Z.to_N (Uint63.to_Z w)).
Definition B (len : Z) (ws : list int) : value := VBytes (firstn (Z.to_nat len) (concat (map w7 ws))).
Definition to_w7 (b : list N) : list int := map (fun ch => Uint63.of_Z (Z.of_N (le_dec ch))) (chunks 7 b).

Inductive cvalue : Type :=
| CInt (z : Z)
| CBytes (len : Z) (ws : list int)
| CList (l : list cvalue)
| CErr (k : N).
Fixpoint compact (v : value) : cvalue :=
  match v with
  | VInt z => CInt z
  | VBytes b => CBytes (zlen b) (to_w7 b)
  | VStr s => CBytes (zlen s) (to_w7 s)
  | VList l => CList (map compact l)
  | VErr k => CErr k
  end.
Definition io_all (fam : Z) (cv xv kv pcv : value) (tzsize sigsz : Z) (dekv : value) : cvalue :=
  compact (run_all fam cv xv kv pcv tzsize sigsz dekv).
Definition io_case (fn : Z) (args : list value) : cvalue := compact (run_case fn args).
