(* Model/HabModel.v -- C07: HAB image as coded in spsdk/image/hab/{hab_container,segments,hab_config}.py,
   spsdk/image/hab/commands/commands.py, spsdk/image/{segments,commands,secret,header}.py.
   Executable definitions only; faithful to the code, defects included.

   Pipeline modelled (HabContainer.load_from_config -> update_csf -> export / export_padding, HabContainer.parse):
     ivt_export / ivt_parse        SegIVT2.export / parse (+ validate)
     bdt_export / bdt_parse        SegBDT
     dcd_parse / dcd_export        SegDCD.parse / export over the commands WRT_DAT, CHK_DAT, NOP, UNLK
     xmcd_parse / xmcd_export      XMCDHeader / SegXMCD (the header export is the code's  a << 4 + b )
     load_cmds                     CsfHabSegment.load_from_config: one CSF command per configuration section
     csf_update / csf_export       SegCSF.update (cmd-data offsets), _export_base, export; CsfHabSegment.export (0x2000)
     signed_blocks / enc_blocks    HabContainer._get_signed_blocks / _get_encrypted_blocks
     hab_build                     load_from_config + update_csf (AES-CCM encryption, block lists written into the
                                   Authenticate Data / Decrypt Data commands) + export
     place / segs_ok               BinaryImage.export of the segment tree; HabContainer.image_info refuses overlapping segments
     hab_parse                     HabContainer.parse incl. the application-offset search of AppHabSegment.parse
     srk_fuses                     SrkTable.export_fuses

   CMS signatures are obligations: the signature blobs are inputs (sig_data, sig_csf), the model emits the byte
   strings that were signed (tbs_data = concatenation of the listed blocks, tbs_csf = CSF header + commands).
   X.509 certificates and the SRK table are opaque byte strings (canonical SRK tables only). *)
From Coq Require Import ZArith NArith List Bool.
Require Import Value Bytes Sha2 Aes Modes.
Import ListNotations.
Local Open Scope Z_scope.

(* ------------------------------------------------------------------ helpers *)
Definition hlen {A} (l : list A) : Z := Z.of_nat (length l).
Definition hle (w : nat) (z : Z) : list N := le_enc w (Z.to_N z).
Definition hbe (w : nat) (z : Z) : list N := be_enc w (Z.to_N z).
Definition hdec_le (l : list N) : Z := Z.of_N (le_dec l).
Definition hdec_be (l : list N) : Z := Z.of_N (be_dec l).
Definition fits (w : nat) (z : Z) : bool := (0 <=? z) && (z <? 2 ^ (8 * Z.of_nat w)).
Definition halign (n a : Z) : Z := (n + (a - 1)) / a * a.
Definition hslice {A} (l : list A) (a b : Z) : list A := slice l (Z.to_nat a) (Z.to_nat b).
Definition hskip {A} (l : list A) (a : Z) : list A := skipn (Z.to_nat a) l.
Definition hzeros (n : Z) : list N := repeat 0%N (Z.to_nat n).
Definition hbyte (l : list N) (i : Z) : Z := Z.of_N (nth (Z.to_nat i) l 0%N).
(* align_block(data, a) with zero padding *)
Definition pad_to (a : Z) (l : list N) : list N := l ++ hzeros (halign (hlen l) a - hlen l).
(* struct.unpack_from(fmt, data, off) needs off + size <= len(data), else struct.error *)
Definition have (l : list N) (off n : Z) : bool := off + n <=? hlen l.
Definition u32le_at (l : list N) (off : Z) : Z := hdec_le (hslice l off (off + 4)).
Definition u32be_at (l : list N) (off : Z) : Z := hdec_be (hslice l off (off + 4)).
Definition u16be_at (l : list N) (off : Z) : Z := hdec_be (hslice l off (off + 2)).
Definition u64be_at (l : list N) (off : Z) : Z := hdec_be (hslice l off (off + 8)).
Definition all_fit (w : nat) (l : list Z) : bool := forallb (fits w) l.

(* header.py Header.export: pack(">BHB", tag, length, param) *)
Definition hdr (tag len par : Z) : list N := hbe 1 tag ++ hbe 2 len ++ hbe 1 par.

(* CsfHabSegment.align_offset *)
Definition align_off (image_len : Z) : Z :=
  let c := image_len + (16 - image_len mod 16) in (c + 4096 - 1) / 4096 * 4096.

(* BootImgRT.aead_nonce_len *)
Definition aead_nonce_len (n : Z) : Z := 16 - 1 - (if n <? 65536 then 2 else if n <? 16777216 then 3 else 4).

(* the harness pins spsdk.crypto.rng.random_bytes(n) to this pattern *)
Fixpoint rng_bytes_from (n : nat) (i : N) : list N :=
  match n with O => [] | S n' => ((i * 7 + 3) mod 256)%N :: rng_bytes_from n' (i + 1)%N end.
Definition rng_bytes (n : Z) : list N := rng_bytes_from (Z.to_nat n) 0%N.

(* ------------------------------------------------------------------ IVT2 / BDT *)
Record ivt := { iv_ver : Z; iv_app : Z; iv_dcd : Z; iv_bdt : Z; iv_self : Z; iv_csf : Z }.

(* SegIVT2.validate; padding is 0 on the build side, bdt - ivt - 32 on the parse side *)
Definition ivt_valid (i : ivt) (padding : Z) : bool :=
  negb ((iv_self i =? 0) || (iv_bdt i =? 0) || (iv_bdt i <? iv_self i))
  && negb (negb (iv_dcd i =? 0) && (iv_dcd i <? iv_self i))
  && negb (negb (iv_csf i =? 0) && (iv_csf i <? iv_self i))
  && negb (0 <? padding).

Definition ivt_words (i : ivt) : list Z := [iv_app i; 0; iv_dcd i; iv_bdt i; iv_self i; iv_csf i; 0].

Definition ivt_export (i : ivt) : res (list N) :=
  if negb (ivt_valid i 0) then Err E_REJECT
  else if negb (all_fit 4 (ivt_words i) && fits 1 (iv_ver i)) then Err E_CRASH
  else Ok (hdr 209 32 (iv_ver i) ++ concat (map (hle 4) (ivt_words i))).

Definition ivt_parse (d : list N) : res ivt :=
  if negb (have d 0 4) then Err E_CRASH
  else if negb (hbyte d 0 =? 209) then Err E_REJECT
  else
    let len := u16be_at d 1 in
    if (len <? 4) then Err E_REJECT                (* Header.__init__: SIZE > length *)
    else if negb (have d 4 28) then Err E_CRASH
    else
      let i := {| iv_ver := hbyte d 3; iv_app := u32le_at d 4; iv_dcd := u32le_at d 12; iv_bdt := u32le_at d 16;
                  iv_self := u32le_at d 20; iv_csf := u32le_at d 24 |} in
      if ivt_valid i (iv_bdt i - iv_self i - 32) then Ok i else Err E_REJECT.

Definition bdt_export (start len plugin : Z) : res (list N) :=
  if all_fit 4 [start; len; plugin] then Ok (hle 4 start ++ hle 4 len ++ hle 4 plugin) else Err E_CRASH.

(* SegBDT.parse(data[offset:]) -> (app_start, app_length, plugin) *)
Definition bdt_parse (d : list N) : res (Z * Z * Z) :=
  if negb (have d 0 12) then Err E_CRASH
  else let p := u32le_at d 8 in
       if (p <=? 2) then Ok (u32le_at d 0, u32le_at d 4, p) else Err E_REJECT.

(* ------------------------------------------------------------------ commands shared by DCD and CSF (image/commands.py) *)
Definition need_uid (eng feat : Z) : bool := (eng =? 33) && negb (Z.land feat 13 =? 0).
Definition engine_known (e : Z) : bool :=
  existsb (Z.eqb e) [0; 3; 5; 6; 10; 12; 27; 29; 30; 33; 34; 54; 36; 255].
Definition alg_known (a : Z) : bool :=
  existsb (Z.eqb a) [0; 1; 2; 3; 4; 5; 6; 7; 17; 23; 27; 33; 39; 85; 102; 113].
Definition certfmt_known (f : Z) : bool := existsb (Z.eqb f) [3; 9; 197; 187; 163].
Definition inskey_flag_known (f : Z) : bool := existsb (Z.eqb f) [0; 1; 2; 4; 8; 16; 32; 64; 128].

(* a parsed command: tag, size the object reports (drives the parse loop), bytes it re-exports,
   and for CSF: cmd-data location / certificate-or-signature format / number of blocks *)
Record pcmd := { pc_tag : Z; pc_size : Z; pc_bytes : list N; pc_par : Z; pc_loc : Z; pc_fmt : Z; pc_fields : list Z }.

Fixpoint pairs_be (fuel : nat) (d : list N) (idx len : Z) : res (list Z) :=
  match fuel with
  | O => Ok []
  | S f => if idx <? len then
             if negb (have d idx 8) then Err E_CRASH
             else bind (pairs_be f d (idx + 8) len) (fun t => Ok (u32be_at d idx :: u32be_at d (idx + 4) :: t))
           else Ok []
  end.

Fixpoint words_be (fuel : nat) (d : list N) (idx len : Z) : res (list Z) :=
  match fuel with
  | O => Ok []
  | S f => if idx <? len then
             if negb (have d idx 4) then (if hlen d <=? idx then Err E_REJECT else Err E_CRASH)
             else bind (words_be f d (idx + 4) len) (fun t => Ok (u32be_at d idx :: t))
           else Ok []
  end.

(* parse_command(data): CmdTag.from_tag(data[0]) then <class>.parse(data) *)
Definition cmd_parse (d : list N) : res pcmd :=
  if negb (have d 0 1) then Err E_CRASH
  else
  let tag := hbyte d 0 in
  if negb (existsb (Z.eqb tag) [177; 190; 202; 204; 207; 192; 180; 178]) then Err E_REJECT
  else if negb (have d 0 4) then Err E_CRASH
  else
  let len := u16be_at d 1 in
  let par := hbyte d 3 in
  if len <? 4 then Err E_REJECT
  else
  let mk sz bytes loc fmt fields :=
      Ok {| pc_tag := tag; pc_size := sz; pc_bytes := bytes; pc_par := par; pc_loc := loc; pc_fmt := fmt; pc_fields := fields |} in
  if tag =? 204 then                                           (* WRT_DAT *)
    let nb := Z.land par 7 in
    let ops := Z.land (Z.shiftr par 3) 3 in
    if negb (existsb (Z.eqb nb) [1; 2; 4]) then Err E_REJECT
    else bind (pairs_be (length d) d 4 len) (fun ws =>
         let sz := 4 + 4 * hlen ws in
         mk sz (hdr 204 sz (Z.lor (Z.shiftl ops 3) nb) ++ concat (map (hbe 4) ws)) (-1) 0 ws)
  else if tag =? 207 then                                      (* CHK_DAT *)
    let nb := Z.land par 7 in
    let ops := Z.land (Z.shiftr par 3) 3 in
    if negb (have d 4 8) then Err E_CRASH
    else
    let has_count := 8 <? len - 4 in
    if has_count && negb (have d 12 4) then Err E_CRASH
    else if negb (existsb (Z.eqb nb) [1; 2; 4]) then Err E_REJECT
    else
    let cnt := u32be_at d 12 in
    let sz := 12 + (if has_count && negb (cnt =? 0) then 4 else 0) in
    mk sz (hdr 207 sz (Z.lor (Z.shiftl ops 3) nb) ++ hbe 4 (u32be_at d 4) ++ hbe 4 (u32be_at d 8)
           ++ (if has_count then hbe 4 cnt else [])) (-1) 0 [u32be_at d 4; u32be_at d 8; (if has_count then cnt else -1)]
  else if tag =? 192 then mk 4 (hdr 192 4 par) (-1) 0 []       (* NOP *)
  else if tag =? 178 then                                      (* UNLK *)
    if negb (have d 4 4) then Err E_CRASH
    else if negb (engine_known par) then Err E_REJECT
    else
    let feat := u32be_at d 4 in
    let nu := need_uid par feat in
    if nu && negb (have d 8 8) then Err E_CRASH
    else
    let sz := if nu then 16 else 8 in
    mk sz (hdr 178 sz par ++ hbe 4 feat ++ (if nu then hbe 8 (u64be_at d 8) else [])) (-1) 0
       [feat; (if nu then u64be_at d 8 else 0)]
  else if tag =? 177 then                                      (* SET *)
    if negb (have d 4 4) then Err E_CRASH
    else if negb (existsb (Z.eqb par) [1; 3]) then Err E_REJECT
    else if negb (alg_known (hbyte d 5)) then Err E_REJECT
    else if negb (engine_known (hbyte d 6)) then Err E_REJECT
    else mk 8 (hdr 177 8 par ++ [0%N] ++ hslice d 5 8) (-1) 0 [hbyte d 5; hbyte d 6; hbyte d 7]
  else if tag =? 180 then                                      (* INIT *)
    if negb (engine_known par) then Err E_REJECT
    else bind (words_be (length d) d 4 len) (fun ws =>
         if existsb (fun w => 4294967295 <=? w) ws then Err E_REJECT
         else let sz := 4 + 4 * hlen ws in mk sz (hdr 180 sz par ++ concat (map (hbe 4) ws)) (-1) 0 ws)
  else if tag =? 190 then                                      (* INS_KEY *)
    if negb (have d 4 8) then Err E_CRASH
    else
    let fmt := hbyte d 4 in let alg := hbyte d 5 in let src := hbyte d 6 in let tgt := hbyte d 7 in
    if negb (inskey_flag_known par && certfmt_known fmt && alg_known alg) then Err E_REJECT
    else if negb (if fmt =? 3 then src <=? 3 else existsb (Z.eqb src) [0; 2; 3; 4; 5]) then Err E_REJECT
    else if negb (tgt <=? 5) then Err E_REJECT
    else mk 12 (hdr 190 12 par ++ hslice d 4 12) (u32be_at d 8) fmt [fmt; alg; src; tgt; u32be_at d 8]
  else                                                         (* AUT_DAT *)
    if negb (have d 4 8) then Err E_CRASH
    else
    let key := hbyte d 4 in let fmt := hbyte d 5 in let eng := hbyte d 6 in
    if negb (existsb (Z.eqb par) [0; 1]) then Err E_REJECT
    else if negb (certfmt_known fmt && engine_known eng) then Err E_REJECT
    else if negb (key <=? 5) then Err E_REJECT
    else bind (pairs_be (length d) d 12 len) (fun ws =>
         let sz := 12 + 4 * hlen ws in
         mk sz (hdr 202 sz par ++ hslice d 4 12 ++ concat (map (hbe 4) ws)) (u32be_at d 8) fmt
            ([key; fmt; eng; hbyte d 7; u32be_at d 8] ++ ws)).

(* the while-index-<-header.length loops of SegDCD.parse / SegCSF.parse *)
Fixpoint cmds_parse (fuel : nat) (d : list N) (idx len : Z) : res (list pcmd) :=
  match fuel with
  | O => Err E_HANG
  | S f => if idx <? len then
             bind (cmd_parse (hskip d idx)) (fun c =>
             bind (cmds_parse f d (idx + pc_size c) len) (fun t => Ok (c :: t)))
           else Ok []
  end.

(* ------------------------------------------------------------------ DCD *)
Definition dcd_tags : list Z := [204; 207; 192; 178].
Record dcd := { dc_par : Z; dc_cmds : list pcmd }.
Definition dcd_size (x : dcd) : Z := 4 + fold_right (fun c a => pc_size c + a) 0 (dc_cmds x).
Definition dcd_export (x : dcd) : list N := hdr 210 (dcd_size x) (dc_par x) ++ concat (map pc_bytes (dc_cmds x)).

Definition dcd_parse (d : list N) : res dcd :=
  if negb (have d 0 4) then Err E_CRASH
  else if negb (hbyte d 0 =? 210) then Err E_REJECT
  else let len := u16be_at d 1 in
       if len <? 4 then Err E_REJECT
       else bind (cmds_parse (S (length d)) d 4 len) (fun cs =>
            if forallb (fun c => existsb (Z.eqb (pc_tag c)) dcd_tags) cs
            then Ok {| dc_par := hbyte d 3; dc_cmds := cs |} else Err E_REJECT).

(* ------------------------------------------------------------------ XMCD *)
Record xmcd := { xm_if : Z; xm_inst : Z; xm_type : Z; xm_cfg : list N }.
Definition xmcd_size (x : xmcd) : Z := 4 + hlen (xm_cfg x).
(* XMCDHeader.parse; None = "tag / version do not match" (SPSDKParsingError) *)
(* (b & 0xF0) >> 4  and  b & 0x0F  of a byte *)
Definition hi4 (b : Z) : Z := (b / 16) mod 16.
Definition lo4 (b : Z) : Z := b mod 16.
Definition xmcd_hdr_parse (d : list N) : res (option (Z * Z * Z * Z)) :=
  if negb (have d 0 4) then Err E_CRASH
  else
    let tv := hbyte d 3 in
    if negb (hi4 tv =? 12) then Ok None
    else if negb (lo4 tv =? 0) then Ok None
    else
      let iface := hi4 (hbyte d 2) in
      let inst := lo4 (hbyte d 2) in
      let typ := hi4 (hbyte d 1) in
      let bsz := lo4 (hbyte d 1) * 256 + hbyte d 0 in
      if negb (iface <=? 1) then Err E_REJECT
      else if negb (typ <=? 1) then Err E_REJECT
      else Ok (Some (iface, inst, typ, bsz)).

(* XMCDHeader.export: pack("<4B", size & 0xFF, (type << 4) + (size >> 8), (interface << 4) + instance, (tag << 4) + version) *)
Definition xmcd_export (x : xmcd) : res (list N) :=
  let bs := xmcd_size x in
  let b1 := xm_type x * 16 + bs / 256 in
  let b2 := xm_if x * 16 + xm_inst x in
  if all_fit 1 [b1; b2] then Ok (hbe 1 (bs mod 256) ++ hbe 1 b1 ++ hbe 1 b2 ++ [192%N] ++ xm_cfg x) else Err E_CRASH.

(* SegXMCD.parse(file) *)
Definition xmcd_load (d : list N) : res xmcd :=
  bind (xmcd_hdr_parse d) (fun o =>
  match o with
  | None => Err E_REJECT
  | Some (iface, inst, typ, bsz) =>
      if negb (bsz =? hlen d) then Err E_REJECT
      else Ok {| xm_if := iface; xm_inst := inst; xm_type := typ; xm_cfg := hslice d 4 bsz |}
  end).

(* ------------------------------------------------------------------ CSF commands on the build side *)
Inductive csec :=
| SInsSrk (src : Z) (table : list N)
| SInsCsfk (fmt : Z) (cert : list N)
| SAuthCsf
| SInsKey (src tgt : Z) (cert : list N)
| SAuthData (key eng cfg : Z)
| SSecretKey (src tgt : Z)
| SDecrypt (key eng cfg : Z)
| SSetEngine (alg eng cfg : Z)
| SUnlock (eng feat uid : Z).

Inductive ccmd :=
| KIns (flags fmt alg src tgt loc : Z) (dat : option (list N))
| KAuth (flags key fmt eng cfg : Z) (blocks : list (Z * Z)) (dat : option (list N))
| KSet (itm alg eng cfg : Z)
| KUnlock (eng feat uid : Z).

Definition certimg (ver : Z) (der : list N) : list N := hdr 215 (4 + hlen der) ver ++ der.
Definition sigimg (ver : Z) (cms : list N) : list N := hdr 216 (4 + hlen cms) ver ++ cms.
Definition macimg (ver : Z) (nonce mac : list N) : list N :=
  hdr 172 (8 + hlen nonce + hlen mac) ver ++ [0%N] ++ hbe 1 (hlen nonce) ++ [0%N] ++ hbe 1 (hlen mac) ++ nonce ++ mac.

Definition in_list (x : Z) (l : list Z) : bool := existsb (Z.eqb x) l.

(* <Sec...>.load_from_config of one section; location of the DEK blob = SecInstallSecretKey.calculate_location *)
Definition load_cmd (ver hdr_engine dek_loc : Z) (s : csec) : res ccmd :=
  match s with
  | SInsSrk src table => if in_list src [0; 1; 2; 3] then Ok (KIns 0 3 23 src 0 0 (Some table)) else Err E_REJECT
  | SInsCsfk fmt cert => if fmt =? 3 then Err E_REJECT else Ok (KIns 2 fmt 0 0 1 0 (Some (certimg ver cert)))
  | SAuthCsf => Ok (KAuth 0 1 197 hdr_engine 0 [] (Some (sigimg ver [])))
  | SInsKey src tgt cert =>
      if in_list src [0; 2; 3; 4; 5] && in_list tgt [0; 1; 2; 3; 4; 5]
      then Ok (KIns 0 9 0 src tgt 0 (Some (certimg ver cert))) else Err E_REJECT
  | SAuthData key eng cfg =>
      if (eng =? 0) && negb (cfg =? 0) then Err E_REJECT
      else if in_list key [0; 2; 3; 4; 5] then Ok (KAuth 0 key 197 eng cfg [] (Some (sigimg ver []))) else Err E_REJECT
  | SSecretKey src tgt =>
      if in_list src [0; 2; 3] && in_list tgt [0; 1; 2; 3; 4; 5]
      then Ok (KIns 1 187 0 src tgt dek_loc None) else Err E_REJECT
  | SDecrypt key eng cfg =>
      if (eng =? 0) && negb (cfg =? 0) then Err E_REJECT
      else if in_list key [0; 1; 2; 3; 4; 5] then Ok (KAuth 0 key 163 eng cfg [] None) else Err E_REJECT
  | SSetEngine alg eng cfg => Ok (KSet 3 alg eng cfg)
  | SUnlock eng feat uid => if in_list eng [29; 30; 33] then Ok (KUnlock eng feat uid) else Err E_REJECT
  end.

Fixpoint load_cmds (ver hdr_engine dek_loc : Z) (l : list csec) : res (list ccmd) :=
  match l with
  | [] => Ok []
  | s :: t => bind (load_cmd ver hdr_engine dek_loc s) (fun c =>
              bind (load_cmds ver hdr_engine dek_loc t) (fun r => Ok (c :: r)))
  end.

Definition cmd_size (c : ccmd) : Z :=
  match c with
  | KIns _ _ _ _ _ _ _ => 12
  | KAuth _ _ _ _ _ blocks _ => 12 + 8 * hlen blocks
  | KSet _ _ _ _ => 8
  | KUnlock e f _ => if need_uid e f then 16 else 8
  end.

Definition is_auth (c : ccmd) : bool := match c with KAuth _ _ _ _ _ _ _ => true | _ => false end.
Definition cmd_dat (c : ccmd) : option (list N) :=
  match c with KIns _ _ _ _ _ _ d => d | KAuth _ _ _ _ _ _ d => d | _ => None end.
Definition needs_ref (c : ccmd) : bool :=
  match c with KIns fl _ _ _ _ _ _ => negb (fl =? 1) | KAuth _ _ _ _ _ _ _ => true | _ => false end.
Definition cmd_loc (c : ccmd) : Z := match c with KIns _ _ _ _ _ loc _ => loc | _ => 0 end.

(* SegCSF.update(True): offsets of the cmd-data sections, in command order, 4-aligned *)
Fixpoint csf_offsets (cur : Z) (l : list ccmd) : list Z :=
  match l with
  | [] => []
  | c :: t => if needs_ref c then
                match cmd_dat c with
                | Some d => cur :: csf_offsets (cur + halign (hlen d) 4) t
                | None => 0 :: csf_offsets cur t
                end
              else cmd_loc c :: csf_offsets cur t
  end.

Definition blocks_bytes (bl : list (Z * Z)) : list N := concat (map (fun b => hbe 4 (fst b) ++ hbe 4 (snd b)) bl).

Definition cmd_export (c : ccmd) (loc : Z) : list N :=
  match c with
  | KIns fl fmt alg src tgt _ _ => hdr 190 12 fl ++ hbe 1 fmt ++ hbe 1 alg ++ hbe 1 src ++ hbe 1 tgt ++ hbe 4 loc
  | KAuth fl key fmt eng cfg bl _ =>
      hdr 202 (cmd_size c) fl ++ hbe 1 key ++ hbe 1 fmt ++ hbe 1 eng ++ hbe 1 cfg ++ hbe 4 loc ++ blocks_bytes bl
  | KSet itm alg eng cfg => hdr 177 8 itm ++ [0%N] ++ hbe 1 alg ++ hbe 1 eng ++ hbe 1 cfg
  | KUnlock e f u => hdr 178 (cmd_size c) e ++ hbe 4 f ++ (if need_uid e f then hbe 8 u else [])
  end.

(* struct.pack range checks of the command fields *)
Definition cmd_packs (c : ccmd) (loc : Z) : bool :=
  match c with
  | KIns _ _ _ _ _ _ _ => fits 4 loc
  | KAuth _ _ _ _ cfg bl _ => fits 1 cfg && fits 4 loc && forallb (fun b => fits 4 (fst b) && fits 4 (snd b)) bl
  | KSet _ alg eng cfg => all_fit 1 [alg; eng; cfg]
  | KUnlock e f u => fits 4 f && fits 8 u
  end.

Definition csf_hlen (l : list ccmd) : Z := 4 + fold_right (fun c a => cmd_size c + a) 0 l.

(* SegCSF._export_base: header + commands *)
Definition csf_base (ver : Z) (l : list ccmd) : list N :=
  let offs := csf_offsets (csf_hlen l) l in
  hdr 212 (csf_hlen l) ver ++ concat (map (fun p => cmd_export (fst p) (snd p)) (combine l offs)).

(* SegCSF.export: base, then every cmd-data section at its offset (extend_block + append) *)
Fixpoint csf_data (acc : list N) (l : list (ccmd * Z)) : res (list N) :=
  match l with
  | [] => Ok acc
  | (c, off) :: t =>
      if needs_ref c then
        match cmd_dat c with
        | Some d => if off <? hlen acc then Err E_REJECT
                    else csf_data (acc ++ hzeros (off - hlen acc) ++ d) t
        | None => csf_data acc t
        end
      else csf_data acc t
  end.

Definition csf_export_raw (ver : Z) (l : list ccmd) : res (list N) :=
  let offs := csf_offsets (csf_hlen l) l in
  if negb (forallb (fun p => cmd_packs (fst p) (snd p)) (combine l offs)) then Err E_CRASH
  else if negb (fits 2 (csf_hlen l)) then Err E_CRASH
  else csf_data (csf_base ver l) (combine l offs).

(* CsfHabSegment.export: align_block(segment.export(), 0x2000) *)
Definition csf_export (ver : Z) (l : list ccmd) : res (list N) := res_map (pad_to 8192) (csf_export_raw ver l).

(* update the n-th CmdAuthData (0 = Authenticate CSF, 1 = Authenticate Data, 2 = Decrypt Data) *)
Fixpoint upd_auth (n : nat) (f : ccmd -> ccmd) (l : list ccmd) : option (list ccmd) :=
  match l with
  | [] => None
  | c :: t => if is_auth c then
                match n with
                | O => Some (f c :: t)
                | S n' => option_map (cons c) (upd_auth n' f t)
                end
              else option_map (cons c) (upd_auth n f t)
  end.
(* CmdAuthData.clear() then append(...) for every block; the signature / MAC object is replaced when one is given *)
Definition set_blocks (bl : list (Z * Z)) (d : option (list N)) (c : ccmd) : ccmd :=
  match c with
  | KAuth fl key fmt eng cfg _ d0 => KAuth fl key fmt eng cfg bl (match d with Some _ => d | None => d0 end)
  | _ => c
  end.

(* ------------------------------------------------------------------ BinaryImage tree export *)
Definition seg := (Z * list N)%type.
Fixpoint ins_seg (s : seg) (l : list seg) : list seg :=
  match l with
  | [] => [s]
  | c :: t => if fst s <? fst c then s :: c :: t else c :: ins_seg s t
  end.
Definition sort_segs (l : list seg) : list seg := fold_left (fun acc s => ins_seg s acc) l [].
Definition segs_len (l : list seg) : Z := fold_right (fun s a => Z.max (fst s + hlen (snd s)) a) 0 l.
Definition write_seg (buf : list N) (s : seg) : list N := splice buf (Z.to_nat (fst s)) (snd s).
Definition place (l : list seg) : list N := fold_left write_seg (sort_segs l) (hzeros (segs_len l)).

(* HabContainer.image_info: a non-empty segment that intersects an earlier segment's range is refused (SPSDKError) *)
Definition ovl_any (occ : list (Z * Z)) (o e : Z) : bool := existsb (fun r => (o <? snd r) && (fst r <? e)) occ.
Fixpoint segs_ok (occ : list (Z * Z)) (l : list seg) : bool :=
  match l with
  | [] => true
  | s :: t => negb ((0 <? hlen (snd s)) && ovl_any occ (fst s) (fst s + hlen (snd s)))
              && segs_ok (occ ++ [(fst s, fst s + hlen (snd s))]) t
  end.

(* ------------------------------------------------------------------ configuration and build *)
Record hcfg := {
  h_flags : Z; h_start : Z; h_ivt_off : Z; h_ils : Z; h_entry : option Z;
  h_app : list N; h_dcd : option (list N); h_xmcd : option (list N);
  h_ver : Z; h_engine : Z; h_secs : list csec;
  h_dek : list N; h_mac_len : Z; h_nonce : option (list N);
  h_sig_data : list N; h_sig_csf : list N }.

Definition is_auth_img (f : Z) : bool := negb (Z.shiftr (Z.land f 15) 3 =? 0).
Definition is_enc_img (f : Z) : bool := negb (Z.shiftr (Z.land (Z.shiftl f 1) 15) 3 =? 0).

Record built := {
  b_image : list N;            (* HabContainer.export() *)
  b_signed : list (Z * Z);     (* blocks appended to Authenticate Data: (address, size) *)
  b_enc : list (Z * Z);        (* blocks appended to Decrypt Data *)
  b_tbs_data : list N;         (* bytes handed to cms_sign for the Authenticate Data command *)
  b_tbs_csf : list N;          (* bytes handed to the last cms_sign of the Authenticate CSF command *)
  b_csf : list N;              (* exported CSF segment (0x2000) or [] *)
  b_app : list N;              (* application as placed in the image (padded / encrypted) *)
  b_plain : list N;            (* application before encryption (padded) *)
  b_nonce : list N; b_mac : list N;
  b_ivt : ivt; b_bdt_len : Z; b_app_off : Z; b_csf_off : Z;
  b_dcd : list N; b_xmcd : list N }.

Definition opt_seg (off : Z) (o : option (list N)) : list seg := match o with Some d => [(off, d)] | None => [] end.

(* geometry *)
Definition c_auth (c : hcfg) : bool := is_auth_img (h_flags c).
Definition c_enc (c : hcfg) : bool := is_enc_img (h_flags c).
Definition c_self (c : hcfg) : Z := h_start c + h_ivt_off c.
Definition c_app_off (c : hcfg) : Z := h_ils c - h_ivt_off c.
Definition c_csf_off (c : hcfg) : Z := align_off (h_ils c + hlen (h_app c)) - h_ivt_off c.
Definition c_app_bin (c : hcfg) : list N := if c_auth c then pad_to 16 (h_app c) else h_app c.
Definition c_entry (c : hcfg) : Z := match h_entry c with Some e => e | None => hdec_le (hslice (h_app c) 4 8) end.
Definition c_ivt (c : hcfg) : ivt :=
  {| iv_ver := 64; iv_app := c_entry c; iv_dcd := (match h_dcd c with Some _ => c_self c + 64 | None => 0 end);
     iv_bdt := c_self c + 32; iv_self := c_self c; iv_csf := (if c_auth c then c_self c + c_csf_off c else 0) |}.
Definition c_bdt_len (c : hcfg) : Z :=
  h_ivt_off c + (if c_auth c then c_csf_off c + 8192 else c_app_off c + hlen (c_app_bin c)) + (if c_enc c then 512 else 0).

(* the segment objects after load_from_config (SEGMENTS_MAPPING order: IVT, BDT, DCD, XMCD, CSF, APP) *)
Record pre := {
  q_dcd : option dcd; q_xm : option xmcd; q_cmds0 : list ccmd;
  q_ivt_b : list N; q_bdt_b : list N; q_xm_b : option (list N) }.

Definition hab_pre (c : hcfg) : res pre :=
  if negb (in_list (h_flags c) [0; 8; 12]) then Err E_BADCASE
  else if (h_ivt_off c <? 0) || (h_ils c <? h_ivt_off c) || (h_start c <? 0) then Err E_BADCASE
  else
  bind (match h_dcd c with None => Ok None | Some d => res_map Some (dcd_parse d) end) (fun dcd =>
  bind (match h_xmcd c with None => Ok None | Some d => res_map Some (xmcd_load d) end) (fun xm =>
  bind (if c_auth c then
          if match h_secs c with [] => true | _ => false end then Err E_BADCASE
          else load_cmds (h_ver c) (h_engine c) (h_start c + align_off (h_ils c + hlen (h_app c)) + 8192) (h_secs c)
        else Ok []) (fun cmds0 =>
  bind (ivt_export (c_ivt c)) (fun ivt_b =>
  bind (bdt_export (h_start c) (c_bdt_len c) 0) (fun bdt_b =>
  bind (match xm with None => Ok None | Some x => res_map Some (xmcd_export x) end) (fun xm_b =>
  Ok {| q_dcd := dcd; q_xm := xm; q_cmds0 := cmds0; q_ivt_b := ivt_b; q_bdt_b := bdt_b; q_xm_b := xm_b |})))))).

Definition q_dcd_b (q : pre) : option (list N) := option_map dcd_export (q_dcd q).
Definition q_dcd_sz (q : pre) : Z := match q_dcd q with Some x => dcd_size x | None => 0 end.
Definition base_segs (q : pre) : list seg := [(0, q_ivt_b q); (32, q_bdt_b q)] ++ opt_seg 64 (q_dcd_b q) ++ opt_seg 64 (q_xm_b q).
Definition of_opt (o : option (list N)) : list N := match o with Some d => d | None => [] end.

(* HabContainer._get_signed_blocks / _get_encrypted_blocks: (address, size) *)
Definition blk (c : hcfg) (off size : Z) : Z * Z := (h_start c + h_ivt_off c + off, size).
Definition signed_blocks (c : hcfg) (q : pre) : list (Z * Z) :=
  [blk c 0 64]
  ++ (match q_dcd q with Some _ => [blk c 64 (q_dcd_sz q)] | None => [] end)
  ++ (match q_xm q with Some x => [blk c 64 (xmcd_size x)] | None => [] end)
  ++ (if c_enc c then [] else [blk c (c_app_off c) (hlen (c_app_bin c))]).
Definition enc_blocks (c : hcfg) : list (Z * Z) := [blk c (c_app_off c) (hlen (c_app_bin c))].

(* segments of an authenticated container in SEGMENTS_MAPPING order *)
Definition all_segs (c : hcfg) (q : pre) (csf ap : list N) : list seg := base_segs q ++ [(c_csf_off c, csf); (c_app_off c, ap)].

(* export_padding()[: ivt_offset + csf.offset] with the first CSF export *)
Definition padded_image (c : hcfg) (q : pre) (csf0 : list N) : list N :=
  firstn (Z.to_nat (h_ivt_off c + c_csf_off c)) (hzeros (h_ivt_off c) ++ place (all_segs c q csf0 (c_app_bin c))).

(* CsfHabSegment.encrypt: (commands, application ciphertext, nonce, mac) *)
Definition hab_encrypt (c : hcfg) (cmds : list ccmd) (image : list N) : res (list ccmd * list N * list N * list N) :=
  let nonce := match h_nonce c with Some n => n | None => rng_bytes (aead_nonce_len (hlen image)) end in
  let plain := hslice image (h_ivt_off c + c_app_off c) (h_ivt_off c + c_app_off c + hlen (c_app_bin c)) in
  if negb (Z.leb 7 (hlen nonce) && Z.leb (hlen nonce) 13 && ccm_tag_ok (h_mac_len c)
           && ccm_len_ok nonce (length plain) && aes_key_ok (h_dek c)) then Err E_CRASH
  else
  let out := ccm_encrypt (aes_enc (h_dek c)) nonce [] (Z.to_nat (h_mac_len c)) plain in
  let ct := firstn (length plain) out in
  let mac := skipn (length plain) out in
  match upd_auth 2 (set_blocks (enc_blocks c) (Some (macimg (h_ver c) nonce mac))) cmds with
  | None => Err E_REJECT
  | Some cmds1 => Ok (cmds1, ct, nonce, mac)
  end.

Definition tbs_of (c : hcfg) (image : list N) (sb : list (Z * Z)) : list N :=
  concat (map (fun b => hslice image (fst b - h_start c) (fst b - h_start c + snd b)) sb).

Definition mk_built (c : hcfg) (q : pre) (image : list N) sb eb tbs tbs_csf csf_b app_fin nonce mac : built :=
  {| b_image := image; b_signed := sb; b_enc := eb; b_tbs_data := tbs; b_tbs_csf := tbs_csf; b_csf := csf_b;
     b_app := app_fin; b_plain := c_app_bin c; b_nonce := nonce; b_mac := mac;
     b_ivt := c_ivt c; b_bdt_len := c_bdt_len c; b_app_off := c_app_off c; b_csf_off := (if c_auth c then c_csf_off c else 0);
     b_dcd := of_opt (q_dcd_b q); b_xmcd := of_opt (q_xm_b q) |}.

(* One HabContainer.update_csf() on an authenticated container whose CSF commands are `cmds` (the only state that survives
   between calls: the block lists and signature / MAC objects inside the commands; the boot-data length is computed from
   scratch, the application is reset to the kept plain bytes, the nonce is the same function of the same image), followed by
   export().  Returns the new command list and what was exported. *)
Definition hab_update (c : hcfg) (q : pre) (cmds : list ccmd) : res (list ccmd * built) :=
  bind (csf_export (h_ver c) cmds) (fun csf0 =>
  if negb (segs_ok [] (all_segs c q csf0 (c_app_bin c))) then Err E_REJECT
  else
  let image := padded_image c q csf0 in
  bind (if c_enc c then res_map (fun e => let '(cmds1, ct, nonce, mac) := e in (cmds1, ct, enc_blocks c, nonce, mac)) (hab_encrypt c cmds image)
        else Ok (cmds, c_app_bin c, [], [], [])) (fun e =>
  let '(cmds1, app_fin, eb, nonce, mac) := e in
  let sb := signed_blocks c q in
  match upd_auth 1 (set_blocks sb (Some (sigimg (h_ver c) (h_sig_data c)))) cmds1 with
  | None => Err E_REJECT
  | Some cmds2 =>
    if existsb (fun b => hlen image <? fst b - h_start c + snd b) sb then Err E_REJECT
    else
    match upd_auth 0 (set_blocks [] (Some (sigimg (h_ver c) (h_sig_csf c)))) cmds2 with
    | None => Err E_REJECT
    | Some cmds3 =>
      bind (csf_export (h_ver c) cmds3) (fun csf_b =>
      if negb (segs_ok [] (all_segs c q csf_b app_fin)) then Err E_REJECT
      else Ok (cmds3, mk_built c q (place (all_segs c q csf_b app_fin)) sb eb
                               (tbs_of c image sb) (csf_base (h_ver c) cmds3) csf_b app_fin nonce mac))
    end
  end)).

(* load_from_config (one update_csf) + export *)
Definition hab_finish (c : hcfg) (q : pre) : res built := res_map snd (hab_update c q (q_cmds0 q)).

(* history: k further update_csf() calls on the same object (same signing inputs), each followed by export() *)
Fixpoint hab_updates (c : hcfg) (q : pre) (k : nat) (cmds : list ccmd) : res (list ccmd * built) :=
  match k with
  | O => hab_update c q cmds
  | S k' => bind (hab_update c q cmds) (fun r => hab_updates c q k' (fst r))
  end.

Definition hab_build (c : hcfg) : res built :=
  bind (hab_pre c) (fun q =>
  if negb (c_auth c) then
    if negb (segs_ok [] (base_segs q ++ [(c_app_off c, c_app_bin c)])) then Err E_REJECT
    else Ok (mk_built c q (place (base_segs q ++ [(c_app_off c, c_app_bin c)])) [] [] [] [] [] (c_app_bin c) [] [])
  else hab_finish c q).

(* ------------------------------------------------------------------ parse *)
Definition known_offsets : list Z := [256; 1024; 3072; 4096; 8192].

(* AppHabSegment.parse.get_app_offset *)
Fixpoint find_app_off (d : list N) (entry : Z) (l : list Z) : res Z :=
  match l with
  | [] => Err E_REJECT
  | o :: t =>
      let rv := hdec_le (hslice (hskip d o) 4 8) in
      if rv =? 0 then find_app_off d entry t
      else if negb ((entry - 1024 <=? rv) && (rv <? entry + hlen d)) then find_app_off d entry t
      else if Z.even rv then find_app_off d entry t
      else Ok o
  end.

(* SegCSF.parse on data[off : off + 0x2000]: commands, then the referenced cmd-data headers *)
Definition cmd_data_ok (d : list N) (c : pcmd) : res unit :=
  if pc_tag c =? 190 then
    if pc_par c =? 1 then Ok tt
    else let x := hskip d (pc_loc c) in
         if negb (have x 0 4) then Err E_CRASH else if hbyte x 0 =? 215 then Ok tt else Err E_REJECT
  else if pc_tag c =? 202 then
    let x := hskip d (pc_loc c) in
    if negb (have x 0 4) then Err E_CRASH
    else if (hbyte x 0 =? 172) || (hbyte x 0 =? 216) then Ok tt else Err E_REJECT
  else Ok tt.

Fixpoint all_ok (d : list N) (l : list pcmd) : res unit :=
  match l with [] => Ok tt | c :: t => bind (cmd_data_ok d c) (fun _ => all_ok d t) end.

Fixpoint dup_locs (seen : list Z) (l : list pcmd) : bool :=
  match l with
  | [] => false
  | c :: t => if ((pc_tag c =? 190) && negb (pc_par c =? 1)) || (pc_tag c =? 202)
              then in_list (pc_loc c) seen || dup_locs (pc_loc c :: seen) t
              else dup_locs seen t
  end.

Definition csf_parse (d : list N) : res (Z * list pcmd) :=
  if negb (have d 0 4) then Err E_CRASH
  else if negb (hbyte d 0 =? 212) then Err E_REJECT
  else let len := u16be_at d 1 in
       if len <? 4 then Err E_REJECT
       else bind (cmds_parse (S (length d)) d 4 len) (fun cs =>
            if dup_locs [] cs then Err E_REJECT
            else bind (all_ok d cs) (fun _ => Ok (hbyte d 3, cs))).

(* everything HabContainer.parse reads except the CSF contents *)
Record psegs := {
  s_ivt : ivt; s_bdt : Z * Z * Z; s_dcd : option (list N); s_xmcd : option (list N); s_app_off : Z; s_app : list N }.

Definition parse_ivt_bdt (d : list N) : res (ivt * (Z * Z * Z)) :=
  bind (ivt_parse d) (fun i => bind (bdt_parse (hskip d (iv_bdt i - iv_self i))) (fun b => Ok (i, b))).
Definition parse_dcd (d : list N) (i : ivt) : res (option (list N)) :=
  if iv_dcd i =? 0 then Ok None
  else res_map (fun x => Some (dcd_export x)) (dcd_parse (hskip d (iv_dcd i - iv_self i))).
Definition parse_xmcd (d : list N) : res (option (list N)) :=
  bind (xmcd_hdr_parse (hskip d 64)) (fun o =>
  match o with
  | None => Ok None
  | Some (iface, inst, typ, bsz) =>
      res_map Some (xmcd_export {| xm_if := iface; xm_inst := inst; xm_type := typ; xm_cfg := hslice d 68 (68 + bsz - 4) |})
  end).
Definition parse_csf (d : list N) (i : ivt) : res (option (Z * list N * list pcmd)) :=
  if iv_csf i =? 0 then Ok None
  else let off := iv_csf i - iv_self i in
       let region := hslice d off (off + 8192) in
       res_map (fun r => Some (fst r, region, snd r)) (csf_parse region).
Definition parse_app (d : list N) (i : ivt) : res (Z * list N) :=
  bind (find_app_off d (iv_app i) known_offsets) (fun aoff =>
  Ok (aoff, hslice d aoff (if 0 <? iv_csf i then iv_csf i - iv_self i else hlen d))).

Record parsed := {
  p_flags : Z; p_ivt_off : Z; p_start : Z; p_ivt : ivt; p_bdt : Z * Z * Z;
  p_dcd : option (list N); p_xmcd : option (list N); p_csf : option (Z * list N * list pcmd);
  p_app_off : Z; p_app : list N }.

Definition hab_parse (d : list N) : res parsed :=
  bind (parse_ivt_bdt d) (fun ib =>
  let '(i, b) := ib in
  bind (parse_dcd d i) (fun dcd =>
  bind (parse_xmcd d) (fun xm =>
  bind (parse_csf d i) (fun csf =>
  bind (parse_app d i) (fun ap =>
  let flags := match csf with
               | None => 0
               | Some (_, _, cs) => if 3 <=? hlen (filter (fun c => pc_tag c =? 202) cs) then 12 else 8
               end in
  let '(st, _, _) := b in
  Ok {| p_flags := flags; p_ivt_off := iv_self i - st; p_start := st; p_ivt := i; p_bdt := b;
        p_dcd := dcd; p_xmcd := xm; p_csf := csf; p_app_off := fst ap; p_app := snd ap |}))))).

(* ------------------------------------------------------------------ SRK table fuses (SrkTable.export_fuses) *)
Fixpoint srk_items (fuel : nat) (d : list N) : list (list N) :=
  match fuel with
  | O => []
  | S f => if have d 0 4 then
             let len := u16be_at d 1 in
             if (len <? 4) then [] else firstn (Z.to_nat len) d :: srk_items f (hskip d len)
           else []
  end.
Definition srk_item_hash (it : list N) : list N := if hbyte it 0 =? 238 then hslice it 4 36 else sha256 it.
Definition srk_fuses (table : list N) : list N :=
  sha256 (concat (map srk_item_hash (srk_items (length table) (hslice table 4 (u16be_at table 1))))).

(* ------------------------------------------------------------------ harness interface *)
Definition vint (v : value) : Z := match v with VInt z => z | _ => 0 end.
Definition vbytes (v : value) : list N := match v with VBytes l => l | _ => [] end.
Definition vlist (v : value) : list value := match v with VList l => l | _ => [] end.
Definition vnth (l : list value) (n : nat) : value := nth n l (VErr E_BADCASE).
Definition vobytes (v : value) : option (list N) := match v with VList [VBytes l] => Some l | _ => None end.
Definition vozint (v : value) : option Z := match v with VList [VInt z] => Some z | _ => None end.

Definition dec_sec (v : value) : csec :=
  let l := vlist v in
  let a n := vint (vnth l n) in
  match a 0%nat with
  | 21 => SInsSrk (a 1%nat) (vbytes (vnth l 2))
  | 22 => SInsCsfk (a 1%nat) (vbytes (vnth l 2))
  | 24 => SAuthCsf
  | 25 => SInsKey (a 1%nat) (a 2%nat) (vbytes (vnth l 3))
  | 26 => SAuthData (a 1%nat) (a 2%nat) (a 3%nat)
  | 27 => SSecretKey (a 1%nat) (a 2%nat)
  | 28 => SDecrypt (a 1%nat) (a 2%nat) (a 3%nat)
  | 31 => SSetEngine (a 1%nat) (a 2%nat) (a 3%nat)
  | _ => SUnlock (a 1%nat) (a 2%nat) (a 3%nat)
  end.

Definition dec_cfg (l : list value) : hcfg :=
  {| h_flags := vint (vnth l 0); h_start := vint (vnth l 1); h_ivt_off := vint (vnth l 2); h_ils := vint (vnth l 3);
     h_entry := vozint (vnth l 4); h_app := vbytes (vnth l 5); h_dcd := vobytes (vnth l 6); h_xmcd := vobytes (vnth l 7);
     h_ver := vint (vnth l 8); h_engine := vint (vnth l 9); h_secs := map dec_sec (vlist (vnth l 10));
     h_dek := vbytes (vnth l 11); h_mac_len := vint (vnth l 12); h_nonce := vobytes (vnth l 13);
     h_sig_data := vbytes (vnth l 14); h_sig_csf := vbytes (vnth l 15) |}.

(* 64-byte blocks; an all-zero block is printed as its length *)
Definition rle (l : list N) : value :=
  VList (map (fun b => if forallb (N.eqb 0) b then VInt (hlen b) else VBytes b) (chunks 64 l)).
Definition vblocks (l : list (Z * Z)) : value := VList (map (fun b => VList [VInt (fst b); VInt (snd b)]) l).
Definition v_ivt (i : ivt) : value := VList (map VInt [iv_ver i; iv_app i; iv_dcd i; iv_bdt i; iv_self i; iv_csf i]).
Definition v_pcmd (c : pcmd) : value :=
  let par := if (pc_tag c =? 204) || (pc_tag c =? 207) then Z.land (pc_par c) 31 else pc_par c in
  VList (map VInt (pc_tag c :: par :: pc_size c :: pc_fields c)).
Definition v_obytes (o : option (list N)) : value := match o with Some d => VList [VBytes d] | None => VList [] end.

Definition v_parsed (p : parsed) : value :=
  let '(st, ln, pl) := p_bdt p in
  VList [VInt (p_flags p); VInt (p_ivt_off p); VInt (p_start p); v_ivt (p_ivt p); VList [VInt st; VInt ln; VInt pl];
         v_obytes (p_dcd p); v_obytes (p_xmcd p);
         match p_csf p with
         | None => VList []
         | Some (ver, region, cs) => VList [VInt ver; VList (map v_pcmd cs)]
         end;
         VInt (p_app_off p); rle (p_app p)].

Definition v_built (b : built) : value :=
  VList [rle (b_image b); vblocks (b_signed b); vblocks (b_enc b); rle (b_tbs_data b); VBytes (b_tbs_csf b);
         VInt (b_bdt_len b); v_ivt (b_ivt b); VBytes (b_nonce b); VBytes (b_mac b)].

Definition run_case (fn : Z) (args : list value) : value :=
  match fn, args with
  | 1, l => vres (fun b => VList [v_built b; vres v_parsed (hab_parse (b_image b))])
                 (hab_build (dec_cfg l))                                     (* load_from_config + export, parse(export) *)
  | 2, [VBytes d] => vres v_parsed (hab_parse d)                             (* HabContainer.parse *)
  | 3, l => vres v_parsed (bind (hab_build (dec_cfg l)) (fun b => hab_parse (b_image b)))   (* parse(export) *)
  | 7, VInt k :: l =>                                                          (* k further update_csf() calls, then export *)
      let c := dec_cfg l in
      vres (fun r => rle (b_image (snd r))) (bind (hab_pre c) (fun q => hab_updates c q (Z.to_nat k) (q_cmds0 q)))
  | 4, [VBytes t] => VBytes (srk_fuses t)                                     (* SrkTable.export_fuses *)
  | 5, [VBytes d] => vres (fun x => VBytes (dcd_export x)) (dcd_parse d)     (* SegDCD.parse -> export *)
  | 6, [VBytes d] => vres VBytes (bind (xmcd_load d) xmcd_export)            (* SegXMCD.parse -> export *)
  | _, _ => VErr E_BADCASE
  end.

(* Printing: Coq prints numbers through the number-notation machinery (about 0.3 ms per byte); constructor names print
   ~60x faster.  The harness therefore evaluates  run_case_h  and reads byte strings as lists of hex digits. *)
Inductive hx := H0 | H1 | H2 | H3 | H4 | H5 | H6 | H7 | H8 | H9 | HA | HB | HC | HD | HE | HF.
Inductive hval := HInt (z : Z) | HHex (l : list hx) | HList (l : list hval) | HErr (k : N).
Definition hx_of (n : N) : hx :=
  match n with
  | 0 => H0 | 1 => H1 | 2 => H2 | 3 => H3 | 4 => H4 | 5 => H5 | 6 => H6 | 7 => H7
  | 8 => H8 | 9 => H9 | 10 => HA | 11 => HB | 12 => HC | 13 => HD | 14 => HE | _ => HF
  end%N.
Definition hex_of (l : list N) : list hx := concat (map (fun b => [hx_of (b / 16)%N; hx_of (b mod 16)%N]) l).
Fixpoint to_hval (v : value) : hval :=
  match v with
  | VInt z => HInt z
  | VBytes l => HHex (hex_of l)
  | VStr l => HHex (hex_of l)
  | VList l => HList (map to_hval l)
  | VErr k => HErr k
  end.
Definition run_case_h (fn : Z) (args : list value) : hval := to_hval (run_case fn args).
