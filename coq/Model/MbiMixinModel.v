(* Model/MbiMixinModel.v -- the enumeration of MBI mixin classes (spsdk/image/mbi/mbi_mixin.py) and the
   class descriptor assembled by create_mbi_class (mbi.py:63-92).  Definitions only.
   Gen/GenMbi.v (regenerated from the device database on every run) refers to these constructors by name:
   a mixin class that appears in the database and is not listed here makes the generated file fail to compile
   (fail-closed). *)
From Coq Require Import ZArith NArith List Bool.
Import ListNotations.

Inductive mixin : Type :=
| MixinApp | MixinTrustZone | MixinTrustZoneMandatory | MixinLoadAddress | MixinLoadAddressOptional
| MixinFwVersion | MixinImageVersion | MixinImageSubType | MixinIvt | MixinIvtZeroTotalLength
| MixinBcaTable | MixinBcaObsolete | MixinFcfObsolete | MixinRelocTable
| MixinManifest | MixinManifestCrc | MixinManifestDigest
| MixinCertBlockV1 | MixinCertBlockV21 | MixinCertBlockVx | MixinBca | MixinFcf
| MixinHwKey | MixinKeyStore | MixinHmac | MixinHmacMandatory | MixinCtrInitVector
| ExportMixinApp | ExportMixinAppTrustZone | ExportMixinAppTrustZoneCertBlock | ExportMixinAppCertBlockManifest
| ExportMixinCrcSign | ExportMixinRsaSign | ExportMixinEccSign | ExportMixinHmacKeyStoreFinalize
| ExportMixinAppBcaFcf | ExportMixinAppFcf | ExportMixinCrcSignBca | ExportMixinEccSignVx
| ExportMixinAppTrustZoneCertBlockEncrypt.

Definition mixin_id (m : mixin) : Z :=
  match m with
  | MixinApp => 1 | MixinTrustZone => 2 | MixinTrustZoneMandatory => 3 | MixinLoadAddress => 4
  | MixinLoadAddressOptional => 5 | MixinFwVersion => 6 | MixinImageVersion => 7 | MixinImageSubType => 8
  | MixinIvt => 9 | MixinIvtZeroTotalLength => 10 | MixinBcaTable => 11 | MixinBcaObsolete => 12
  | MixinFcfObsolete => 13 | MixinRelocTable => 14 | MixinManifest => 15 | MixinManifestCrc => 16
  | MixinManifestDigest => 17 | MixinCertBlockV1 => 18 | MixinCertBlockV21 => 19 | MixinCertBlockVx => 20
  | MixinBca => 21 | MixinFcf => 22 | MixinHwKey => 23 | MixinKeyStore => 24 | MixinHmac => 25
  | MixinHmacMandatory => 26 | MixinCtrInitVector => 27 | ExportMixinApp => 28 | ExportMixinAppTrustZone => 29
  | ExportMixinAppTrustZoneCertBlock => 30 | ExportMixinAppCertBlockManifest => 31 | ExportMixinCrcSign => 32
  | ExportMixinRsaSign => 33 | ExportMixinEccSign => 34 | ExportMixinHmacKeyStoreFinalize => 35
  | ExportMixinAppBcaFcf => 36 | ExportMixinAppFcf => 37 | ExportMixinCrcSignBca => 38 | ExportMixinEccSignVx => 39
  | ExportMixinAppTrustZoneCertBlockEncrypt => 40
  end%Z.

Definition all_mixins : list mixin :=
  [MixinApp; MixinTrustZone; MixinTrustZoneMandatory; MixinLoadAddress; MixinLoadAddressOptional; MixinFwVersion;
   MixinImageVersion; MixinImageSubType; MixinIvt; MixinIvtZeroTotalLength; MixinBcaTable; MixinBcaObsolete;
   MixinFcfObsolete; MixinRelocTable; MixinManifest; MixinManifestCrc; MixinManifestDigest; MixinCertBlockV1;
   MixinCertBlockV21; MixinCertBlockVx; MixinBca; MixinFcf; MixinHwKey; MixinKeyStore; MixinHmac; MixinHmacMandatory;
   MixinCtrInitVector; ExportMixinApp; ExportMixinAppTrustZone; ExportMixinAppTrustZoneCertBlock;
   ExportMixinAppCertBlockManifest; ExportMixinCrcSign; ExportMixinRsaSign; ExportMixinEccSign;
   ExportMixinHmacKeyStoreFinalize; ExportMixinAppBcaFcf; ExportMixinAppFcf; ExportMixinCrcSignBca; ExportMixinEccSignVx;
   ExportMixinAppTrustZoneCertBlockEncrypt].

Definition mixin_eqb (a b : mixin) : bool := Z.eqb (mixin_id a) (mixin_id b).

Definition mixin_of_id (i : Z) : option mixin := find (fun m => Z.eqb (mixin_id m) i) all_mixins.

(* what create_mbi_class builds: IMAGE_TYPE[0] and the tuple of base classes after MasterBootImage *)
Record mbi_class : Type := { c_type : Z; c_mixins : list mixin }.

(* stages / helper methods whose provider is found through Python's MRO *)
Inductive stage : Type :=
| SCollect | SEncrypt | SPostEncrypt | SSign | SFinalize | SDisassemble | SUpdateIvt | SCheckTotalLength | SCleanIvt
| SDisassemblyAppData.

Definition stage_id (s : stage) : Z :=
  match s with
  | SCollect => 0 | SEncrypt => 1 | SPostEncrypt => 2 | SSign => 3 | SFinalize => 4 | SDisassemble => 5
  | SUpdateIvt => 6 | SCheckTotalLength => 7 | SCleanIvt => 8 | SDisassemblyAppData => 9
  end%Z.
Definition all_stages : list stage :=
  [SCollect; SEncrypt; SPostEncrypt; SSign; SFinalize; SDisassemble; SUpdateIvt; SCheckTotalLength; SCleanIvt;
   SDisassemblyAppData].

(* instance / class attributes tested with hasattr() in the code *)
Inductive attr : Type :=
| ATrustZone | AImageSubtype | AHwKey | AKeyStore | AAppTable | AImageVersion | ALoadAddress | AHmacKey | ACertBlock
| AIvtTable | ABca | AFcf | AManifest | ACtrIv.
Definition attr_id (a : attr) : Z :=
  match a with
  | ATrustZone => 0 | AImageSubtype => 1 | AHwKey => 2 | AKeyStore => 3 | AAppTable => 4 | AImageVersion => 5
  | ALoadAddress => 6 | AHmacKey => 7 | ACertBlock => 8 | AIvtTable => 9 | ABca => 10 | AFcf => 11 | AManifest => 12
  | ACtrIv => 13
  end%Z.
Definition all_attrs : list attr :=
  [ATrustZone; AImageSubtype; AHwKey; AKeyStore; AAppTable; AImageVersion; ALoadAddress; AHmacKey; ACertBlock;
   AIvtTable; ABca; AFcf; AManifest; ACtrIv].
